#!/usr/bin/env python3
"""Regenerates MANIFEST.json from the table below (kept next to the checks so it cannot drift)."""
import json

PROPS = [json.loads(l)["id"] for l in open("properties.jsonl")]
TB = "pyvc (AST->SMT VC generator of this repository, cross-checked against CPython on every run); z3 5.1.0; cvc5 1.0.3; spec functions taken from the property statement"
CLAIMS = {
    "C10": dict(
        category="proof", design="DESIGN.md section 7 C10",
        text="Contract-based deductive proof on the real source text of xrefs.py/tokenizer.py: xl_col_to_name (loop invariant, "
             "no bound from the loop; col < 2**20 only because of the float division, proved bit-precisely), xl_rowcol_to_cell, "
             "xl_range, xl_cell_to_rowcol and xl_col_to_offset as inverses on every encoder output (all rows, columns 0..18277, "
             "four marker combinations), totality of both decoders (only IndexError), the tokenizer's col_to_index for all "
             "[A-Z]+ strings, plus lemmas INV/SURJ/LEN/LETTERS/SPLIT (bijection, no gaps, unique split) and an exhaustive "
             "ground check of strict shortlex order on 0..18278. All inputs, not samples.",
        note="Assumes: Python ints mathematical (exact), z3 character range (code points <= U+2FFFF), int(str) modelled for "
             "sign+Unicode decimal digits, recursive spec functions as uninterpreted + unfolding instances, regex match "
             "modelled as any decomposition + tail maximality (CPython's choice is one of them). Trusted: " + TB,
        technique="contract-based deductive verification: self-generated weakest-precondition style VCs over the Python AST, discharged by z3/cvc5; counter-models replayed on the real code"),
    "C04": dict(
        category="proof", design="DESIGN.md section 7 C04",
        text="Contract-based deductive proof on the real Cell._from_storage and Cell._to_buffer (cell.py, read from /repo every "
             "run): decoder proved for ALL 2^21 flag words x all type bytes (flags bit-structured, if-joins merged, loop-free => "
             "complete): every interpreted id equals the 4-byte word at field_offset(bit, flags) of the published layout or None, "
             "payload words at their slots, every read in bounds, UnsupportedError iff bad version/type; encoder proved for 8 "
             "storable kinds x all 2^12 subsets of optional ids: flag bit iff attribute present, each id stored at "
             "field_offset(bit, flags), length == record_len(flags), type byte per kind; round trip and slot-disjointness as "
             "lemmas over the two contracts. Counter-models are replayed against the real functions with an independent "
             "layout encoder/decoder.",
        note="Assumes: typed-word memory (enforced: only byte or whole pack/unpack accesses are accepted), payload codecs "
             "(decimal128, datetime arithmetic, float compare) uninterpreted here (C01's kernels), assumed callee contracts "
             "for model.table_string/table_rich_text/merge_cells/table_string_key and Cell._set_merge (frame only), logging level "
             "arbitrary. Two genuine defects found and repaired by fix: commits ba61402, d484052 (known_findings.json). Trusted: " + TB,
        technique="contract-based deductive verification: self-generated VCs over the Python AST with if-join merging, discharged by z3/cvc5; counter-models replayed on the real code"),
    "C19": dict(
        category="proof", design="DESIGN.md section 7 C19",
        text="Contract-based deductive proof on the real containers.ItemsList and document.Sheet._add_table / Document.add_sheet: "
             "index lookup returns items[key] for -n<=key<n and raises IndexError exactly outside (any n, any key); name lookup "
             "returns the first item with exactly that name else KeyError (loop invariant, any list length); __contains__ iff some "
             "name equals ignoring case; both adders for explicit and generated names: exactly one item appended, earlier items "
             "and names unchanged, invariant U (no two siblings equal ignoring case) preserved, generated names fresh, explicit "
             "duplicate raises IndexError with collection and names unchanged - for any number of siblings and any names "
             "(quantified VCs). Save/reopen order and the same clauses over concrete histories: bounded stand-in (labelled).",
        note="Assumes: item name is a heap field updated by the model as told (assumed contracts for model.add_table/add_sheet "
             "and the Sheet/Table constructors), a new object is distinct from existing elements, str.lower on 'Table '/'Sheet '+digits "
             "(assumed lemma, probed natively), one opaque sub-expression in add_sheet, termination of the naming loop not proved. "
             "One genuine defect repaired (fix: commit, negative indices below -n). Trusted: " + TB,
        technique="contract-based deductive verification (quantified VCs over (len,at) lists + heap arrays, z3/cvc5) + bounded run-time-contract stand-in for reopen"),
    "C11": dict(
        category="proof", design="DESIGN.md section 7 C11",
        text="Contract-based deductive proof on the real Table.cell, Table._validate_cell_coords, Table.iter_rows and Table.iter_cols "
             "(document.py) over a symbolic rectangular grid of any size: cell(r,c) returns grid[r][c] and raises IndexError exactly "
             "outside the table; cell(A1 text) reaches the same cell for every encoder output (all four $ forms) and, for ANY "
             "string, either raises IndexError or returns the cell at an in-range decoded position; _validate_cell_coords (both "
             "notations) raises IndexError iff the position is negative or beyond the limits and then changes nothing, else "
             "returns (row, col, values) with the table grown to exactly max(old, needed) (loop invariants over add_row/add_column), "
             "existing cells untouched; iter_rows/iter_cols yield exactly the addressed rectangle in order for None/0/any in-range "
             "bounds and raise IndexError before yielding anything otherwise (generator as list, loop invariant). The A1 decoder's "
             "acceptance language is re-proved here; every *args method reaches positions only through these two functions "
             "(syntactic call-site obligation).",
        note="Assumes: table invariant T-INV as precondition (rows not aliased), add_row()/add_column() through grid contracts "
             "(to be proved under C03), xl_cell_to_rowcol functional correctness under C10, values_only=False. Three genuine defects "
             "repaired by fix: commits ea88c8a, fd71a76. Trusted: " + TB,
        technique="contract-based deductive verification (quantified VCs over a 2-D (nr, rl, at) grid encoding, generator-as-list, z3/cvc5); counter-models replayed on real tables"),
    "C18": dict(
        category="proof", design="DESIGN.md section 7 C18",
        text="Contract-based deductive proof on the real Tokenizer (tokenizer.py): every consumer (parse_string, parse_error, "
             "parse_operator, parse_opener, parse_closer, parse_separator), check_scientific_notation and save_token satisfy "
             "'consumes n >= 1 characters and items-text grows by exactly the pending token plus formula[offset:offset+n]'; "
             "parse() keeps the invariant itxt+tok == formula[:offset] (loop invariant, decreasing measure => termination) so that "
             "for EVERY string the token texts concatenate to the input, quoted text never enters a plain token, every quoted "
             "item is one whole match, and the only exception that can escape is TokenizerError (every index, pop, dict lookup "
             "and float() is an obligation). The source's string regexes are proved language-equivalent to the documented "
             "quoting grammar. Clause 3 (every formula the reader emits is accepted) is decided only by the bounded stand-in "
             "over the fixture formulas, labelled bounded.",
        note="Assumes: ghost views of the three lists (join/count, concatenated values/last item, depth + element invariant checked "
             "at push) with every other list operation UNSUPPORTED; regex match = any decomposition + tail maximality + look-ahead; "
             "float(str) raises ValueError or returns; z3/cvc5 string theory (code points <= U+2FFFF). One genuine defect repaired "
             "(unbalanced ')' raised IndexError). Trusted: " + TB,
        technique="contract-based deductive verification (string VCs per path, z3 + cvc5) + bounded run-time-contract stand-in for clause 3"),
    "C06": dict(
        category="proof", design="DESIGN.md section 7 C06",
        text="Contract-based deductive proof on the real DataLists.add_table/lookup_value/lookup_key, _NumbersModel.table_string "
             "and get_storage_buffers_for_row (model.py): after add_table, for EVERY entry of a lookup list in ANY order (distinct "
             "keys, any length - loop invariant over a symbolic list) a lookup by its key returns the list entry carrying that key, "
             "key_index/by_value are consistent; lookup_key keeps the index, returns a key whose entry carries the value and "
             "lookup_value(lookup_key(s)).string == s; table_string never takes its '' fallback for a key that is in the list; "
             "get_storage_buffers_for_row returns for each column None iff its offset is negative, else the slice "
             "[scale*offset : scale*next present offset or end] with scale 4 iff wide offsets (nested loop invariants, any row "
             "length) - so both offset encodings read the same cells; storage_buffers decodes every row from ITS OWN record (buffer, offsets and "
             "offset width of the same row record, buffer k from the record at flat position k, for any tiles and rows); row_storage_map maps the row each record "
             "declares to that record's flat position, one store per record whatever it holds; is_iwa_file (C17) and _decompress_all "
             "(C05) re-verified for chunk boundaries; complete syntactic obligation that the rich-text lookup cannot leave its scan before "
             "the wanted key. Zip order/method, package form and whole documents: bounded stand-in (12 rewrites x fixtures incl. explicit cell-less row records + a self-written "
             "large document).",
        note="Assumes: ghost view of TST.TableDataList (entries list + heap fields), protobuf object-store lookups bound to that view, "
             "A-PB for the ListEntry constructor, @cache on add_table (IDX as class invariant), array('h', offsets) identity on int16. "
             "Two genuine defects repaired (fix: commits - entries indexed only while keys ascend; rows matched by counting header "
             "records, visible in tests/data/issue-66-collab.numbers). Trusted: " + TB,
        technique="contract-based deductive verification (quantified VCs over symbolic lists/maps with Skolem spec functions, z3/cvc5) + bounded layout-rewrite stand-in"),
    "C03": dict(
        category="proof", design="DESIGN.md section 7 C03",
        text="Contract-based deductive proof on the real Table.add_row, add_column, delete_row and delete_column (document.py) over a "
             "symbolic rectangular grid of any size with a per-field heap for cell.row/cell.col and an allocation ghost: each "
             "operation raises IndexError exactly for an out-of-range start or a count no plain grid admits and then changes "
             "nothing; otherwise grid' is exactly the plain-grid transformer (rows/columns inserted as new blank cells at the index, "
             "or exactly the addressed slice removed), num_rows/num_cols move by the count, the grid stays rectangular and EVERY "
             "cell - old, shifted or new - reports its own row and column (nested loop invariants for the renumbering, injectivity "
             "of the grid). Each operation re-establishes the class invariant, hence every finite history does. Document.save "
             "assigns no cell value/position or grid slot anywhere in its (over-approximated) call graph. add_row/add_column with a default (any "
             "value, falsy ones included): Table.write(r, c, default) is called for exactly the cells of the inserted block and no other "
             "(loop invariants over a ghost call map, grid abstracted away; Table.write itself is C12's contract). Table and sheet "
             "additions, isolation across tables/documents and save/reopen equality: bounded lock-step reference-grid stand-in.",
        text2="Re-verified here: C07's recalculate_table_data / recalculate_row_info contracts (a table grown past one 256-row tile is stored completely). Document.save (C16's contract) and the structural obligation that a table added by add_table owns every list the library allocates keys in.",
        note="Assumes: T-INV+ as class invariant, Cell._empty_cell returns a freshly allocated cell carrying its coordinates (assumed "
             "contract + allocation model), model.number_of_rows/columns only record sizes, default=None in the add_* proofs. One "
             "genuine defect repaired (count validation). Trusted: " + TB,
        technique="contract-based deductive verification (quantified VCs over grid + heap arrays, class invariant => all histories) + bounded reference-grid stand-in"),
    "C12": dict(
        category="other", design="DESIGN.md section 7 C12",
        text="Mixed. Proved (contract-based, real source): Table.merge_cells for one range (four nested loop invariants over a ghost grid, any "
             "table and rectangle inside it): one anchor at the top-left with the rectangle's size, exactly the other cells of the rectangle "
             "replaced by placeholders carrying their own position and registered as references to the whole rectangle - none outside, none "
             "missing - then every cell's merge state set from the lookup for its own position; Cell._set_merge for its three cases (anchor: "
             "is_merged + size; placeholder: rect, merge_range == A1 text via xl_range's contract, inner-edge flags; unmerged); "
             "recalculate_merged_cells: the table refers to a freshly created map listing every anchor in order with packed position and size. "
             "The pack/unpack expressions of the stored map are checked for all positions within the documented table limits: refuted for rows "
             ">= 65536 (open known finding, replayed on a real save/reopen), so not every obligation is discharged and the level is not 'proof'. "
             "Whole documents (reload, writes, insert/delete after the merge, several saves with merges in between): bounded stand-in over all "
             "rectangles of a 4x4 (6x6) table.",
        text2="Also: calculate_merge_cell_ranges (what a reopened document reports; seven loop cuts): every rectangle of the stored region map and every merge-owner record of the table is registered with its unpacked anchor and size and one reference per covered cell, whatever was registered before.",
        note="Assumes: xl_range and xl_cell_to_rowcol through their C10 contracts (the range text is split by an opaque expression); MergeCells "
             "as a ghost record. One genuine defect repaired (merge_cells converted only interior cells), two recorded as open known findings "
             "(merge map not shifted by insert/delete; 16-bit packing vs 1,000,000 rows). Trusted: " + TB,
        technique="contract-based deductive verification of the kernels + bounded run-time-contract stand-in (mixed)"),
    "C17": dict(
        category="proof", design="DESIGN.md section 7 C17",
        text="Contract-based deductive proof on the real container-loading layer (iwork.py, iwafile.py): is_iwa_file is proved for ALL "
             "byte strings never to raise and to return True exactly when the data is a sequence of well-formed chunk frames (loop "
             "invariant against a recursive framing spec); exception-escape contracts, computed modularly, show that from "
             "IWork._store_blob, _open_zipfile, _read_objects_from_zipfile (recursive), _read_objects_from_package, document_version and "
             "IWork.open only FileError/FileFormatError/UnsupportedError can reach the caller (plus OSError, which is not a property "
             "of the file) - every other exception class that a callee may raise is shown to be caught and converted. Relative to the "
             "ASSUMED raises-sets of zipfile/plistlib/protobuf calls, which are listed in the evidence. The model-level part and real "
             "damaged files: bounded fault-injection stand-in (truncations, bit flips, per-member faults).",
        note="Assumes: the listed raises-sets of library calls (ZipFile, read, getinfo, plistlib.loads, from_buffer), transparent context "
             "managers, only Exception subclasses considered, OSError allowed to propagate. Four groups of genuine defects repaired by "
             "six fix: commits. Trusted: " + TB,
        technique="contract-based deductive verification: exception-escape contracts (path-sensitive raises sets) + a functional loop-invariant proof of the framing sniffer; bounded fault injection as stand-in"),
    "C05": dict(
        category="proof", design="DESIGN.md section 7 C05",
        text="Contract-based deductive proof on the real IWA codec (iwafile.py): IWACompressedChunk.to_buffer cuts ANY stream into "
             "consecutive pieces of at most 64 KiB that cover it exactly and in order (loop invariant, termination), and the frame "
             "expression's 3-byte length is lossless because len(payload) < 2**24 follows from the snappy bound (obligation, not "
             "assumption); _decompress_all yields, for ANY well-framed file, exactly one piece per frame in order - so the decoded "
             "stream does not depend on where it was cut - and raises ValueError exactly when a marker byte is not 0; "
             "IWAArchiveSegment.to_buffer leaves every message_info.length equal to the serialised size of its object (header "
             "lengths == message sizes), for any number of messages; IWAArchiveSegment.from_buffer (loop invariant over the prefix sums of the "
             "header's lengths, any number of messages): object k is parsed from payload[offset_k : offset_k + length_k], with the class "
             "registered for its type or - for a merge message - the patch parser over the class of message_infos[base_message_index], and "
             "the remainder starts after the last message. Inverse property on real archives, unknown fields, merge "
             "segments, snappy-shaped blocks: bounded stand-in over ~5 270 fixture archives and synthetic ones.",
        note="Assumes: A-SNAPPY (compression bound; compress/uncompress opaque functions of the piece), A-PB (serialised length a "
             "function of the object; Parse/Serialize inverse - exercised only by the bounded corpus run), ghost views for bytes and "
             "piece lists, well-framedness as precondition of _decompress_all; in from_buffer the header decoder, the type-to-class table and the "
             "protobuf parsers are uninterpreted (which bytes and which class reach them is what is proved). Trusted: " + TB,
        technique="contract-based deductive verification (loop invariants over stream positions, Skolem frame positions) + bounded corpus/synthetic stand-in"),
    "C08": dict(
        category="other", design="DESIGN.md section 7 C08",
        text="Mixed. Proved (contract-based, real formula.py, any rendering stack): each of the 12 binary operator methods replaces the "
             "two top entries by first-pushed + glyph + second-pushed with the glyph the property names; negate, percent, empty; string "
             "literals with every quote doubled; booleans TRUE/FALSE; lists and function calls name(args in pushed order) for arities "
             "0..4 (bounded arity, any stack below); no IndexError for a stack of sufficient depth; the dispatch table wires each node "
             "type to the method proved for its glyph (complete syntactic check); every memoised method of the package keys its cache on all of its parameters (complete syntactic check, so rendering a formula for one cell cannot return another cell's text). 'The text, read with conventional precedence, is the "
             "stored tree' and number/date/reference literals: bounded stand-in with an independent precedence parser over generated "
             "trees - it reports one open known finding (number literals >= 1e16), so the level is not 'proof'.",
        text2="Also: number_to_str returns the literal's shortest round-trip spelling unchanged when it has no exponent (A-REPR).",
        note="Assumes: ghost view of the stack list, popn/push/pop inlined, z3 str.replace_all for str.replace, model.table_name opaque. "
             "Open known finding F-C08-1 (not repaired: the pinned test fixture expects the defective text). Trusted: " + TB,
        technique="contract-based deductive verification of the per-node stack transitions + bounded render/parse-back stand-in (mixed)"),
    "C09": dict(
        category="other", design="DESIGN.md section 7 C09",
        text="Mixed. Proved (contract-based, real model.py/xrefs.py, all integers/strings): node_to_ref resolves each coordinate to the "
             "stored value if absolute and host + stored offset if relative, copies the '$' bits and keeps begin/end unswapped (cell nodes, "
             "relative/absolute rectangle tracts with and without range_end); expand_ref's qualification is '' / 'T::' / 'S::T::' by the "
             "property's cases; _initialize_table_data decides name uniqueness over model.table_names(), i.e. every table of the document (dataflow "
             "contract); Table.write invalidates the header-label cache exactly for writes into the header area (C12's contract re-verified); "
             "_format_cell_range is prefix + A1(start)[:A1(end)] over xl_rowcol_to_cell's C10 contract; lemma RESOLVE: for "
             "any number of sheets/tables with sibling-unique names the chosen qualification resolves to the stored table only and no "
             "shorter one does. Header labels, whole-row/column tracts, cross-table UUID lookup, quoting, and rename/relabel histories: "
             "bounded stand-in with an independent resolver, so the level is not 'proof'.",
        text2="Also: ScopedNameRefCache._column_data/_row_data: the label of a column / row is the cell in the bottom header row / last header column (any number of header rows and columns). _format_row_span/_format_column_span for label spans: the qualification is dropped iff one of the two labels is document-unique; _calculate_name_scopes for both axes: a line is named by its label iff it is a body line with a label that occurs once among the labels of the body lines of its own axis.",
        note="Assumes: protobuf nodes as records with HasField; CellRange(...) records its keyword arguments; naming functions uninterpreted "
             "in the lemmas. Trusted: " + TB,
        technique="contract-based deductive verification (path-complete symbolic execution of node_to_ref/expand_ref/_format_cell_range + "
                  "quantified resolver lemmas) + bounded print/resolve-back stand-in (mixed)"),
    "C01": dict(
        category="other", design="DESIGN.md section 7 C01",
        text="Mixed. Proved (contract-based, real cell.py/model.py/document.py): _from_value picks the cell class by type with bool before "
             "int and raises ValueError otherwise; _pack_decimal128/_unpack_decimal128 byte-level contracts (digit loop by invariant, "
             "byte loop unrolled to the operand width with the unwinding assertion) and lemmas D128-ROUNDTRIP/D128-VALUE: the reader "
             "recovers sign, mantissa and exponent exactly and returns the correctly rounded value of the stored decimal, i.e. x under "
             "A-REPR - for every double; payload transport through the cell record (C04 encoder/decoder contracts re-verified); text "
             "round trip through the string list for every string (C06 DataLists contracts re-verified); lemmas DT-ROUNDTRIP / "
             "DT-WHOLE-SECONDS / DT-DOMAIN in mixed integer/real arithmetic for dates and durations under A-DT; growth on out-of-range "
             "writes (C11 contract re-verified); the table writer (C07's tile-loop and row-record contracts re-verified: every row stored exactly "
             "once). The statement is end to end (write, save, reopen): that composition through "
             "recalculate_table_data, the tile writer and the container is a bounded stand-in (1M codec values, 6 types x 300 values x "
             "positions incl. beyond the table), so the level is not 'proof'.",
        text2="Also: Complete structural obligation: methods that obtain keys of a lookup list which every save empties are not memoised.",
        note="Assumes A-REPR (shortest spelling; correctly rounded int/int division and float(int)), A-DT (CPython datetime arithmetic), "
             "sigfig.round uninterpreted. One genuine defect repaired: fix: commit 5fd0efc (decimal128 codec went through float log/pow/"
             "division; 12, 50, 52, 0.12 came back one ulp off). Trusted: " + TB,
        technique="contract-based deductive verification (loop invariant + width-bounded unrolling, LIA/LRA lemmas over the two codec "
                  "postconditions) + bounded write/save/reopen stand-in (mixed)"),
    "C02": dict(
        category="other", design="DESIGN.md section 7 C02",
        text="Mixed. Proved (contract-based, real cell.py/model.py, re-verified in this check): the cell-record decoder for all 2^21 flag "
             "words and the encoder for every storable kind with the lemmas ROUNDTRIP and DISJOINT - every optional reference the "
             "decoder reads (style, formats, formula, control, rich-text ids) is re-emitted at the slot it is read from; the decimal128 "
             "codec contracts and lemmas (a float read from a record is written back as a decimal whose correctly rounded value is that "
             "float); the string-list contracts (reset, re-keying, lookup); the table writer (C07's tile-loop and row-record contracts). The statement quantifies over whole documents and open/save "
             "cycles: bounded stand-in over the fixtures and built documents, two cycles, with and without read-only accessors called "
             "before saving, comparing class/value/formula/formatted value/merge state/bullets/hyperlinks per cell.",
        note="Assumptions of C04/C01/C06 apply. Genuine defects repaired: fix: commits d484052 (rich-text id written twice), 5fd0efc "
             "(decimal128), 85673dd (reading cell.style marked it changed; save crashed on gradient backgrounds). Trusted: " + TB,
        technique="contract-based deductive verification of the record/codec/string-list kernels + bounded whole-document re-save "
                  "stand-in (mixed)"),
    "C07": dict(
        category="other", design="DESIGN.md section 7 C07",
        text="Mixed. Proved (contract-based, real containers.py/model.py): new_message_id/create_object_from_dict under the store invariant "
             "(every stored id <= _max_id and mapped to an archive file of the file store): the new id is old _max_id+1, was not stored, is "
             "recorded as last_object_identifier; exactly that id, its file mapping and (if needed) its file are added, nothing else is "
             "lost; recalculate_row_info for any number of columns and record lengths (loop invariants over prefix sums): offset k is -1 or "
             "the byte position >> 2, records 4-byte aligned, strictly increasing, non-overlapping, inside the buffer, offsets fit int16 "
             "(lemmas ALIGNED/INCREASING/INT16), cell_count exact; the tile loop of recalculate_table_data (nested loop invariants, any "
             "number of rows): consecutive tile ids, every row exactly once in tile r>>8 at position r&255, declared == stored row counts, "
             "each tile a fresh object with a metadata entry; complete syntactic check that every object created in a new archive file "
             "is passed to add_component_metadata with the matching locator, and that every identifier create_object_from_dict returns is made the "
             "target of a reference (no orphan objects: what was meant to point at a new object cannot silently keep pointing at the object it "
             "was cloned from). Reference closure and whole-package structure: bounded "
             "stand-in with an independent validator - it reports one open known finding, so the level is not 'proof'.",
        text2="Also: Shared with C15: the cell-style de-duplication key reads every attribute and keeps the fields apart; the validator reports data files no record describes.",
        note="Assumes ghost records for protobuf messages and the store dicts, C04's record-length facts, <= 1000 columns. Open known finding "
             "F-C07-1 (null category_owner reference in tables the library creates; deliberate in the source). Trusted: " + TB,
        technique="contract-based deductive verification (nested loop invariants, prefix-sum spec functions with induction lemmas, symbolic "
                  "maps for the object store) + bounded structural-validator stand-in (mixed)"),
    "C15": dict(
        category="other", design="DESIGN.md section 7 C15",
        text="Mixed. Proved (contract-based, real cell.py/model.py/document.py): the four CellBorder setters (slot becomes the stroke iff empty "
             "or the stroke's order is greater; other slots untouched; no exception for visible edges); model.set_cell_border for each side "
             "assigns exactly the cell owning the edge and the neighbour sharing it (opposite side); complete syntactic obligations that "
             "add_stroke stamps the stroke with the freshly incremented max_order and that Table.set_cell_border orders the stroke before "
             "any cell is updated; lemma LAST-WRITER-WINS over these contracts; Style.__setattr__ for each of the 16 attributes (value stored, "
             "text/cell update marks set exactly for text/cell attributes); Style.from_storage returns the accessors' values with neither mark "
             "set (reading never schedules a save); model.add_stroke: the stroke gets max_order+1, a line without a layer gets a new layer "
             "holding exactly the new stroke, and for a line with runs a per-run cut assertion proved for ANY run and ANY new stroke: an "
             "existing run never gains a cell, never loses a cell outside the new stroke, pieces split off it are copies of it, it is replaced "
             "only by a full copy of the new stroke when the new stroke covers it, and the new stroke ends up in the list; complete ground/"
             "syntactic checks: the key that decides which cells share a saved cell style reads every cell-level attribute; all 256 colour "
             "channel values survive the stored c/255 form, "
             "font family and name tables are mutually inverse. Stroke runs in the file, style archives, merged cells and reload: bounded "
             "stand-in with a last-writer-wins edge model, so the level is not 'proof'.",
        text2="Also: update_paragraph_style: every text field of an existing archive takes the style's current value (17 fields, also 0.0 / False). Table.set_cell_border for each side (the stroke recorded once, exactly `length` cells updated, the k-th at offset k); structural obligations: the style key keeps its fields apart, an added table owns every keyed list.",
        note="Assumes Border/CellBorder as heap records, cell_for_stroke uninterpreted, dataclass init through __setattr__. Genuine defects "
             "repaired: fix: commits 6c9657a (stroke ordered after the cells were updated: second stroke over an edge ignored by the open "
             "document) and 85673dd (reading cell.style marked the style as changed). Trusted: " + TB,
        technique="contract-based deductive verification (heap-record contracts on the setters, per-side call-effect contracts, dominance and "
                  "stamping obligations, precedence lemma) + bounded edge-model / style round-trip stand-in (mixed)"),
    "C16": dict(
        category="other", design="DESIGN.md section 7 C16",
        text="Mixed. Proved (contract-based, real model.py): recalculate_row_headers for any number of rows (loop invariant over the header list): "
             "header r has index r, the row's cell count, and as size the session-cached height less floor(border allowance) if the row was "
             "read or set, otherwise exactly the size stored in the source document - so rows that were never queried keep their size; "
             "recalculate_column_headers likewise with col_width(c) - floor(border allowance) (two loops, widths collected before the stored "
             "headers are cleared); lemma GEOMETRY-STABLE over the reader's formula floor(round(s)+b): the written size reads back as the same "
             "height for every allowance b >= 0 and a second cycle writes the same size (no drift), with a vacuity guard showing the pinned "
             "writer drifts; complete syntactic obligation (shared with C07) that every object add_table creates is made the target of a reference, so a "
             "new table has its own header storage. The readers' float arithmetic, names, captions, header counts, coordinates and whole documents over 1..3 cycles: "
             "bounded stand-in, so the level is not 'proof'.",
        text2="Also: Complete frame obligation: the stored header counts are assigned only in their two setters. Document.save: every table that is not a pivot table is handed to recalculate_table_data exactly once with its own grid, the model saved once; row_height / col_width (readers) == floor(round_half_even(stored size or default) + border allowance) under A-REAL.",
        note="Assumes ghost records for protobuf header lists and session caches, sizes as integers, floor(border allowance) uninterpreted. Genuine "
             "defect repaired: fix: commit 08975f9 (unqueried row heights were written as 0.0 = default; sizes of bordered rows/columns grew on "
             "every save). Trusted: " + TB,
        technique="contract-based deductive verification (loop invariants over ghost header lists and symbolic maps, LIA/LRA stability lemma) + "
                  "bounded save/reopen cycle stand-in (mixed)"),
    "C14": dict(
        category="other", design="DESIGN.md section 7 C14",
        text="Mixed. Proved (contract-based, real cell.py): _auto_units for every whole number of seconds (largest = largest unit reached, smallest = "
             "coarsest unit dividing the value but not coarser than the largest, zero shows days); _unit_format for every value and style and "
             "each of the six units; the format parser _decode_date_format for EVERY format string: it terminates and raises nothing (loop "
             "invariant + decreases), and for five families of formats of unbounded length the result is the concatenation of the parts - pure "
             "literal text passes through unchanged, quoted text passes through unchanged (letters included), a single directive renders as "
             "that directive, directive + escaped quote renders in that order (the repaired defect), directive + literal + directive renders "
             "in that order. Complete ground checks: each directive lambda of DATETIME_FIELD_MAP reads only the field its documented meaning "
             "depends on (syntactic, whole table) and renders the documented value, range and padding over that field's domain (exhaustive "
             "for clock fields; every day of 33 years incl. century years for date fields - a sample of the date domain); format validation "
             "uses the same table. Arbitrary compositions of parts and _duration_format (float division per unit) are a bounded stand-in with "
             "an independent oracle and a display-parse-back check, so the level is not 'proof'.",
        text2="Also: Cell._duration_format for every whole number of seconds below 2**53, explicit units, short and long style: the components are the mixed-radix digits of the duration over the shown units (lemma FDIV-TRUNC assumed and sampled). Under A-REAL (floats as reals) the same for every duration >= 0 with the millisecond component to the nearest, and _auto_units for durations with a fraction of a second.",
        note="str.isalpha on one character is uninterpreted except that the quote is not a letter; _decode_date_format_field total by assumption. "
             "Genuine defects repaired: fix: commits d3185f4 (k/kk printed 124 for 10:00), 2615b0e (automatic units for whole weeks), 6291058 "
             "(escaped quote emitted before the pending directive), e49d46d (documentation of y). Trusted: " + TB,
        technique="contract-based deductive verification of the unit selection/labelling functions + complete per-field ground evaluation of the "
                  "directive table + bounded composition / duration parse-back stand-in (mixed)"),
    "C13": dict(
        category="exploration", design="DESIGN.md section 7 C13",
        text="Mostly bounded. Proved (contract-based, real cell.py): _format_currency only decorates the number text (symbol, tab, parentheses without "
             "the minus sign; every digit kept) for every text, code, flag and sign; _format_fraction_parts_to for all integers (carry of a "
             "fraction equal to one, never n/n); _format_base in minus-sign mode for every value and every base 2..36: the digits the loop produces are the "
             "base-b expansion of |round(value)| (nonlinear loop invariant with an induction lemma, termination proved), sign by '-'; _format_decimal "
             "with fixed decimals and no grouping (dataflow contract over the two third-party rounding calls, uninterpreted): the digits are "
             "sigfig(sigfig(x, 15 significant digits), decimals=places), then '%', then parentheses - nothing else touches a digit. The numeric relation (display read back == value rounded to the displayed precision; decimals "
             "shown == decimals asked for; separators/negative styles/padding decorate only) for decimal, percentage, currency, scientific, base "
             "and fraction formats is decided by a bounded stand-in with an independent decimal/fraction/base reader: no contract within reach "
             "can express it, because the digits come from the third-party sigfig package, float '%E' formatting, Fraction.limit_denominator and "
             "bin()/oct()/hex() (two's complement).",
        text2="Also: Sampled ground check of _twos_complement (every v in [-70000,-1] and around each power of two up to 2**52).",
        note="Genuine defects repaired: fix: commits 1caf0ad (decimals dropped / exponent spelling near zero), d45fa3f (accounting style ate a "
             "digit), b42f721 (fraction carry and negative whole parts). Trusted: " + TB,
        technique="bounded run-time-contract stand-in with an independent oracle (the deciding method for the numeric relation) + contract-based "
                  "deductive verification of the decoration layers"),
    "C20": dict(
        category="exploration", design="DESIGN.md section 7 C20",
        text="Mostly bounded. Checked completely (syntactic obligations on the real _csv2numbers.py): every raise in the converter raises RuntimeError, "
             "main() runs every Converter call inside the handler that prints one line to stderr and exits with status 1, the float coercion is "
             "guarded by math.isfinite, the CSV file is opened with newline='', next() has a default. Proved (contract-based, real "
             "_cat_numbers.py): cell_as_string exports a number cell through the 15-digit rounding, an empty cell as '', an error cell as '#REF!', "
             "any other cell as str(value); Converter.save (nested loop invariants over a ghost call map, any number of rows and any row lengths) calls "
             "Table.write(r, c, value) for every cell of the grid with the value at that position - blank cells too - and for nothing else, then "
             "saves once. The grid round trip (text identical, numbers numerically equal, special floats stay text, "
             "--no-header/--whitespace/--reverse) is decided by a bounded stand-in with Python's csv module as the reference: no contract "
             "within reach expresses it (csv module, float() parsing of arbitrary spellings, document round trip).",
        text2="Also: Structural: a coerced field is the result of float(); csv.reader gets no formatting parameter beyond the dialect.",
        note="Open known finding F-C20-1 (repeated header cells collapse columns; a repair is a redesign of the row representation). Genuine defects "
             "repaired: fix: commits 6f0ba33 (nan/inf/1e400 crashed the converter), 69b895c (CR inside quoted cells became LF), 424d4db (empty "
             "file crashed). Trusted: " + TB,
        technique="bounded run-time-contract stand-in with the csv module as reference (the deciding method for the round trip) + complete syntactic "
                  "obligations on the error-reporting shape + contract-based verification of cell_as_string"),
}
NA_REASON = "check not built yet (build in progress; see DESIGN.md section 7 for the plan)"

m = {"version": 1,
     "setup_cmd": "sh ./setup.sh",
     "hooks": {"guard": "NUMBERS_PARSER_VERIF", "enable": "no hooks: checks read /repo/src as it is (guard reserved, unused)",
               "baseline_off_cmd": "cd /repo && /venv/bin/python -m pytest -ra -q -p no:cacheprovider --timeout=900 --continue-on-collection-errors",
               "source_commits": [], "add_only": True},
     "engines": [{"name": "pyvc", "path": "pyvc/", "serves_properties": sorted(CLAIMS),
                  "kind_free_text": "verification-condition generator over the Python ast of the real functions (re-read from /repo on every run) with sidecar contracts in contracts/; SMT back ends z3-new and cvc5 as subprocesses; native replay under /venv/bin/python"}],
     "checks": [], "notes": "exit 0 held / 1 violation / 2 undecided / 3 checker error. known_findings.json lists recorded defects.",
     "not_applicable": []}
for p in PROPS:
    if p in CLAIMS:
        c = CLAIMS[p]
        m["checks"].append({"property_id": p, "quick_cmd": f"./check {p} --tier quick", "thorough_cmd": f"./check {p} --tier thorough",
                            "evidence_file": f"evidence/{p}.json", "replay_cmd_template": f"./check {p} --replay {{path}}",
                            "engine": "pyvc", "level_claimed": {"category": c["category"], "text": c["text"] + (" " + c["text2"] if c.get("text2") else ""), "design_ref": c["design"]},
                            "level_note": c["note"], "technique": c["technique"]})
    else:
        m["not_applicable"].append({"property_id": p, "reason": NA_REASON})
json.dump(m, open("MANIFEST.json", "w"), indent=1)
print("claimed:", sorted(CLAIMS))

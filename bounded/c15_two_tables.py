"""Bounded stand-in for C15 (second script): styles given to cells of two tables of one document - the template table and a table added to the
same sheet or to a new sheet - read back equal after every one of three saves of the same open document (each table keeps its own style list).
The history is the one bounded/c03_histories.py uses for "edits of one table never show up in another"."""
import os
import sys

sys.path.insert(0, os.path.dirname(os.path.dirname(os.path.abspath(__file__))))
from bounded import common  # noqa: E402
from bounded.c03_histories import run_two_tables  # noqa: E402


def run_case(case):
    r = run_two_tables(case)
    return r if r else {"ok": True, "count": 12}


def main():
    ap = common.std_args()
    ap.parse_args()
    cases = [{"special": "two-tables", "where": w, "styles": True} for w in ("same-sheet", "other-sheet")]
    return common.run(cases, run_case)


if __name__ == "__main__":
    sys.exit(main())

"""Bounded stand-in for C08: expression trees -> stored AST nodes -> the library's formula text -> independent
precedence parser -> tree; run-time contract: parsed tree == original tree (operators, operand order, function names
and argument order, literals), and rendering never fails for well-formed expressions."""
import itertools
import math
import os
import random
import re
import sys

sys.path.insert(0, os.path.dirname(os.path.dirname(os.path.abspath(__file__))))
from bounded import common  # noqa: E402

BIN = {"+": ("ADDITION_NODE", 3), "-": ("SUBTRACTION_NODE", 3), "×": ("MULTIPLICATION_NODE", 4), "÷": ("DIVISION_NODE", 4),
       "^": ("POWER_NODE", 5), "&": ("CONCATENATION_NODE", 2), "=": ("EQUAL_TO_NODE", 1), "≠": ("NOT_EQUAL_TO_NODE", 1),
       "<": ("LESS_THAN_NODE", 1), ">": ("GREATER_THAN_NODE", 1), "≤": ("LESS_THAN_OR_EQUAL_TO_NODE", 1),
       "≥": ("GREATER_THAN_OR_EQUAL_TO_NODE", 1)}


def prec(t):
    k = t[0]
    if k == "bin":
        return BIN[t[1]][1]
    if k == "neg":
        return 6
    if k == "pct":
        return 7
    return 9


def wrap_for(t, need, strict):
    p = prec(t)
    if p < need or (strict and p == need):
        return ("list", [t])
    return t


def mk_bin(op, a, b):
    p = BIN[op][1]
    return ("bin", op, wrap_for(a, p, False), wrap_for(b, p, True))


def mk_neg(a):
    return ("neg", wrap_for(a, 6, False))


def mk_pct(a):
    return ("pct", wrap_for(a, 7, False))


ATOMS = [("num", 7), ("num", 2.5), ("num", 0), ("num", 1.25e-7), ("num", 1e22), ("num", 123456789.25), ("str", 'a"b'), ("str", ""),
         ("str", "x,y)"), ("bool", True), ("bool", False), ("ref", 0, 0, False, False), ("ref", 2, 1, True, True), ("date", 86400 * 400),
         ("ref", 1, 2, True, False),
         # literals that need 16 or 17 significant digits to be read back as the same double
         ("num", 3.141592653589793), ("num", 0.30000000000000004), ("num", 1234.5678901234567), ("num", 9007199254740993.0 / 4096)]


def gen_all(depth):
    if depth == 0:
        return list(ATOMS)
    sub = gen_all(depth - 1)
    small = sub[:6] if depth > 1 else sub
    out = list(ATOMS)
    for op in BIN:
        for a in small[:5]:
            for b in small[:5]:
                out.append(mk_bin(op, a, b))
    for a in small:
        out += [mk_neg(a), mk_pct(a), ("list", [a]), ("fun", "SUM", [a]), ("fun", "ABS", [a])]
    out += [("fun", "PI", []), ("fun", "SUM", [small[0], small[1]]), ("fun", "IF", [small[2], ("empty",), small[1]]),
            ("arr", [[small[0], small[1], small[2]]]), ("arr", [[small[0], small[1]], [small[2], small[3]]]), ("list", [small[0], small[1]])]
    return out


def gen_random(rnd, depth):
    if depth == 0 or rnd.random() < 0.25:
        a = rnd.choice(ATOMS)
        if a[0] == "num" and rnd.random() < 0.5:
            return ("num", rnd.choice([rnd.randrange(0, 10 ** rnd.randrange(1, 15)), float(f"{round(rnd.uniform(1, 9.9), rnd.randrange(0, 13))}e{rnd.randrange(-290, 290)}")]))
        if a[0] == "str" and rnd.random() < 0.5:
            return ("str", "".join(rnd.choice('ab" ,()+') for _ in range(rnd.randrange(0, 6))))
        if a[0] == "ref":
            return ("ref", rnd.randrange(0, 5), rnd.randrange(0, 5), rnd.random() < 0.5, rnd.random() < 0.5)
        return a
    k = rnd.random()
    if k < 0.5:
        return mk_bin(rnd.choice(list(BIN)), gen_random(rnd, depth - 1), gen_random(rnd, depth - 1))
    if k < 0.6:
        return mk_neg(gen_random(rnd, depth - 1))
    if k < 0.68:
        return mk_pct(gen_random(rnd, depth - 1))
    if k < 0.85:
        n = rnd.randrange(0, 4)
        name = {0: "PI", 1: "ABS", 2: "POWER", 3: "IF"}[n]
        args = [gen_random(rnd, depth - 1) if rnd.random() > 0.15 or n < 3 else ("empty",) for _ in range(n)]
        return ("fun", name, args)
    if k < 0.93:
        return ("list", [gen_random(rnd, depth - 1) for _ in range(rnd.randrange(1, 4))])
    r, c = rnd.randrange(1, 3), rnd.randrange(1, 4)
    lit = lambda: rnd.choice([a for a in ATOMS if a[0] in ("num", "str", "bool")])
    return ("arr", [[lit() for _ in range(c)] for _ in range(r)])


# ---------------------------------------------------------------- tree -> stored nodes
def to_nodes(t, out, A, fid):
    k = t[0]
    N = A.ASTNodeArrayArchive.ASTNodeArchive
    TY = A.ASTNodeArrayArchive.ASTNodeType
    if k == "bin":
        to_nodes(t[2], out, A, fid)
        to_nodes(t[3], out, A, fid)
        out.append(N(AST_node_type=TY.Value(BIN[t[1]][0])))
    elif k == "neg":
        to_nodes(t[1], out, A, fid)
        out.append(N(AST_node_type=TY.Value("NEGATION_NODE")))
    elif k == "pct":
        to_nodes(t[1], out, A, fid)
        out.append(N(AST_node_type=TY.Value("PERCENT_NODE")))
    elif k == "list":
        for a in t[1]:
            to_nodes(a, out, A, fid)
        out.append(N(AST_node_type=TY.Value("LIST_NODE"), AST_list_node_numArgs=len(t[1])))
    elif k == "fun":
        for a in t[2]:
            to_nodes(a, out, A, fid)
        out.append(N(AST_node_type=TY.Value("FUNCTION_NODE"), AST_function_node_index=fid[t[1]], AST_function_node_numArgs=len(t[2])))
    elif k == "arr":
        for row in t[1]:
            for a in row:
                to_nodes(a, out, A, fid)
        out.append(N(AST_node_type=TY.Value("ARRAY_NODE"), AST_array_node_numCol=len(t[1][0]), AST_array_node_numRow=len(t[1])))
    elif k == "num":
        v = t[1]
        if isinstance(v, int):
            out.append(N(AST_node_type=TY.Value("NUMBER_NODE"), AST_number_node_number=float(v), AST_number_node_decimal_low=v,
                         AST_number_node_decimal_high=0x3040000000000000))
        else:
            out.append(N(AST_node_type=TY.Value("NUMBER_NODE"), AST_number_node_number=v, AST_number_node_decimal_low=0,
                         AST_number_node_decimal_high=0x3000000000000000))
    elif k == "str":
        out.append(N(AST_node_type=TY.Value("STRING_NODE"), AST_string_node_string=t[1]))
    elif k == "bool":
        out.append(N(AST_node_type=TY.Value("BOOLEAN_NODE"), AST_boolean_node_boolean=t[1]))
    elif k == "date":
        out.append(N(AST_node_type=TY.Value("DATE_NODE"), AST_date_node_dateNum=float(t[1])))
    elif k == "empty":
        out.append(N(AST_node_type=TY.Value("EMPTY_ARGUMENT_NODE")))
    elif k == "ref":
        _, r, c, ra, ca = t
        n = N(AST_node_type=TY.Value("CELL_REFERENCE_NODE"))
        n.AST_row.row, n.AST_row.absolute = (r if ra else r - HOST[0]), ra
        n.AST_column.column, n.AST_column.absolute = (c if ca else c - HOST[1]), ca
        out.append(n)
    else:
        raise ValueError(k)


HOST = (1, 1)

# ---------------------------------------------------------------- independent parser
TOK = re.compile(r'\s*(?:(?P<num>\d+\.?\d*(?:[eE][+-]?\d+)?|\.\d+)|(?P<str>"(?:[^"]|"")*")|(?P<ref>\$?[A-Z]{1,3}\$?\d+)|(?P<name>[A-Z][A-Z0-9.]*)|(?P<op>[-+×÷^&=≠<>≤≥%(){},;]))')


def tokenize(s):
    pos, out = 0, []
    while pos < len(s):
        m = TOK.match(s, pos)
        if not m:
            raise SyntaxError(f"cannot tokenize at {pos}: {s[pos:pos + 10]!r}")
        out.append((m.lastgroup, m.group(m.lastgroup)))
        pos = m.end()
    return out


class P:
    def __init__(self, toks):
        self.t, self.i = toks, 0

    def peek(self):
        return self.t[self.i] if self.i < len(self.t) else (None, None)

    def eat(self, v=None):
        k = self.peek()
        if v is not None and k[1] != v:
            raise SyntaxError(f"expected {v} got {k}")
        self.i += 1
        return k

    def level(self, ops, nxt):
        a = nxt()
        while self.peek()[0] == "op" and self.peek()[1] in ops:
            op = self.eat()[1]
            a = ("bin", op, a, nxt())
        return a

    def expr(self):
        return self.level("=≠<>≤≥", lambda: self.level("&", lambda: self.level("+-", lambda: self.level("×÷", lambda: self.level("^", self.unary)))))

    def unary(self):
        if self.peek() == ("op", "-"):
            self.eat()
            return ("neg", self.unary())
        a = self.atom()
        while self.peek() == ("op", "%"):
            self.eat()
            a = ("pct", a)
        return a

    def args(self, close):
        out = []
        if self.peek()[1] == close:
            self.eat()
            return out
        while True:
            if self.peek()[1] in (",", close):
                out.append(("empty",))
            else:
                out.append(self.expr())
            if self.peek()[1] == ",":
                self.eat()
                continue
            self.eat(close)
            return out

    def atom(self):
        k, v = self.eat()
        if k == "num":
            return ("num", float(v))
        if k == "str":
            return ("str", v[1:-1].replace('""', '"'))
        if k == "ref":
            return ("reftext", v)
        if k == "name":
            if v in ("TRUE", "FALSE") and self.peek()[1] != "(":
                return ("bool", v == "TRUE")
            self.eat("(")
            return ("fun", v, self.args(")"))
        if (k, v) == ("op", "("):
            return ("list", self.args(")"))
        if (k, v) == ("op", "{"):
            rows, row = [], []
            while True:
                row.append(self.expr())
                s = self.eat()[1]
                if s == ",":
                    continue
                rows.append(row)
                row = []
                if s == "}":
                    return ("arr", rows)
                if s != ";":
                    raise SyntaxError(f"array separator {s}")
        raise SyntaxError(f"unexpected {k} {v}")


def parse(s):
    p = P(tokenize(s))
    t = p.expr()
    if p.i != len(p.t):
        raise SyntaxError(f"trailing tokens {p.t[p.i:]}")
    return t


def norm(t):
    """original tree in the parser's vocabulary"""
    k = t[0]
    if k == "bin":
        return ("bin", t[1], norm(t[2]), norm(t[3]))
    if k in ("neg", "pct"):
        return (k, norm(t[1]))
    if k == "list":
        return ("list", [norm(a) for a in t[1]])
    if k == "fun":
        return ("fun", t[1], [norm(a) for a in t[2]])
    if k == "arr":
        return ("arr", [[norm(a) for a in r] for r in t[1]])
    if k == "num":
        return ("num", float(t[1]))
    if k == "date":
        from datetime import datetime, timedelta
        d = datetime(2001, 1, 1) + timedelta(seconds=t[1])
        return ("fun", "DATE", [("num", float(d.year)), ("num", float(d.month)), ("num", float(d.day))])
    if k == "ref":
        from numbers_parser import xl_rowcol_to_cell
        return ("reftext", xl_rowcol_to_cell(t[1], t[2], t[3], t[4]))
    return t


def same_modulo_big_numbers(a, b):
    """the two trees differ only in number literals whose repr uses a positive exponent (>= 1e16)"""
    if type(a) is not type(b):
        return False
    if isinstance(a, tuple) and a and a[0] == "num" and isinstance(b, tuple) and b and b[0] == "num":
        return a == b or ("e+" in repr(b[1]) and a[1] != b[1])
    if isinstance(a, (tuple, list)):
        return len(a) == len(b) and all(same_modulo_big_numbers(x, y) for x, y in zip(a, b))
    return a == b


_state = {}


def setup():
    if not _state:
        import warnings
        warnings.simplefilter("ignore")
        from numbers_parser import Document
        from numbers_parser.formula import TableFormulas
        from numbers_parser.generated import TSCEArchives_pb2 as A
        from numbers_parser.formula import FUNCTION_MAP
        doc = Document(num_rows=6, num_cols=6)
        t = doc.sheets[0].tables[0]
        _state.update(doc=doc, tf=TableFormulas(doc._model, t._table_id), A=A, fid={v: k for k, v in FUNCTION_MAP.items()}, model=doc._model)
    return _state


def run_case(case):
    st = setup()
    bad = []
    n = 0
    for t in case["trees"]:
        n += 1
        nodes = []
        to_nodes(t, nodes, st["A"], st["fid"])
        st["model"].formula_ast = lambda tid, nodes=nodes: {1: nodes}
        try:
            text = st["tf"].formula(1, HOST[0], HOST[1])
        except Exception as e:  # noqa: BLE001
            return {"detail": f"rendering a well-formed expression raised {type(e).__name__}: {e}; tree={t!r}"[:600]}
        try:
            back = parse(text)
        except SyntaxError as e:
            return {"detail": f"formula text {text!r} does not parse ({e}); tree={t!r}"[:600]}
        if back != norm(t):
            cls = "positive-exponent-number" if same_modulo_big_numbers(back, norm(t)) else "structure"
            bad.append({"detail": f"formula text {text!r} denotes {back!r}, stored expression is {norm(t)!r}"[:700], "class": cls})
    if bad:
        bad.sort(key=lambda b: b["class"] != "structure")  # a structural disagreement is reported first
        out = dict(bad[0])
        out["n_bad"] = len(bad)
        out["classes"] = sorted({b["class"] for b in bad})
        return out
    return {"ok": True, "count": n}


def main():
    ap = common.std_args()
    ap.add_argument("--depth", type=int, default=2)
    ap.add_argument("--random", type=int, default=300)
    a = ap.parse_args()
    trees = gen_all(min(a.depth, 2))
    rnd = random.Random(a.seed)
    trees += [gen_random(rnd, a.depth) for _ in range(a.random)]
    chunk = 200
    cases = [{"trees": trees[i:i + chunk]} for i in range(0, len(trees), chunk)]
    return common.run(cases, run_case, key=lambda c: repr(c["trees"][:3]))


if __name__ == "__main__":
    sys.exit(main())

"""Bounded stand-in for C09: references printed for stored nodes identify exactly the stored target.
Documents with 1..3 sheets x 1..3 tables whose table names are unique / duplicated across sheets / shared with the
host sheet, optional header labels (unique, duplicated in the table, shared between tables); every (host, target)
pair x {absolute/relative single cell, relative/absolute rectangle, whole row(s), whole column(s)}; histories of
renames and header-label edits between prints.  Run-time contract: an independent resolver applied to the printed
text and the document's CURRENT names/labels finds exactly one table - the stored one - and the stored coordinates
with the stored '$' marks and end-points in order."""
import itertools
import os
import random
import re
import sys

sys.path.insert(0, os.path.dirname(os.path.dirname(os.path.abspath(__file__))))
from bounded import common  # noqa: E402

HOST = (2, 2)


def nodes_for(model, A, to_id, host_is_target):
    from numbers_parser.numbers_uuid import NumbersUUID
    N = A.ASTNodeArrayArchive.ASTNodeArchive

    def x(n):
        if not host_is_target:
            n.AST_cross_table_reference_extra_info.table_id.CopyFrom(NumbersUUID(model.table_base_id(to_id)).protobuf4)
        return n
    out = {}
    for ra in (False, True):
        for ca in (False, True):
            n = N(AST_node_type="CELL_REFERENCE_NODE")
            n.AST_row.row, n.AST_row.absolute = (1 if ra else 1 - HOST[0]), ra
            n.AST_column.column, n.AST_column.absolute = (3 if ca else 3 - HOST[1]), ca
            out[f"cell(r1,c3,{'$' if ra else ''}row,{'$' if ca else ''}col)"] = (x(n), ("cell", 1, 3, ra, ca))
    n = N(AST_node_type="COLON_TRACT_NODE", AST_colon_tract={"preserve_rectangular": True, "relative_row": [{"range_begin": 0 - HOST[0], "range_end": 1 - HOST[0]}],
                                                          "relative_column": [{"range_begin": 1 - HOST[1], "range_end": 3 - HOST[1]}]},
          AST_sticky_bits={"begin_row_is_absolute": False, "end_row_is_absolute": False, "begin_column_is_absolute": False, "end_column_is_absolute": False})
    out["rect(r0..1,c1..3) relative"] = (x(n), ("rect", 0, 1, 1, 3, False))
    n = N(AST_node_type="COLON_TRACT_NODE", AST_colon_tract={"preserve_rectangular": True, "absolute_row": [{"range_begin": 1, "range_end": 2}],
                                                          "absolute_column": [{"range_begin": 0, "range_end": 2}]},
          AST_sticky_bits={"begin_row_is_absolute": True, "end_row_is_absolute": True, "begin_column_is_absolute": True, "end_column_is_absolute": True})
    out["rect(r1..2,c0..2) absolute"] = (x(n), ("rect", 1, 2, 0, 2, True))
    n = N(AST_node_type="COLON_TRACT_NODE", AST_colon_tract={"preserve_rectangular": True, "relative_row": [{"range_begin": 1 - HOST[0], "range_end": 2 - HOST[0]}],
                                                          "absolute_column": [{"range_begin": 0x7FFF}]},
          AST_sticky_bits={"begin_row_is_absolute": False, "end_row_is_absolute": False, "begin_column_is_absolute": False, "end_column_is_absolute": False})
    out["rows(1..2)"] = (x(n), ("rows", 1, 2))
    n = N(AST_node_type="COLON_TRACT_NODE", AST_colon_tract={"preserve_rectangular": True, "relative_column": [{"range_begin": 1 - HOST[1], "range_end": 1 - HOST[1]}],
                                                          "absolute_row": [{"range_begin": 0x7FFFFFFF}]},
          AST_sticky_bits={"begin_row_is_absolute": False, "end_row_is_absolute": False, "begin_column_is_absolute": False, "end_column_is_absolute": False})
    out["col(1)"] = (x(n), ("cols", 1, 1))
    n = N(AST_node_type="COLON_TRACT_NODE", AST_colon_tract={"preserve_rectangular": True, "relative_column": [{"range_begin": 1 - HOST[1], "range_end": 3 - HOST[1]}],
                                                          "absolute_row": [{"range_begin": 0x7FFFFFFF}]},
          AST_sticky_bits={"begin_row_is_absolute": False, "end_row_is_absolute": False, "begin_column_is_absolute": False, "end_column_is_absolute": False})
    out["cols(1..3)"] = (x(n), ("cols", 1, 3))
    return out


def split_ref(text):
    """split 'S::T::ref' on '::' outside single quotes"""
    parts, cur, q = [], "", False
    i = 0
    while i < len(text):
        ch = text[i]
        if ch == "'":
            q = not q
            cur += ch
        elif not q and text.startswith("::", i):
            parts.append(cur)
            cur = ""
            i += 1
        else:
            cur += ch
        i += 1
    parts.append(cur)
    return parts


def split_colon(ref):
    """split a span 'a:b' on ':' outside single quotes"""
    parts, cur, q = [], "", False
    for ch in ref:
        if ch == "'":
            q = not q
            cur += ch
        elif ch == ":" and not q:
            parts.append(cur)
            cur = ""
        else:
            cur += ch
    return parts + [cur]


def unquote(s):
    if len(s) >= 2 and s[0] == "'" and s[-1] == "'":
        return s[1:-1].replace("''", "'")
    return s


def a1(s):
    m = re.fullmatch(r"(\$?)([A-Z]{1,3})(\$?)(\d+)", s)
    if not m:
        return None
    col = 0
    for ch in m.group(2):
        col = col * 26 + ord(ch) - 64
    return int(m.group(4)) - 1, col - 1, bool(m.group(3)), bool(m.group(1))


def colnum(s):
    m = re.fullmatch(r"(\$?)([A-Z]{1,3})", s)
    if not m:
        return None
    col = 0
    for ch in m.group(2):
        col = col * 26 + ord(ch) - 64
    return col - 1


def resolve(doc, host_sheet, host_table, text):
    """-> (tables named by the prefix, reference part)"""
    parts = split_ref(text)
    ref = parts[-1]
    if len(parts) == 1:
        return None, ref  # scoping of an unqualified reference depends on its kind
    if len(parts) == 3:
        return [t for s in doc.sheets if s.name == unquote(parts[0]) for t in s.tables if t.name == unquote(parts[1])], ref
    local = [t for t in host_sheet.tables if t.name == unquote(parts[0])]
    return (local or [t for s in doc.sheets for t in s.tables if t.name == unquote(parts[0])]), ref


def labels(table, axis):
    """header labels of a table: a column is named by its cell in the bottom header row, a row by its cell in the last header column
    (Numbers' convention, and what a reader of the document sees next to the body cells)"""
    out = {}
    if axis == "col" and table.num_header_rows:
        for c in range(table.num_header_cols, table.num_cols):
            v = table.cell(table.num_header_rows - 1, c).value
            if isinstance(v, str) and v:
                out[c] = v
    elif axis == "row" and table.num_header_cols:
        for r in range(table.num_header_rows, table.num_rows):
            v = table.cell(r, table.num_header_cols - 1).value
            if isinstance(v, str) and v:
                out[r] = v
    # a label that occurs more than once in its table is not a usable name of that table
    vals = list(out.values())
    return {i: v for i, v in out.items() if vals.count(v) == 1}


def check_ref(doc, host_sheet, host, target, text, spec):
    tables, ref = resolve(doc, host_sheet, host, text)
    kind = spec[0]
    ends = split_colon(ref)
    numeric = all(a1(e) or colnum(e) is not None or re.fullmatch(r"\$?\d+", e) for e in ends)
    if numeric:
        if tables is None:
            tables = [host]
        if len(tables) != 1 or tables[0] is not target:
            return f"names {[t.name for t in tables]} (needs exactly the stored table {target.name!r})"
        if kind == "cell":
            got = a1(ref)
            if got != (spec[1], spec[2], spec[3], spec[4]):
                return f"coordinates {got}, stored {spec[1:]}"
        elif kind == "rect":
            a, b = a1(ends[0]), a1(ends[-1])
            if a is None or b is None or (a[0], b[0], a[1], b[1]) != spec[1:5] or a[2:] != (spec[5], spec[5]) or b[2:] != (spec[5], spec[5]):
                return f"end-points {a}..{b}, stored rows {spec[1]}..{spec[2]} cols {spec[3]}..{spec[4]} abs={spec[5]}"
        elif kind == "rows":
            if [int(e.lstrip('$')) - 1 for e in ends] not in ([spec[1], spec[2]], [spec[1]] if spec[1] == spec[2] else None):
                return f"rows {ends}, stored {spec[1]}..{spec[2]}"
        elif kind == "cols":
            if [colnum(e) for e in ends] not in ([spec[1], spec[2]], [spec[1]] if spec[1] == spec[2] else None):
                return f"columns {ends}, stored {spec[1]}..{spec[2]}"
        return None
    # header-label reference: the names must identify exactly the stored rows/columns of exactly the stored table
    if kind not in ("rows", "cols"):
        return f"a cell/rectangle reference printed with labels: {ref!r}"
    axis = "row" if kind == "rows" else "col"
    names = [unquote(e.lstrip("$")) for e in split_colon(ref)]
    cand_tables = tables
    if cand_tables is None:
        # unqualified labels are looked up in the host table, then in the host's sheet, then in the whole document
        has_all = lambda t: all(nm in labels(t, axis).values() for nm in names)
        for tier in ([host], list(host_sheet.tables), [t for s in doc.sheets for t in s.tables]):
            cand_tables = [t for t in tier if has_all(t)]
            if cand_tables:
                break
    hits = []
    for t in cand_tables:
        lab = labels(t, axis)
        idx = [[i for i, v in lab.items() if v == nm] for nm in names]
        if all(idx):
            for combo in itertools.product(*idx):
                hits.append((t, list(combo)))
    want = [spec[1], spec[2]] if len(names) == 2 else [spec[1]]
    if len(names) == 1 and spec[1] != spec[2]:
        return f"a span printed as a single label {ref!r}"
    if len(hits) != 1 or hits[0][0] is not target or hits[0][1] != want:
        return f"label reference {ref!r} matches {[(t.name, i) for t, i in hits]}, stored {target.name!r} {axis}s {want}"
    return None


def build(case):
    from numbers_parser import Document
    names = case["tables"]  # list per sheet of table names
    doc = Document(sheet_name="S1", table_name=names[0][0], num_rows=5, num_cols=5, num_header_rows=case["hdr"][0], num_header_cols=case["hdr"][1])
    for tn in names[0][1:]:
        doc.sheets[0].add_table(tn, num_rows=5, num_cols=5, num_header_rows=case["hdr"][0], num_header_cols=case["hdr"][1])
    for si, tns in enumerate(names[1:], start=2):
        doc.add_sheet(f"S{si}", table_name=tns[0], num_rows=5, num_cols=5)
        sh = doc.sheets[-1]
        sh.tables[0].num_header_rows, sh.tables[0].num_header_cols = case["hdr"]
        for tn in tns[1:]:
            sh.add_table(tn, num_rows=5, num_cols=5, num_header_rows=case["hdr"][0], num_header_cols=case["hdr"][1])
    lab = case.get("labels")
    if lab:
        for s in doc.sheets:
            for ti, t in enumerate(s.tables):
                for c in range(t.num_header_cols, 5):
                    if t.num_header_rows:
                        t.write(t.num_header_rows - 1, c, lab["col"][(c + (ti if lab.get("vary") else 0)) % len(lab["col"])])
                        if t.num_header_rows > 1:  # the rows above the bottom header row carry other text: the next column's label
                            t.write(0, c, lab["col"][(c + 1 + (ti if lab.get("vary") else 0)) % len(lab["col"])] if lab.get("cross") else f"group {c // 2}")
                for r in range(t.num_header_rows, 5):
                    if t.num_header_cols:
                        t.write(r, t.num_header_cols - 1, lab["row"][(r + (ti if lab.get("vary") else 0)) % len(lab["row"])])
                        if t.num_header_cols > 1:
                            t.write(r, 0, lab["row"][(r + 1 + (ti if lab.get("vary") else 0)) % len(lab["row"])] if lab.get("cross") else f"part {r // 2}")
    return doc


def check_all(doc, stage):
    from numbers_parser.generated import TSCEArchives_pb2 as A
    import warnings
    model = doc._model
    n = 0
    for hs in doc.sheets:
        for host in hs.tables:
            for ts in doc.sheets:
                for target in ts.tables:
                    for what, (node, spec) in nodes_for(model, A, target._table_id, host is target).items():
                        n += 1
                        with warnings.catch_warnings():
                            warnings.simplefilter("ignore")
                            try:
                                text = str(model.node_to_ref(host._table_id, HOST[0], HOST[1], node))
                            except Exception as e:  # noqa: BLE001
                                return f"{stage}: printing {what} from {hs.name}::{host.name} into {ts.name}::{target.name} raised {type(e).__name__}: {e}", n
                        err = check_ref(doc, hs, host, target, text, spec)
                        if err:
                            return (f"{stage}: {what} from {hs.name}::{host.name} into {ts.name}::{target.name} printed {text!r}: {err} "
                                    f"[tables: {[(s.name, [t.name for t in s.tables]) for s in doc.sheets]}]"), n
    return None, n


def run_case(case):
    doc = build(case)
    total = 0
    err, n = check_all(doc, "initial")
    total += n
    if err:
        return {"detail": err}
    for step in case.get("then", []):
        kind = step[0]
        if kind == "rename_table":
            doc.sheets[step[1]].tables[step[2]].name = step[3]
        elif kind == "rename_sheet":
            doc.sheets[step[1]].name = step[2]
        elif kind == "label":
            t = doc.sheets[step[1]].tables[step[2]]
            if step[3] == "col" and t.num_header_rows:
                t.write(t.num_header_rows - 1, step[4], step[5])
            elif step[3] == "row" and t.num_header_cols:
                t.write(step[4], t.num_header_cols - 1, step[5])
        # names may now be ambiguous between siblings only if the step created a duplicate sibling: skip those documents
        sib = [[t.name for t in s.tables] for s in doc.sheets]
        if any(len(set(x)) != len(x) for x in sib) or len({s.name for s in doc.sheets}) != len(doc.sheets):
            return {"ok": True, "count": total}
        err, n = check_all(doc, f"after {step}")
        total += n
        if err:
            return {"detail": err}
    return {"ok": True, "count": total}


def main():
    ap = common.std_args()
    ap.add_argument("--level", type=int, default=1)
    a = ap.parse_args()
    shapes = [[["A"]], [["A", "B"]], [["A"], ["B"]], [["A", "B"], ["A"]], [["A", "B"], ["C", "B"]], [["A"], ["A"], ["A"]],
              [["A", "B"], ["B", "C"], ["C"]], [["Costs 2020", "B"], ["Costs 2020"]]]
    if a.level > 1:
        shapes += [[["A", "B", "C"], ["A", "B", "C"]], [["A"], ["B"], ["C"], ["A"]][:3], [["T 1", "T 2"], ["T 1"], ["t 1"]]]
    cases = []
    for sh in shapes:
        for hdr in ((0, 0), (1, 1), (1, 0)):
            cases.append({"tables": sh, "hdr": list(hdr)})
            if hdr != (0, 0):
                for lab in ({"col": ["alpha", "beta", "gamma", "delta"], "row": ["r1", "r2", "r3", "r4"]},
                            {"col": ["alpha", "beta", "alpha", "delta"], "row": ["r1", "r1", "r3", "r4"]},
                            {"col": ["alpha", "beta", "gamma", "delta"], "row": ["r1", "r2", "r3", "r4"], "vary": True},
                            {"col": ["x+y", "a b", "p&q", "delta"], "row": ["r 1", "r-2", "r3", "r4"]}):
                    cases.append({"tables": sh, "hdr": list(hdr), "labels": lab})
    # a label shared by the FIRST body column / row and exactly one later one, with unequal numbers of header rows and columns
    for sh in shapes[:4]:
        for hdr in ((1, 0), (0, 1), (2, 1), (1, 2), (2, 0)):
            cases.append({"tables": sh, "hdr": list(hdr), "labels": {"col": ["fruit", "beta", "gamma", "fruit", "delta"], "row": ["veg", "r2", "r3", "veg", "r5"]}})
    # more than one header row / column: the label is the cell next to the body; the cells above / left of it carry other text,
    # or (cross) the label of the neighbouring column / row
    for sh in shapes[:5]:
        for hdr in ((2, 1), (2, 2), (1, 2)):
            for lab in ({"col": ["alpha", "beta", "gamma", "delta"], "row": ["r1", "r2", "r3", "r4"]},
                        {"col": ["alpha", "beta", "gamma", "delta"], "row": ["r1", "r2", "r3", "r4"], "cross": True},
                        {"col": ["alpha", "beta", "gamma", "delta"], "row": ["r1", "r2", "r3", "r4"], "cross": True, "vary": True}):
                cases.append({"tables": sh, "hdr": list(hdr), "labels": lab})
    # histories: print, rename / relabel, print again
    for sh in shapes[1:7]:
        nsheets = len(sh)
        steps = []
        for si in range(nsheets):
            for ti in range(len(sh[si])):
                for newname in ("A", "B", "Z"):
                    steps.append(["rename_table", si, ti, newname])
        steps += [["rename_sheet", 0, "S9"], ["rename_sheet", nsheets - 1, "S1x"]]
        for st in steps:
            cases.append({"tables": sh, "hdr": [0, 0], "then": [st]})
        for hdr in ((1, 1), (1, 0), (0, 1)):
            lab = {"col": ["alpha", "beta", "gamma", "delta"], "row": ["r1", "r2", "r3", "r4"]}
            for st in (["label", 0, 0, "col", 1, "gamma"], ["label", 0, 0, "col", 1, "omega"], ["label", 0, 0, "row", 1, "r3"],
                       ["label", 0, 0, "row", 2, "omega"], ["rename_table", 0, 0, "Z"]):
                cases.append({"tables": sh, "hdr": list(hdr), "labels": lab, "then": [st]})
    return common.run(cases, run_case)


if __name__ == "__main__":
    sys.exit(main())

"""Bounded stand-in for C13: displayed numbers agree numerically with the stored value.
Run-time contract (from the property statement): for every number cell under every built-in number format the displayed text, read back as a
number in that notation, equals the cell's value rounded to the precision the format displays; grouping separators, negative styles, currency
symbols, accounting layout and zero padding only decorate (no digit, sign or magnitude changes) and the number of decimals shown is the number
asked for.  Decimal, percentage and currency formats round exact decimal ties away from zero (as Numbers displays them); for the scientific format both
neighbours are accepted at an exact decimal tie, because the library holds the 15-digit decimal as a binary double lying just above or below the
tie; the 'red' negative style shows the magnitude (the sign is the colour)."""
import os
import random
import re
import sys
import warnings
from decimal import ROUND_HALF_EVEN, ROUND_HALF_UP, Decimal
from fractions import Fraction
from types import SimpleNamespace

sys.path.insert(0, os.path.dirname(os.path.dirname(os.path.abspath(__file__))))
from bounded import common  # noqa: E402

AUTO = 253
DIGITS = "0123456789ABCDEFGHIJKLMNOPQRSTUVWXYZ"


def dec(x):
    """the value as written: its shortest decimal spelling (values carry at most 15 significant digits)"""
    return Decimal(repr(float(x)))


def rounded(d, places, strict=False):
    """strict (decimal, percentage, currency): ties go away from zero, as Numbers shows them and as the library's decimal rounding does.
    Otherwise: the value rounded to `places` decimals; at an exact decimal tie both neighbours (the property does not fix the tie rule, and the
    library holds the 15-digit decimal as a binary double that lies just above or below the tie)"""
    from decimal import ROUND_HALF_DOWN
    q = Decimal(1).scaleb(-places)
    if strict:
        return {d.quantize(q, rounding=ROUND_HALF_UP)}
    return {d.quantize(q, rounding=ROUND_HALF_EVEN), d.quantize(q, rounding=ROUND_HALF_UP), d.quantize(q, rounding=ROUND_HALF_DOWN)}


def gen_value(rnd):
    k = rnd.random()
    if k < 0.15:
        return float(rnd.choice([0, 1, -1, 9, 10, 99, 100, 999, 1000, 9999, 999999, 1000000, 123456789, -1000, 10 ** 12, 999999999999999]))
    if k < 0.35:  # ties and carries
        places = rnd.randint(0, 6)
        base = rnd.choice([5, 15, 25, 95, 995, 9995, 99995, 999995, 45, 55, 65])
        return float(Decimal(base).scaleb(-(places + 1)) * rnd.choice([1, -1]) + rnd.choice([0, 0, 999, 1000, 12345]))
    if k < 0.6:
        return round(rnd.uniform(-10000, 10000), rnd.randint(0, 8))
    digits = rnd.randint(1, 15)
    m = rnd.randint(10 ** (digits - 1), 10 ** digits - 1)
    e = rnd.randint(-digits - 6, 15 - digits)
    return float(f"{'-' if rnd.random() < 0.4 else ''}{m}e{e}")


def nf(**kw):
    d = dict(negative_style=0, show_thousands_separator=False, decimal_places=2, currency_code="GBP", use_accounting_style=False, base=10,
             base_places=0, base_use_minus_sign=True, fraction_accuracy=2)
    d.update(kw)
    return SimpleNamespace(**d)


def check_decimal_text(text, value, places, thousands, neg_style, what, percent=False):
    """text: the decimal part of the display (currency symbol etc. already removed)"""
    t = text
    negative = False
    if t.startswith("(") and t.endswith(")"):
        if neg_style < 2:
            return f"{what}: parentheses shown for negative style {neg_style}: {text!r}"
        negative, t = True, t[1:-1]
    if percent:
        if not t.endswith("%"):
            return f"{what}: no percent sign in {text!r}"
        t = t[:-1]
    if t.startswith("-"):
        if neg_style != 0:
            return f"{what}: minus sign shown for negative style {neg_style}: {text!r}"
        negative, t = True, t[1:]
    if places == AUTO and re.fullmatch(r"\d(?:\.\d+)?e-\d+", t):
        # automatic places: Python's spelling of a small value (4.5e-06) reads back as the number; accepted (the statement asks for the number)
        shown = Decimal(t)
        d = dec(value) * (100 if percent else 1)
        if neg_style == 1:
            d = abs(d)
        elif negative:
            shown = -shown
        return None if shown == d else f"{what}: displayed {text!r} reads as {shown}, the value is {d}"
    m = re.fullmatch(r"(\d{1,3}(?:,\d{3})*|\d+)(?:\.(\d+))?", t)
    if not m:
        return f"{what}: {text!r} is not a decimal number in this notation"
    ip, fp = m.group(1), m.group(2) or ""
    if "," in ip and not thousands:
        return f"{what}: grouping separators shown although not asked for: {text!r}"
    if thousands and len(ip.replace(",", "")) > 3 and "," not in ip:
        return f"{what}: no grouping separators in {text!r}"
    if places != AUTO and len(fp) != places:
        return f"{what}: {len(fp)} decimals shown in {text!r}, {places} asked for"
    shown = Decimal(ip.replace(",", "") + ("." + fp if fp else ""))
    d = dec(value) * (100 if percent else 1)
    if neg_style == 1:
        d = abs(d)  # red: the magnitude is shown
    elif negative:
        shown = -shown
    want = {d} if places == AUTO else rounded(d, places, strict=True)
    if d < 0 and neg_style >= 2 and not negative and all(w != 0 for w in want):
        return f"{what}: negative value shown without parentheses: {text!r}"
    if shown not in want and not (shown == 0 and any(w == 0 for w in want)):
        return f"{what}: displayed {text!r} reads as {shown}, the value {'x100 ' if percent else ''}is {d} ({'as is' if places == AUTO else f'rounded to {places} places: ' + '/'.join(map(str, sorted(want)))})"
    return None


def run_case(case):
    from numbers_parser import cell as C
    from numbers_parser.currencies import CURRENCY_SYMBOLS
    rnd = random.Random(case["seed"])
    kind = case["kind"]
    n = 0
    with warnings.catch_warnings():
        warnings.simplefilter("ignore")
        for _ in range(case["n"]):
            n += 1
            v = gen_value(rnd)
            if kind in ("decimal", "percent", "currency"):
                places = rnd.choice([0, 1, 2, 3, 4, 5, 6, 7, 8, 9, 10, AUTO])
                th = rnd.random() < 0.5
                ns = rnd.randrange(4)
                acc = kind == "currency" and rnd.random() < 0.4
                code = rnd.choice(sorted(CURRENCY_SYMBOLS)) if rnd.random() < 0.7 else rnd.choice(["XTS", "ZZZ", "CHF"])
                fmt = nf(decimal_places=places, show_thousands_separator=th, negative_style=0 if acc else ns, currency_code=code, use_accounting_style=acc)
                if kind == "percent":
                    v = float(dec(v).scaleb(-2))  # a value whose percentage has at most 15 significant digits
                what = f"{kind} format (places {places if places != AUTO else 'auto'}, separator {th}, negative style {fmt.negative_style}" + \
                       (f", currency {code}, accounting {acc})" if kind == "currency" else ")") + f" of {v!r}"
                try:
                    if kind == "decimal":
                        text = C._format_decimal(v, fmt)
                    elif kind == "percent":
                        text = C._format_decimal(v * 100, fmt, percent=True)
                    else:
                        text = C._format_currency(v, fmt)
                except Exception as e:  # noqa: BLE001
                    return {"detail": f"{what}: raised {type(e).__name__}: {e}", "class": kind}
                if kind == "currency":
                    sym = CURRENCY_SYMBOLS.get(code, code + " ")
                    if not text.startswith(sym):
                        return {"detail": f"{what}: {text!r} does not start with the currency symbol {sym!r}", "class": kind}
                    text = text[len(sym):]
                    if acc:
                        if not text.startswith("\t"):
                            return {"detail": f"{what}: accounting layout without the tab: {text!r}", "class": kind}
                        text = text[1:]
                        err = check_decimal_text(text, v, places, th, 2, what)
                    else:
                        err = check_decimal_text(text, v, places, th, ns, what)
                elif kind == "percent":
                    err = check_decimal_text(text, v, places, th, ns, what, percent=True)
                else:
                    err = check_decimal_text(text, v, places, th, ns, what)
                if err:
                    return {"detail": err, "class": kind}
            elif kind == "scientific":
                places = rnd.randint(0, 10)
                what = f"scientific format ({places} places) of {v!r}"
                text = C._format_scientific(v, nf(decimal_places=places))
                m = re.fullmatch(r"(-?)(\d)(?:\.(\d+))?E([+-]\d+)", text)
                if not m or len(m.group(3) or "") != places:
                    return {"detail": f"{what}: {text!r} is not d.{'d' * places}E+xx", "class": kind}
                shown = Decimal(text)
                d = dec(v)
                if d == 0:
                    ok = shown == 0
                else:
                    e = d.adjusted()
                    ok = shown in {x.scaleb(e) for x in rounded(d.scaleb(-e), places)}
                if not ok:
                    return {"detail": f"{what}: displayed {text!r} reads as {shown}, the value is {d}", "class": kind}
            elif kind == "base":
                base = rnd.choice([2, 8, 16] * 3 + list(range(2, 37)))
                places = rnd.randint(0, 8)
                minus = rnd.random() < 0.6
                iv = rnd.choice([0, 1, -1, 255, -255, 256, -256, 2 ** 31 - 1, -2 ** 31, 2 ** 31, -2 ** 31 - 1, 2 ** 32, -2 ** 32, 12345678, -12345678])
                v = float(iv) if rnd.random() < 0.6 else float(rnd.randint(-10 ** 9, 10 ** 9))
                if rnd.random() < 0.3:
                    # exact powers of the base and their neighbours (a digit count computed through logarithms goes wrong exactly there)
                    v = float(rnd.choice((1, -1)) * (base ** rnd.randint(1, 12 if base > 10 else 20) + rnd.choice((0, 0, -1, 1))))
                    if abs(v) >= 2 ** 53:
                        v = float(base ** 3)
                iv = int(v)
                what = f"base {base} format ({places} places, {'minus sign' if minus else 'two-s complement'}) of {v!r}"
                try:
                    text = C._format_base(v, nf(base=base, base_places=places, base_use_minus_sign=minus))
                except Exception as e:  # noqa: BLE001
                    return {"detail": f"{what}: raised {type(e).__name__}: {e}", "class": kind}
                twos = (not minus) and base in (2, 8, 16) and iv < 0
                body = text[1:] if text.startswith("-") else text
                if not body or any(ch not in DIGITS[:base] for ch in body):
                    return {"detail": f"{what}: {text!r} is not a base-{base} numeral", "class": kind}
                val = int(body, base)
                if twos:
                    bits = max(32, iv.bit_length() + 1 if iv != -(1 << (iv.bit_length() - 1)) else iv.bit_length())
                    bits = max(32, (-iv - 1).bit_length() + 1)
                    if val != (1 << bits) + iv:
                        return {"detail": f"{what}: displayed {text!r} = {val}, the {bits}-bit two's complement of {iv} is {(1 << bits) + iv}", "class": kind}
                else:
                    shown = -val if text.startswith("-") else val
                    want = abs(iv) if (not minus and base in (2, 8, 16)) else iv
                    if shown != want:
                        return {"detail": f"{what}: displayed {text!r} reads as {shown}, the value is {want}", "class": kind}
                    if len(body) < places:
                        return {"detail": f"{what}: {text!r} has fewer than {places} digits", "class": kind}
                    if len(body) > max(places, 1) and body[0] == "0":
                        return {"detail": f"{what}: {text!r} is padded beyond {places} digits", "class": kind}
            elif kind == "fraction":
                acc = rnd.choice([0xFFFFFFFD, 0xFFFFFFFE, 0xFFFFFFFF, 2, 4, 8, 16, 10, 100])
                v = rnd.choice([abs(v) if abs(v) < 1e6 else abs(v) % 1000, round(rnd.uniform(0, 50), 3), rnd.randint(0, 40) + rnd.choice([0, 0.5, 0.25, 0.75, 0.99, 0.999, 0.001, 1 / 3])])
                if rnd.random() < 0.15:
                    v = -v
                what = f"fraction format (accuracy {acc if acc < 1000 else 'up to %d digits' % (0x100000000 - acc)}) of {v!r}"
                try:
                    text = C._format_fraction(v, nf(fraction_accuracy=acc))
                except Exception as e:  # noqa: BLE001
                    return {"detail": f"{what}: raised {type(e).__name__}: {e}", "class": kind}
                m = re.fullmatch(r"(-?)(?:(\d+)(?: (\d+)/(\d+))?|(\d+)/(\d+))", text)
                if not m:
                    return {"detail": f"{what}: {text!r} is not 'w', 'n/d' or 'w n/d'", "class": kind}
                whole = int(m.group(2) or 0)
                num, den = (int(m.group(3)), int(m.group(4))) if m.group(3) else (int(m.group(5)), int(m.group(6))) if m.group(5) else (0, 1)
                if den == 0 or num >= den and (m.group(3) or m.group(5)):
                    return {"detail": f"{what}: displayed {text!r} is not a proper fraction", "class": kind}
                shown = (Fraction(whole) + Fraction(num, den)) * (-1 if m.group(1) else 1)
                exact = Fraction(dec(v))
                if acc < 1000:
                    if den not in (1, acc) :
                        return {"detail": f"{what}: displayed {text!r} uses the denominator {den}", "class": kind}
                    ok = abs(shown - exact) <= Fraction(1, 2 * acc)
                else:
                    maxd = 10 ** (0x100000000 - acc) - 1
                    best = Fraction(v).limit_denominator(maxd)
                    ok = den <= maxd and abs(shown - exact) <= abs(best - exact) + Fraction(1, 10 ** 12)
                if not ok:
                    return {"detail": f"{what}: displayed {text!r} reads as {shown} = {float(shown)}, the value is {float(exact)}", "class": kind + ("-negative" if v < 0 else "")}
    return {"ok": True, "count": n}


def run_api(case):
    """the same relation through the public API: set_cell_formatting + formatted_value on a document"""
    from numbers_parser import Document
    from numbers_parser.currencies import CURRENCY_SYMBOLS
    rnd = random.Random(case["seed"])
    doc = Document(num_rows=case["n"], num_cols=1)
    t = doc.sheets[0].tables[0]
    with warnings.catch_warnings():
        warnings.simplefilter("ignore")
        for r in range(case["n"]):
            v = gen_value(rnd)
            if abs(v) >= 1e15:
                v = 1.5
            k = rnd.choice(["number", "currency", "percentage"])
            places = rnd.choice([0, 1, 2, 3, 5, 8, None])
            th = rnd.random() < 0.5
            ns = rnd.randrange(4)
            kw = dict(decimal_places=places, show_thousands_separator=th, negative_style=ns)
            if k == "currency":
                kw["currency_code"] = rnd.choice(sorted(CURRENCY_SYMBOLS))
            if k == "percentage":
                v = float(dec(v).scaleb(-2))
            t.write(r, 0, v)
            from numbers_parser import NegativeNumberStyle
            kw["negative_style"] = NegativeNumberStyle(ns)
            t.set_cell_formatting(r, 0, k, **kw)
            text = t.cell(r, 0).formatted_value
            what = f"API {k} format ({kw}) of {v!r}"
            if k == "currency":
                sym = CURRENCY_SYMBOLS[kw["currency_code"]]
                if not text.startswith(sym):
                    return {"detail": f"{what}: {text!r} does not start with {sym!r}", "class": "api"}
                text = text[len(sym):]
            pl = (2 if k == "currency" else AUTO) if places is None else places  # currency without a places argument shows 2 decimals
            err = check_decimal_text(text, t.cell(r, 0).value, pl, th, ns, what, percent=(k == "percentage"))
            if err:
                return {"detail": err, "class": "api"}
    return {"ok": True, "count": case["n"]}


def dispatch(case):
    return run_api(case) if case["kind"] == "api" else run_case(case)


def main():
    ap = common.std_args()
    ap.add_argument("--level", type=int, default=1)
    a = ap.parse_args()
    big = a.level >= 2
    cases = []
    for kind in ("decimal", "percent", "currency", "scientific", "base", "fraction"):
        for s in range(32 if big else 8):
            cases.append({"kind": kind, "seed": a.seed * 1000 + s, "n": 1500})
    for s in range(16 if big else 4):
        cases.append({"kind": "api", "seed": a.seed * 1000 + s, "n": 60})
    return common.run(cases, dispatch)


if __name__ == "__main__":
    sys.exit(main())

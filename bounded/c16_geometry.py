"""Bounded stand-in for C16: table geometry and labels survive save and reopen unchanged.
Run-time contract (from the property statement): row heights, column widths, table position, numbers of header rows/columns, sheet and
table names, caption text and the visibility of name and caption are the same after save and reopen as before - whether set through the API
or coming from the source document, whether or not they were queried before saving; repeating the cycle does not make them drift."""
import os
import random
import sys
import tempfile
import warnings

sys.path.insert(0, os.path.dirname(os.path.dirname(os.path.abspath(__file__))))
from bounded import common, docsnap  # noqa: E402


def geometry(doc):
    out = []
    with warnings.catch_warnings():
        warnings.simplefilter("ignore")
        for s in doc.sheets:
            for t in s.tables:
                g = {"sheet": s.name, "table": t.name, "num_rows": t.num_rows, "num_cols": t.num_cols, "header_rows": t.num_header_rows,
                     "header_cols": t.num_header_cols, "caption": t.caption, "caption_enabled": t.caption_enabled,
                     "table_name_enabled": t.table_name_enabled, "coordinates": tuple(t.coordinates),
                     "row_heights": [t.row_height(r) for r in range(t.num_rows)], "col_widths": [t.col_width(c) for c in range(t.num_cols)]}
                out.append(g)
    return out


def diff(a, b, where):
    if len(a) != len(b):
        return f"{where}: {len(a)} tables became {len(b)}"
    for ga, gb in zip(a, b):
        for k in ga:
            if ga[k] != gb[k]:
                if isinstance(ga[k], list) and len(ga[k]) == len(gb[k]):
                    i = next(i for i in range(len(ga[k])) if ga[k][i] != gb[k][i])
                    return f"{where}: {ga['sheet']}/{ga['table']}: {k}[{i}] was {ga[k][i]!r}, now {gb[k][i]!r}"
                return f"{where}: {ga['sheet']}/{ga['table']}: {k} was {str(ga[k])[:60]!r}, now {str(gb[k])[:60]!r}"
    return None


def cycles(path_or_doc, td, n_cycles, query_first, expected, name):
    """expected: geometry the first saved copy must have; then each further cycle must reproduce the previous one"""
    from numbers_parser import Document
    doc = path_or_doc
    prev = expected
    for cyc in range(1, n_cycles + 1):
        if query_first == "partial":
            with warnings.catch_warnings():
                warnings.simplefilter("ignore")
                for s_ in doc.sheets:
                    for t_ in s_.tables:  # one row and one column only: the rest stays unqueried
                        t_.row_height(t_.num_rows - 1)
                        t_.col_width(t_.num_cols - 1)
        elif query_first:
            geometry(doc)
        p = os.path.join(td, f"cycle{cyc}.numbers")
        with warnings.catch_warnings():
            warnings.simplefilter("ignore")
            doc.save(p)
            doc = Document(p)
        g = geometry(Document(p))
        err = diff(prev, g, f"{name}: save/reopen cycle {cyc} ({'last row/column queried' if query_first == 'partial' else 'geometry queried' if query_first else 'nothing queried'} before saving)")
        if err:
            return err, cyc
        prev = g
    return None, n_cycles


def run_case(case):
    from numbers_parser import RGB, Border, Document
    with tempfile.TemporaryDirectory() as td:
        if "path" in case:
            reader, why = docsnap.open_quiet(case["path"])
            if reader is None or why == "unsupported-version":
                return {"ok": True, "count": 1, "distinct": 0}
            g0 = geometry(reader)
            doc = reader if case["query"] is True else docsnap.open_quiet(case["path"])[0]
            name = os.path.basename(case["path"])
            err, n = cycles(doc, td, case["cycles"], case["query"], g0, name)
            if err:
                cls = "row-heights-reset" if "row_heights" in err else "col-widths" if "col_widths" in err else "other"
                return {"detail": err, "class": cls}
            return {"ok": True, "count": n * sum(len(g["row_heights"]) + len(g["col_widths"]) + 9 for g in g0)}
        if case.get("resize"):
            # history on a LOADED fixture: a row height and a column width are set on EVERY table (pivot tables excepted: the library says it does
            # not modify them), saved, reopened: each table shows what was set on it
            reader, why = docsnap.open_quiet(case["resize"])
            if reader is None or why == "unsupported-version":
                return {"ok": True, "count": 1, "distinct": 0}
            want = []
            with warnings.catch_warnings():
                warnings.simplefilter("ignore")
                for si, s_ in enumerate(reader.sheets):
                    for ti, t_ in enumerate(s_.tables):
                        if reader._model.is_a_pivot_table(t_._table_id):
                            continue
                        r_, c_ = t_.num_rows - 1, t_.num_cols - 1
                        h, w = 31 + 2 * ti + si, 71 + 3 * ti + si
                        t_.row_height(r_, h)
                        t_.col_width(c_, w)
                        want.append((si, ti, r_, c_, h, w, t_.name))
                p = os.path.join(td, "resized.numbers")
                try:
                    reader.save(p)
                except Exception as e:  # noqa: BLE001
                    return {"detail": f"{os.path.basename(case['resize'])}: saving after setting sizes raised {type(e).__name__}: {str(e)[:150]}", "class": "resize-loaded"}
                d2 = Document(p)
                for si, ti, r_, c_, h, w, name in want:
                    t2 = d2.sheets[si].tables[ti]
                    got = (t2.row_height(r_), t2.col_width(c_))
                    if got != (h, w):
                        return {"detail": f"{os.path.basename(case['resize'])}: table {name!r} (sheet {si}, table {ti} of {[x.name for x in d2.sheets[si].tables]}): row {r_} "
                                          f"height / column {c_} width set to {(h, w)}, saved and reopened: reads {got}", "class": "resize-loaded"}
            return {"ok": True, "count": 2 * len(want)}
        if case.get("loaded"):
            # history on a LOADED document that has stored borders: sizes are set without anything having been read first, then saved
            rnd = random.Random(case["seed"])
            doc = Document(num_rows=5, num_cols=4)
            t = doc.sheets[0].tables[0]
            for _ in range(3):
                t.set_cell_border(rnd.randrange(5), rnd.randrange(4), rnd.choice(["top", "left", "bottom", "right"]),
                                  Border(rnd.choice([1.0, 3.0, 5.0, 8.0]), RGB(0, 0, 0), "solid"), rnd.choice([1, 2]))
            p0 = os.path.join(td, "bordered.numbers")
            with warnings.catch_warnings():
                warnings.simplefilter("ignore")
                doc.save(p0)
                d1 = Document(p0)
            t1 = d1.sheets[0].tables[0]
            if case["query"]:
                geometry(d1)
            want = {}
            for r in (range(5) if case["loaded"] == "all" else rnd.sample(range(5), 2)):
                t1.row_height(r, 40 + 3 * r)
                want[("row_heights", r)] = 40 + 3 * r
            for c in (range(4) if case["loaded"] == "all" else rnd.sample(range(4), 2)):
                t1.col_width(c, 100 + 7 * c)
                want[("col_widths", c)] = 100 + 7 * c
            p1 = os.path.join(td, "sized.numbers")
            with warnings.catch_warnings():
                warnings.simplefilter("ignore")
                d1.save(p1)
            g = geometry(Document(p1))
            for k, v in want.items():
                got = g[0][k[0]][k[1]]
                if got != v:
                    return {"detail": f"document with stored borders, loaded, {k[0][:-1]} {k[1]} set to {v} ({'geometry queried' if case['query'] else 'nothing read'} "
                                      f"before), saved and reopened: reads {got}", "class": "set-on-loaded"}
            return {"ok": True, "count": len(want)}
        rnd = random.Random(case["seed"])
        doc = Document(num_rows=5, num_cols=4)
        doc.add_sheet("Other", "T2", num_rows=3, num_cols=3)
        t = doc.sheets[0].tables[0]
        for r in range(5):
            for c in range(4):
                t.write(r, c, f"v{r}{c}")
        want = {}
        sets = case["set"]
        if "borders" in sets:
            for _ in range(3):
                t.set_cell_border(rnd.randrange(5), rnd.randrange(4), rnd.choice(["top", "left", "bottom", "right"]),
                                  Border(rnd.choice([0.5, 1.0, 2.0, 3.0, 5.0, 8.0]), RGB(0, 0, 0), "solid"), rnd.choice([1, 2]))
        if "row_height" in sets:
            for r in rnd.sample(range(5), 2):
                h = rnd.choice([10, 21, 40, 77, 100, 333])
                t.row_height(r, h)
                want[("row_heights", r)] = h
        if "col_width" in sets:
            for c in rnd.sample(range(4), 2):
                w = rnd.choice([30, 55, 98, 120, 500])
                t.col_width(c, w)
                want[("col_widths", c)] = w
        if "headers" in sets:
            # up to the whole table (the setters allow a count up to the table's size, at most 5)
            t.num_header_rows = want["header_rows"] = rnd.choice([0, 1, 2, 3, 5, 5])
            t.num_header_cols = want["header_cols"] = rnd.choice([0, 1, 2, 4, 4])
        if "names" in sets:
            t.name = want["table"] = rnd.choice(["Renamed", "Täble ✓", "a b", "T::x"])
            doc.sheets[0].name = want["sheet"] = rnd.choice(["First", "Blätter", "S 1"])
        if "caption" in sets:
            t.caption = want["caption"] = rnd.choice(["A caption", "", "über caption\nline 2"])
            t.caption_enabled = want["caption_enabled"] = rnd.choice([True, False])
            t.table_name_enabled = want["table_name_enabled"] = rnd.choice([True, False])
        g_open = geometry(doc) if case["query"] else None
        if g_open is not None:
            for k, v in want.items():
                got = g_open[0][k[0]][k[1]] if isinstance(k, tuple) else g_open[0][k]
                if got != v:
                    return {"detail": f"open document: {k} set to {v!r} reads {got!r} (set {sets})", "class": "open-document"}
        p = os.path.join(td, "built.numbers")
        with warnings.catch_warnings():
            warnings.simplefilter("ignore")
            doc.save(p)
        d1 = Document(p)
        g1 = geometry(d1)
        for k, v in want.items():
            got = g1[0][k[0]][k[1]] if isinstance(k, tuple) else g1[0][k]
            if got != v:
                return {"detail": f"saved and reopened: {k} set to {v!r} reads {got!r} (set {sets}, {'queried' if case['query'] else 'not queried'} before saving)",
                        "class": "set-value-lost" if not isinstance(k, tuple) else ("row-heights" if k[0] == "row_heights" else "col-widths")}
        if g_open is not None:
            err = diff(g_open, g1, f"built document (set {sets}): save/reopen")
            if err:
                return {"detail": err, "class": "built-drift"}
        err, n = cycles(Document(p) if not case["query"] else d1, td, case["cycles"], case["query"], g1, f"built document (set {sets})")
        if err:
            cls = "row-heights-reset" if "row_heights" in err else "col-widths" if "col_widths" in err else "other"
            return {"detail": err, "class": cls}
        return {"ok": True, "count": (n + 1) * (len(want) + 20)}


def main():
    ap = common.std_args()
    ap.add_argument("--level", type=int, default=1)
    a = ap.parse_args()
    big = a.level >= 2
    fs = docsnap.fixtures()
    if not big:
        fs = sorted(fs, key=lambda f: os.path.getsize(f) if os.path.isfile(f) else 10 ** 9)[:40]
    cases = [{"path": f, "query": q, "cycles": 2 if not big else 3} for f in fs for q in (False, True, "partial")]
    groups = [["row_height"], ["col_width"], ["headers"], ["names"], ["caption"], ["borders"], ["row_height", "borders"], ["col_width", "borders"],
              ["row_height", "col_width", "headers", "names", "caption"], ["row_height", "col_width", "headers", "names", "caption", "borders"]]
    for i, g in enumerate(groups):
        for s in range(6 if big else 2):
            for q in (False, True):
                cases.append({"set": g, "seed": a.seed * 100 + i * 10 + s, "query": q, "cycles": 2})
    every = docsnap.fixtures()
    pick = [f for f in every if os.path.basename(f) in ("test-pivot.numbers", "issue-73.numbers", "test-1.numbers", "test-9.numbers", "issue-69b.numbers")] if not big else every
    for f in pick:
        cases.append({"set": ["resize"], "resize": f, "seed": 0, "query": False, "cycles": 1})
    for s in range(8 if big else 3):
        for q in (False, True):
            cases.append({"set": ["loaded"], "loaded": "all" if s % 2 == 0 else "some", "seed": a.seed * 100 + 900 + s, "query": q, "cycles": 1})
    return common.run(cases, run_case, key=lambda c: str(c.get("path") or c.get("resize") or c.get("set")) + str(c.get("query")) + str(c.get("seed")))


if __name__ == "__main__":
    sys.exit(main())

"""Bounded stand-in for C15: styles and borders applied through the API read back equal, now and after reload.
Run-time contracts (from the property statement):
  borders: a last-writer-wins edge model (one slot per cell edge of the grid; a stroke of length n along a side overwrites n slots) must agree
           with cell.border.{top,right,bottom,left} of EVERY cell after EVERY stroke on the open document, and after save/reopen; the
           neighbour sharing an edge reports the same stroke as its opposite side; reading borders in between changes nothing;
  styles : a style built from generated attribute values and applied to a cell reads back with every attribute equal, on the open document
           and after save/reopen; cells that were not styled keep the style they had; reading styles changes nothing that is saved."""
import itertools
import os
import random
import sys
import tempfile
import warnings

sys.path.insert(0, os.path.dirname(os.path.dirname(os.path.abspath(__file__))))
from bounded import common  # noqa: E402

ATTRS = ["alignment", "bg_color", "bold", "font_color", "font_size", "font_name", "italic", "strikethrough", "underline", "first_indent",
         "left_indent", "right_indent", "text_inset", "text_wrap", "name"]
SIDES = ("top", "right", "bottom", "left")
PNG = bytes.fromhex("89504e470d0a1a0a0000000d49484452000000010000000108060000001f15c4890000000d49444154789c6360606060000000050001a5f645400000000049454e44ae426082")


def palette():
    from numbers_parser import RGB, Border
    return [Border(1.0, RGB(255, 0, 0), "solid"), Border(2.5, RGB(0, 128, 0), "dashes"), Border(0.5, RGB(0, 0, 255), "dots"), Border(4.0, RGB(9, 9, 9), "solid")]


def bkey(b):
    return None if b is None else (float(b.width), tuple(b.color), int(b.style))


class Edges:
    """edge slots of an R x C grid: h[(r, c)] is the edge above row r (r in 0..R), v[(r, c)] the edge left of column c (c in 0..C)"""

    def __init__(self, table, merge=None):
        self.R, self.C = table.num_rows, table.num_cols
        self.h, self.v = {}, {}
        self.merge = merge  # (r0, c0, r1, c1) or None
        for r in range(self.R):
            for c in range(self.C):
                b = table.cell(r, c).border
                self.h[(r, c)] = bkey(b.top)
                self.v[(r, c)] = bkey(b.left)
                if r == self.R - 1:
                    self.h[(r + 1, c)] = bkey(b.bottom)
                if c == self.C - 1:
                    self.v[(r, c + 1)] = bkey(b.right)

    def interior(self, r, c, side):
        """is this side of cell (r, c) an edge inside the merged rectangle (invisible)?"""
        if self.merge is None:
            return False
        r0, c0, r1, c1 = self.merge
        if not (r0 <= r <= r1 and c0 <= c <= c1):
            return False
        return {"top": r > r0, "bottom": r < r1, "left": c > c0, "right": c < c1}[side]

    def stroke(self, row, col, side, border, length):
        k = bkey(border)
        if 0 <= row < self.R and 0 <= col < self.C and self.interior(row, col, side):
            return  # documented: the library warns and ignores a stroke that starts on an invisible edge
        for i in range(length):
            if side in ("top", "bottom"):
                r, c = (row if side == "top" else row + 1), col + i
                if 0 <= c < self.C and 0 <= r <= self.R:
                    self.h[(r, c)] = k
            else:
                r, c = row + i, (col if side == "left" else col + 1)
                if 0 <= r < self.R and 0 <= c <= self.C:
                    self.v[(r, c)] = k

    def check(self, table, where):
        for r in range(self.R):
            for c in range(self.C):
                b = table.cell(r, c).border
                got = {"top": bkey(b.top), "bottom": bkey(b.bottom), "left": bkey(b.left), "right": bkey(b.right)}
                want = {"top": self.h[(r, c)], "bottom": self.h[(r + 1, c)], "left": self.v[(r, c)], "right": self.v[(r, c + 1)]}
                for s in SIDES:
                    if self.interior(r, c, s):
                        want[s] = None
                    if got[s] != want[s]:
                        return f"{where}: cell ({r},{c}).border.{s} is {got[s]}, the most recent stroke along that edge is {want[s]}"
        return None


def run_borders(case):
    from numbers_parser import Document
    doc = Document(num_rows=case["rows"], num_cols=case["cols"])
    t = doc.sheets[0].tables[0]
    pal = palette()
    if case.get("merge"):
        t.merge_cells("B2:C3")
    model = Edges(t, (1, 1, 2, 2) if case.get("merge") else None)
    err = model.check(t, "new document (edge consistency of the initial borders)")
    if err:
        return {"detail": err}
    done = []
    for i, (row, col, side, bi, length) in enumerate(case["strokes"]):
        from numbers_parser import Border
        b = pal[bi] if case.get("share") else Border(pal[bi].width, pal[bi].color, pal[bi].style)
        with warnings.catch_warnings():
            warnings.simplefilter("ignore")
            t.set_cell_border(row, col, side, b, length)
        model.stroke(row, col, side, b, length)
        done.append([row, col, side, bi, length])
        if case.get("read_between", True):
            err = model.check(t, f"open document after strokes {done}")
            if err:
                return {"detail": err, "class": "open-document"}
        if case.get("save_at") == i:
            with tempfile.TemporaryDirectory() as td:
                p = os.path.join(td, "mid.numbers")
                doc.save(p)
                err = model.check(Document(p).sheets[0].tables[0], f"saved after strokes {done} and reopened")
                if err:
                    return {"detail": err, "class": "reopened"}
    done = ([["merge B2:C3"]] if case.get("merge") else []) + done
    err = model.check(t, f"open document after strokes {done}")
    if err:
        return {"detail": err, "class": "open-document"}
    with tempfile.TemporaryDirectory() as td:
        p = os.path.join(td, "b.numbers")
        doc.save(p)
        d2 = Document(p)
        err = model.check(d2.sheets[0].tables[0], f"saved after strokes {done} and reopened")
        if err:
            return {"detail": err, "class": "reopened"}
        # merely reading borders never changes what is saved: save the reopened document again, unchanged
        p2 = os.path.join(td, "b2.numbers")
        d2.save(p2)
        err = model.check(Document(p2).sheets[0].tables[0], f"strokes {done}: saved, reopened, borders read, saved again, reopened")
        if err:
            return {"detail": err, "class": "resaved"}
    return {"ok": True, "count": (len(done) + 3) * case["rows"] * case["cols"] * 4}


# ------------------------------------------------------------------------------------------------ styles
def style_values():
    from numbers_parser import RGB, Alignment
    from numbers_parser.generated.fontmap import FONT_NAME_TO_FAMILY
    fams = sorted(set(FONT_NAME_TO_FAMILY.values()))
    return {
        "alignment": [Alignment(h, v) for h in ("left", "right", "center", "justified", "auto") for v in ("top", "middle", "bottom")],
        "bg_color": [None, RGB(0, 0, 0), RGB(255, 255, 255), RGB(1, 2, 3), RGB(200, 100, 50), RGB(127, 128, 129)],
        "bold": [True, False], "italic": [True, False], "strikethrough": [True, False], "underline": [True, False],
        "font_color": [RGB(0, 0, 0), RGB(255, 255, 255), RGB(10, 20, 30), RGB(254, 1, 128)],
        "font_size": [1.0, 9.0, 10.5, 12.0, 72.0, 200.0],
        "font_name": fams,
        "first_indent": [0.0, 1.0, 12.5], "left_indent": [0.0, 3.0, 20.0], "right_indent": [0.0, 2.5], "text_inset": [0.0, 4.0, 10.0],
        "text_wrap": [True, False],
    }


def style_snap(st):
    if st is None:
        return None
    d = {}
    for a in ATTRS:
        v = getattr(st, a)
        d[a] = tuple(v) if isinstance(v, tuple) else v
    d["bg_image"] = None if st.bg_image is None else (st.bg_image.filename, len(st.bg_image.data))
    return d


def all_styles(t):
    return {(r, c): style_snap(t.cell(r, c).style) for r in range(t.num_rows) for c in range(t.num_cols)}


def run_styles(case):
    from numbers_parser import BackgroundImage, Document
    rnd = random.Random(case["seed"])
    vals = style_values()
    doc = Document(num_rows=4, num_cols=4)
    t = doc.sheets[0].tables[0]
    for r in range(4):
        for c in range(4):
            t.write(r, c, f"t{r}{c}" if (r + c) % 2 else r * 4 + c)
    before = all_styles(t) if case.get("read_first") else None
    applied = {}
    made = []
    for i in range(case["n_styles"]):
        kw = {}
        for a, vs in vals.items():
            if rnd.random() < 0.75:
                kw[a] = vs[(case["seed"] * 7 + i * 3 + rnd.randrange(len(vs))) % len(vs)]
        if case.get("image") and i <= 1:
            # every styled document with an image has a second, different one when it has a second style
            kw.pop("bg_color", None)
            kw["bg_image"] = BackgroundImage(PNG + bytes([i]) * i, f"img{case['seed']}-{i}.png")
        if rnd.random() < 0.5:
            kw["name"] = f"Style {case['seed']}-{i}"
        st = doc.add_style(**kw)
        cells = [(rnd.randrange(4), rnd.randrange(4)) for _ in range(rnd.choice((1, 2)))]
        for (r, c) in cells:
            if rnd.random() < 0.5:
                t.set_cell_style(r, c, st)
            else:
                t.write(r, c, f"styled{i}", style=st)
            applied[(r, c)] = (dict(kw), st.name)
        made.append((st, cells))

    def check(table, where):
        for (r, c), (kw, name) in applied.items():
            st = table.cell(r, c).style
            for a, v in kw.items():
                got = getattr(st, a)
                if a == "bg_image":
                    if got is None or got.filename != v.filename or got.data != v.data:
                        return f"{where}: cell ({r},{c}).style.bg_image is {None if got is None else got.filename!r}, applied {v.filename!r}"
                    continue
                if (tuple(got) if isinstance(got, tuple) else got) != (tuple(v) if isinstance(v, tuple) else v):
                    return f"{where}: cell ({r},{c}).style.{a} is {got!r}, the applied style was built with {v!r} (style {kw})"
            if st.name != name:
                return f"{where}: cell ({r},{c}).style.name is {st.name!r}, the applied style is {name!r}"
        return None
    err = check(t, "open document")
    if err:
        return {"detail": err, "class": "open-document"}
    if before is not None:
        now = all_styles(t)
        for pos, snap in before.items():
            if pos not in applied and now[pos] != snap:
                return {"detail": f"open document: cell {pos} was not styled but its style changed: {snap} -> {now[pos]}", "class": "other-cells"}
    with tempfile.TemporaryDirectory() as td:
        p = os.path.join(td, "s.numbers")
        doc.save(p)
        d2 = Document(p)
        t2 = d2.sheets[0].tables[0]
        err = check(t2, "saved and reopened")
        if err:
            return {"detail": err, "class": "reopened"}
        if case.get("modify"):
            # history: after the first save, change attributes of the styles in use on the SAME open document - each to another value of
            # its list, the "nothing" values first (0.0 indents, False, black) - save again and reopen
            for st, cells in made:
                changed = {}
                for a, vs in vals.items():
                    if a in ("bg_color",) or rnd.random() < 0.3:
                        continue
                    cur = getattr(st, a)
                    other = [v for v in vs if (tuple(v) if isinstance(v, tuple) else v) != (tuple(cur) if isinstance(cur, tuple) else cur)]
                    if other:
                        setattr(st, a, other[0])
                        changed[a] = other[0]
                for pos in cells:
                    if pos in applied and applied[pos][1] == st.name:
                        applied[pos] = ({**applied[pos][0], **changed}, st.name)
            err = check(t, "open document after changing the styles in use")
            if err:
                return {"detail": err, "class": "open-document"}
            pm = os.path.join(td, "m.numbers")
            doc.save(pm)
            err = check(Document(pm).sheets[0].tables[0], "styles changed after a first save, saved again and reopened")
            if err:
                return {"detail": err, "class": "second-save"}
        if before is not None:
            now = all_styles(t2)
            for pos, snap in before.items():
                if pos not in applied and now[pos] != snap:
                    return {"detail": f"reopened: cell {pos} was not styled but its style changed: {snap} -> {now[pos]}", "class": "other-cells"}
        # merely reading styles never changes what is saved
        snap2 = all_styles(t2)
        p2 = os.path.join(td, "s2.numbers")
        d2.save(p2)
        snap3 = all_styles(Document(p2).sheets[0].tables[0])
        if snap2 != snap3:
            pos = next(k for k in snap2 if snap2[k] != snap3[k])
            return {"detail": f"styles read, document saved again unchanged: cell {pos} style {snap2[pos]} became {snap3[pos]}", "class": "resaved"}
    return {"ok": True, "count": len(applied) * len(ATTRS) * 3}


def pair_variants():
    """(label, base overrides, changed overrides): two styles that differ in exactly one attribute (or one colour channel)"""
    from numbers_parser import RGB, Alignment
    out = []
    for ch in range(3):
        for attr in ("bg_color", "font_color"):
            a, b = [10, 20, 30], [10, 20, 30]
            b[ch] = 200
            out.append((f"{attr} channel {'rgb'[ch]}", {attr: RGB(*a)}, {attr: RGB(*b)}))
    out += [("bg_color vs none", {"bg_color": None}, {"bg_color": RGB(1, 2, 3)}),
            ("alignment horizontal", {"alignment": Alignment("left", "top")}, {"alignment": Alignment("right", "top")}),
            ("alignment vertical", {"alignment": Alignment("left", "top")}, {"alignment": Alignment("left", "bottom")}),
            ("font_size", {"font_size": 10.0}, {"font_size": 11.0}), ("font_name", {"font_name": "Helvetica Neue"}, {"font_name": "Arial"}),
            ("first_indent", {"first_indent": 1.0}, {"first_indent": 2.0}), ("left_indent", {"left_indent": 1.0}, {"left_indent": 2.0}),
            ("right_indent", {"right_indent": 1.0}, {"right_indent": 2.0}), ("text_inset", {"text_inset": 4.0}, {"text_inset": 5.0}),
            ("text_wrap", {"text_wrap": True}, {"text_wrap": False})]
    for b in ("bold", "italic", "underline", "strikethrough"):
        out.append((b, {b: False}, {b: True}))
    # two attributes differ, but written one after the other their values spell the same text ('1.0'+'6251.0' == '1.0625'+'1.0', '1'+'23' == '12'+'3')
    out += [("right_indent and text_inset (values spelled alike when concatenated)", {"right_indent": 1.0, "text_inset": 6251.0}, {"right_indent": 1.0625, "text_inset": 1.0}),
            ("left_indent and right_indent (values spelled alike when concatenated)", {"left_indent": 1.0, "right_indent": 6251.0}, {"left_indent": 1.0625, "right_indent": 1.0}),
            ("bg_color channels (values spelled alike when concatenated)", {"bg_color": RGB(1, 23, 4)}, {"bg_color": RGB(12, 3, 4)})]
    return out


def run_style_pair(case):
    from numbers_parser import RGB, Alignment, Document
    label, base, changed = pair_variants()[case["variant"]]
    common_kw = {"bg_color": RGB(10, 20, 30), "font_color": RGB(10, 20, 30), "alignment": Alignment("center", "middle"), "font_size": 13.0,
                 "bold": True, "text_inset": 6.0}
    kw1, kw2 = dict(common_kw, **base), dict(common_kw, **changed)
    doc = Document(num_rows=3, num_cols=3)
    t = doc.sheets[0].tables[0]
    order = [(0, 0, kw1), (1, 1, kw2)] if case["order"] == 0 else [(0, 0, kw2), (1, 1, kw1)]
    for r, c, kw in order:
        t.write(r, c, "x", style=doc.add_style(**kw))

    def check(table, where):
        for r, c, kw in order:
            st = table.cell(r, c).style
            for a, v in kw.items():
                got = getattr(st, a)
                if (tuple(got) if isinstance(got, tuple) else got) != (tuple(v) if isinstance(v, tuple) else v):
                    return (f"{where}: two styles differing only in {label}: cell ({r},{c}).style.{a} is {got!r}, its style was built with {v!r}")
        return None
    err = check(t, "open document")
    if err:
        return {"detail": err, "class": "open-document"}
    with tempfile.TemporaryDirectory() as td:
        p = os.path.join(td, "p.numbers")
        doc.save(p)
        err = check(Document(p).sheets[0].tables[0], "saved and reopened")
        if err:
            return {"detail": err, "class": "reopened"}
    return {"ok": True, "count": 2 * len(kw1) * 2}


def run_case(case):
    if case["kind"] == "style-pair":
        return run_style_pair(case)
    return run_borders(case) if case["kind"] == "borders" else run_styles(case)


def main():
    ap = common.std_args()
    ap.add_argument("--level", type=int, default=1)
    a = ap.parse_args()
    big = a.level >= 2
    rnd = random.Random(a.seed)
    cases = []
    R = C = 3
    singles = [(r, c, s, 0, ln) for r in range(R) for c in range(C) for s in SIDES for ln in (1, 2, 3)]
    for st in singles:
        cases.append({"kind": "borders", "rows": R, "cols": C, "strokes": [list(st)]})
    # pairs: the second stroke overlaps / abuts / supersedes the first (all second strokes against a sample of first strokes)
    firsts = [(1, 1, s, 0, ln) for s in SIDES for ln in (1, 2)] + [(0, 0, "top", 0, 3), (2, 2, "right", 0, 1), (0, 2, "left", 0, 3)]
    for f in firsts:
        for (r, c, s, _, ln) in (singles if big else singles[::3]):
            cases.append({"kind": "borders", "rows": R, "cols": C, "strokes": [list(f), [r, c, s, 1, ln]], "share": (r + c) % 2 == 0})
    n_rand = 1500 if big else 250
    for i in range(n_rand):
        k = rnd.choice((2, 3, 3, 4))
        strokes = [[rnd.randrange(4), rnd.randrange(4), rnd.choice(SIDES), rnd.randrange(4), rnd.choice((1, 1, 2, 3, 4))] for _ in range(k)]
        cases.append({"kind": "borders", "rows": 4, "cols": 4, "strokes": strokes, "share": i % 2 == 0, "read_between": i % 3 != 0,
                      "save_at": rnd.randrange(k) if i % 4 == 0 else None, "merge": i % 5 == 4})
    # every pair of strokes along the same line of a 5-wide table (covers, prefix, suffix, middle split, disjoint, abutting)
    spans = [(o, ln) for o in range(5) for ln in range(1, 6 - o)]
    for side in (SIDES if big else ("top", "left")):
        for (o1, l1) in spans:
            for (o2, l2) in spans:
                if side in ("top", "bottom"):
                    st = [[2, o1, side, 0, l1], [2, o2, side, 1, l2]]
                else:
                    st = [[o1, 2, side, 0, l1], [o2, 2, side, 1, l2]]
                cases.append({"kind": "borders", "rows": 5, "cols": 5, "strokes": st, "read_between": (o1 + o2) % 2 == 0})
    for v in range(len(pair_variants())):
        for order in (0, 1):
            cases.append({"kind": "style-pair", "variant": v, "order": order})
    for s in range(160 if big else 40):
        cases.append({"kind": "styles", "seed": a.seed * 1000 + s, "n_styles": 1 + s % 3, "read_first": s % 2 == 0, "image": s % 5 == 0, "modify": s % 2 == 1})
    return common.run(cases, run_case)


if __name__ == "__main__":
    sys.exit(main())

"""Bounded stand-in for C03: edit histories against a plain reference grid, lock-step, with save/reopen.
Run-time contract (from the property statement): after every operation each table reports exactly the dimensions and
cell values of the reference grid subjected to the same edits and every cell reports its own row/col; an operation that
raises changes nothing; saving has no observable effect, may be repeated, and the saved file reopens to the same grid;
edits to one table/document never show up in another."""
import itertools
import os
import random
import sys
import tempfile

sys.path.insert(0, os.path.dirname(os.path.dirname(os.path.abspath(__file__))))
from bounded import common  # noqa: E402

MAX_ROW, MAX_COL = 1000000, 1000


class Ref:
    """the plain grid"""

    def __init__(self, nr, nc):
        self.g = [[None] * nc for _ in range(nr)]

    @property
    def nr(self):
        return len(self.g)

    @property
    def nc(self):
        return len(self.g[0]) if self.g else 0

    def apply(self, op):
        k = op[0]
        if k == "write":
            _, r, c, v = op
            if r < 0 or c < 0 or r >= MAX_ROW or c >= MAX_COL:
                raise IndexError
            while self.nr <= r:
                self.g.append([None] * self.nc)
            if self.nc <= c:
                for row in self.g:
                    row.extend([None] * (c + 1 - len(row)))
            self.g[r][c] = v
        elif k in ("add_row", "add_column"):
            _, n, at, default = op
            size = self.nr if k == "add_row" else self.nc
            if at is not None and not (0 <= at < size):
                raise IndexError
            if n < 0:
                raise IndexError
            at = size if at is None else at
            if k == "add_row":
                self.g[at:at] = [[default] * self.nc for _ in range(n)]
            else:
                for row in self.g:
                    row[at:at] = [default] * n
        elif k in ("delete_row", "delete_column"):
            _, n, at = op
            size = self.nr if k == "delete_row" else self.nc
            if at is not None and not (0 <= at < size):
                raise IndexError
            start = size - n if at is None else at
            if n < 0 or start < 0 or start + n > size:
                raise IndexError
            if n >= size and n > 0:
                raise IndexError  # emptying a table: not generated; if it happens the reference refuses it
            if k == "delete_row":
                del self.g[start:start + n]
            else:
                for row in self.g:
                    del row[start:start + n]


def lib_apply(table, op):
    k = op[0]
    if k == "write":
        table.write(op[1], op[2], op[3])
    elif k == "add_row":
        table.add_row(op[1], op[2], op[3])
    elif k == "add_column":
        table.add_column(op[1], op[2], op[3])
    elif k == "delete_row":
        table.delete_row(op[1], op[2])
    elif k == "delete_column":
        table.delete_column(op[1], op[2])


def grid_of(table):
    return [[c.value for c in row] for row in table.rows()]


def same_grid(a, b):
    return len(a) == len(b) and all(len(x) == len(y) and all((p == q and (p is None) == (q is None)) for p, q in zip(x, y)) for x, y in zip(a, b))


def check_table(table, ref, where):
    g = grid_of(table)
    if table.num_rows != ref.nr or table.num_cols != ref.nc:
        return f"{where}: reports {table.num_rows}x{table.num_cols}, plain grid is {ref.nr}x{ref.nc}"
    if len(g) != ref.nr or any(len(r) != ref.nc for r in g):
        return f"{where}: rows() is not a {ref.nr}x{ref.nc} rectangle: {len(g)} rows of lengths {sorted(set(len(r) for r in g))}"
    if not same_grid(g, ref.g):
        return f"{where}: cell values differ from the plain grid: {g} != {ref.g}"
    for r, row in enumerate(table.rows()):
        for c, cell in enumerate(row):
            if cell.row != r or cell.col != c:
                return f"{where}: cell at ({r},{c}) reports position ({cell.row},{cell.col})"
    return None


def run_two_tables(case):
    """edits of one table never show up in another: data formats and styles given to cells of the first table and of a table added to the
    same sheet (or to a new sheet), across two saves of the same open document - each table allocates keys in lists of its own"""
    import warnings
    from numbers_parser import Document, RGB
    warnings.simplefilter("ignore")
    doc = Document(num_rows=4, num_cols=4)
    t1 = doc.sheets[0].tables[0]
    t2 = doc.sheets[0].add_table("Second", num_rows=4, num_cols=4) if case["where"] == "same-sheet" else (doc.add_sheet("S2", "Second", num_rows=4, num_cols=4) or doc.sheets[1].tables[0])
    want = {}

    def put(t, name, r, c, v, kind, shown, **kw):
        t.write(r, c, v)
        t.set_cell_formatting(r, c, kind, **kw)
        want[(name, r, c)] = shown
    put(t1, "first", 0, 0, 1234.5678, "number", "1,234.6", decimal_places=1, show_thousands_separator=True)
    put(t2, "second", 0, 0, 0.256, "percentage", "26%", decimal_places=0)
    if case.get("styles"):
        t1.set_cell_style(2, 2, doc.add_style(bg_color=RGB(1, 2, 3), text_wrap=True))
        t2.set_cell_style(2, 2, doc.add_style(bg_color=RGB(200, 100, 50), bold=True))

    def check(d, where):
        tabs = {"first": d.sheets[0].tables[0], "second": d.sheets[0].tables[1] if case["where"] == "same-sheet" else d.sheets[1].tables[0]}
        for (name, r, c), shown in want.items():
            got = tabs[name].cell(r, c).formatted_value
            if got != shown:
                return f"formats of two tables ({case['where']}): {where}: cell ({r},{c}) of the {name} table shows {got!r}, it was formatted to show {shown!r}"
        if case.get("styles"):
            try:
                a, b = tabs["first"].cell(2, 2).style.bg_color, tabs["second"].cell(2, 2).style.bg_color
            except Exception as e:  # noqa: BLE001
                return f"styles of two tables ({case['where']}): {where}: reading a cell's style raised {type(e).__name__}: {e}"
            if (tuple(a), tuple(b)) != ((1, 2, 3), (200, 100, 50)):
                return f"styles of two tables ({case['where']}): {where}: background colours read {tuple(a)} / {tuple(b)}, given (1, 2, 3) / (200, 100, 50)"
        return None
    with tempfile.TemporaryDirectory() as td:
        p1 = os.path.join(td, "one.numbers")
        doc.save(p1)
        err = check(Document(p1), "first save, reopened")
        if err:
            return {"detail": err}
        put(t1, "first", 1, 1, 9.5, "currency", "\u20ac9.50", currency_code="EUR")
        put(t2, "second", 1, 1, 77.0, "scientific", "7.70E+01", decimal_places=2)
        if case.get("styles"):
            t1.set_cell_style(3, 3, doc.add_style(italic=True, text_inset=7.0))
            t2.set_cell_style(3, 3, doc.add_style(underline=True, text_inset=9.0))
        err = check(doc, "open document after more formats")
        if err:
            return {"detail": err}
        for n in (2, 3):
            p = os.path.join(td, f"save{n}.numbers")
            doc.save(p)
            err = check(Document(p), f"save number {n} of the same open document, reopened")
            if err:
                return {"detail": err}
    return None


def run_case(case):
    if case.get("special") == "two-tables":
        return run_two_tables(case)
    from numbers_parser import Document
    nr, nc = case["shape"]
    doc = Document(num_rows=nr, num_cols=nc)
    other = Document(num_rows=2, num_cols=2)
    t0 = doc.sheets[0].tables[0]
    t1 = doc.sheets[0].add_table("Second", num_rows=2, num_cols=2)
    tables = {"t0": (t0, Ref(nr, nc)), "t1": (t1, Ref(2, 2)), "o0": (other.sheets[0].tables[0], Ref(2, 2))}
    # the library's new tables have header cells etc. but no values
    with tempfile.TemporaryDirectory() as td:
        for step, op in enumerate(case["ops"]):
            where = f"step {step} {op} after {case['ops'][:step]}"
            if op[0] == "save":
                p = os.path.join(td, f"s{step}.numbers")
                doc.save(p)
                for name in ("t0", "t1"):
                    err = check_table(*tables[name], f"{where}: open document [{name}] after save")
                    if err:
                        return {"detail": err}
                d2 = Document(p)
                for name, tb in (("t0", d2.sheets[0].tables[0]), ("t1", d2.sheets[0].tables[1])):
                    err = check_table(tb, tables[name][1], f"{where}: reopened [{name}]")
                    if err:
                        return {"detail": err}
                continue
            target = op[-1] if op[-1] in tables else "t0"
            body = op[:-1] if op[-1] in tables else op
            table, ref = tables[target]
            before = {n: (grid_of(t), t.num_rows, t.num_cols) for n, (t, _) in tables.items()}
            ref_exc = lib_exc = None
            import copy
            ref2 = copy.deepcopy(ref)
            try:
                ref2.apply(body)
            except IndexError:
                ref_exc = IndexError
            try:
                lib_apply(table, body)
            except (IndexError, ValueError) as e:
                lib_exc = type(e)
            except Exception as e:  # noqa: BLE001
                return {"detail": f"{where}: raised {type(e).__name__}: {e}"}
            if lib_exc is not None:
                after = (grid_of(table), table.num_rows, table.num_cols)
                if after != before[target]:
                    return {"detail": f"{where}: raised {lib_exc.__name__} but changed the table {before[target][1:]} -> {after[1:]}"}
                if ref_exc is None:
                    return {"detail": f"{where}: a valid edit was refused with {lib_exc.__name__}"}
            else:
                if ref_exc is not None:
                    # the edit is meaningless for a plain grid: the library may refuse it, but if it returns normally the
                    # table must still be a rectangle consistent with its reported size
                    g = grid_of(table)
                    if table.num_rows == 0 or table.num_cols == 0:
                        return None  # the history emptied a table: outside the property (and never generated on purpose)
                    if len(g) != table.num_rows or any(len(r) != table.num_cols for r in g):
                        return {"detail": f"{where}: returned normally for an edit no plain grid admits and left "
                                          f"num_rows/num_cols={table.num_rows}x{table.num_cols} with {len(g)} rows of lengths "
                                          f"{sorted(set(len(r) for r in g))}"}
                    tables[target] = (table, _ref_from(table))
                else:
                    ref.g = ref2.g
            for n, (t, rf) in tables.items():
                err = check_table(t, rf, f"{where}: [{n}]")
                if err:
                    return {"detail": err}
    return None


def _ref_from(table):
    r = Ref(1, 1)
    r.g = grid_of(table)
    return r


def ops_alphabet(nr, nc, small=False):
    vals = ["x", 7, 2.5, True, 1234567890123456, -9007199254740991]  # incl. integers that need 16 significant digits
    ops = [("save",)]
    if small:
        ops += [("write", 0, 0, "x"), ("write", nr, nc, 7), ("add_row", 1, None, None), ("add_row", 1, 0, "d"),
                ("add_row", 2, nr - 1, None), ("add_column", 1, None, None), ("add_column", 1, 0, 0), ("add_column", 2, 1, None),
                ("delete_row", 1, None), ("delete_row", 1, 0), ("delete_row", 2, 1), ("delete_column", 1, None),
                ("delete_column", 1, 0), ("delete_column", 2, 1), ("write", 0, 0, "other", "t1"), ("add_row", 1, 0, None, "o0"),
                ("add_row", 0, None, None), ("delete_row", 0, None), ("delete_row", 5, 1), ("write", -1, 0, "neg"),
                ("delete_row", 2, nr - 1), ("add_column", -1, 0, None), ("delete_column", 9, None)]
        return ops
    for (r, c) in ((0, 0), (nr - 1, nc - 1), (nr, 0), (0, nc), (nr + 1, nc + 1)):
        ops.append(("write", r, c, vals[(r + c) % len(vals)]))
    for n in (1, 2):
        for at in (None, 0, 1, nr - 1):
            ops.append(("add_row", n, at, None))
            if n < nr:  # never empty the table (a table with no rows/columns is outside the property)
                ops.append(("delete_row", n, at))
        for at in (None, 0, 1, nc - 1):
            ops.append(("add_column", n, at, None))
            if n < nc:
                ops.append(("delete_column", n, at))
    ops += [("add_row", 1, 1, "d"), ("add_column", 1, 0, 0), ("add_row", 1, None, False), ("add_column", 2, 1, ""),
            ("write", 0, 0, "other", "t1"), ("add_row", 1, 0, None, "o0"), ("delete_column", 1, 0, "t1"),
            ("add_row", 0, None, None), ("add_row", -1, 0, None), ("delete_row", 0, None), ("delete_row", 5, 1),
            ("delete_column", 0, 0), ("write", -1, 0, "neg"), ("add_column", 0, None, None), ("delete_row", 2, nr - 1)]
    return ops


def main():
    ap = common.std_args()
    ap.add_argument("--max-len", type=int, default=2)
    ap.add_argument("--random", type=int, default=40)
    ap.add_argument("--random-len", type=int, default=12)
    ap.add_argument("--small", action="store_true")
    a = ap.parse_args()
    cases = []
    for shape in ((3, 3), (1, 1)) if a.small else ((3, 3), (2, 2), (1, 1)):
        ops = ops_alphabet(*shape, small=a.small)
        for L in range(1, a.max_len + 1):
            if L == 3:
                ops = [o for o in ops if o[0] != "save"]
            for seq in itertools.product(ops, repeat=L):
                if L > 1 and sum(1 for o in seq if o[0] == "save") > 1:
                    continue
                cases.append({"shape": list(shape), "ops": [list(o) for o in seq] + ([["save"]] if L == 1 else [])})
    # tables that grow past one storage tile (256 rows) and past the narrow-row width (255 columns): the saved file splits them
    for ops in ([("add_row", 253, None, "d"), ("write", 255, 1, 7), ("save",)],
                [("add_row", 254, None, "d"), ("add_row", 1, 0, "x"), ("save",), ("delete_row", 2, 100), ("save",)],
                [("add_row", 510, None, 2.5), ("delete_row", 1, 0), ("write", 511, 2, "last"), ("save",)],
                [("add_column", 254, None, 1), ("write", 2, 256, "wide"), ("save",)]):
        cases.append({"shape": [3, 3], "ops": [list(o) for o in ops]})
    for where in ("same-sheet", "other-sheet"):
        for styles in (False, True):
            cases.append({"special": "two-tables", "where": where, "styles": styles, "shape": [4, 4], "ops": [["format"], ["save"], ["format"], ["save"]]})
    rnd = random.Random(a.seed)
    for _ in range(a.random):
        ops = ops_alphabet(3, 3)
        cases.append({"shape": [3, 3], "ops": [list(rnd.choice(ops)) for _ in range(a.random_len)] + [["save"]]})
    return common.run(cases, run_case, nontrivial=lambda c: len(c["ops"]) >= 2)


if __name__ == "__main__":
    sys.exit(main())

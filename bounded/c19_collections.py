"""Bounded stand-in for C19: histories of add_sheet / add_table / rename on a new document, then save/reopen.
Run-time contract (from the property statement):
  * an add never makes the new item collide (ignoring case) with an existing sibling; generated names are fresh;
  * an explicit duplicate raises IndexError and leaves names and order unchanged;
  * lookup by name returns the item with exactly that name; lookup by index in [-n, n) agrees with iteration,
    outside it raises IndexError;
  * names and order are the same after save and reopen.
"""
import itertools
import os
import random
import sys
import tempfile

sys.path.insert(0, os.path.dirname(os.path.dirname(os.path.abspath(__file__))))
from bounded import common  # noqa: E402

NAMES = ["Data", "DATA", "Table 2", "sheet 2", "Straße"]  # the last: non-ASCII, and its case-folded form differs from its lower-cased one


def ops_alphabet():
    ops = [("add_sheet", None), ("add_table", None)]
    for n in NAMES:
        ops += [("add_sheet", n), ("add_table", n), ("rename_sheet", n), ("rename_table", n)]
    return ops


def snapshot(doc):
    return [(s.name, [t.name for t in s.tables]) for s in doc.sheets]


def check_lookups(doc, where):
    for coll, label in [(doc.sheets, "sheets")] + [(s.tables, f"tables of {s.name!r}") for s in doc.sheets]:
        items = list(coll)
        n = len(items)
        for k in range(-2 * n, 2 * n + 1):
            try:
                got = coll[k]
            except IndexError:
                got = IndexError
            exp = items[k] if -n <= k < n else IndexError
            if got is not exp:
                return {"detail": f"{where}: {label}[{k}] (n={n}) disagrees with iteration order / IndexError rule"}
        names = [it.name for it in items]
        for nm in set(names):
            got = coll[nm]
            if got.name != nm or got is not items[names.index(nm)]:
                return {"detail": f"{where}: {label}[{nm!r}] returned item named {got.name!r}"}
        for nm in NAMES + ["nope"]:
            if nm not in names:
                try:
                    coll[nm]
                    return {"detail": f"{where}: {label}[{nm!r}] returned an item although no item has exactly that name"}
                except KeyError:
                    pass
    return None


def run_case(case):
    from numbers_parser import Document
    doc = Document()
    for step, (op, name) in enumerate(case["ops"]):
        before = snapshot(doc)
        sheet = doc.sheets[0]
        where = f"step {step} {op}({name!r}) after {case['ops'][:step]}"
        try:
            if op == "add_sheet":
                siblings = [s.name for s in doc.sheets]
                doc.add_sheet(name)
                new = doc.sheets[-1].name
            elif op == "add_table":
                siblings = [t.name for t in sheet.tables]
                sheet.add_table(name)
                new = sheet.tables[-1].name
            elif op == "rename_sheet":
                doc.sheets[-1].name = name
                continue
            else:
                sheet.tables[-1].name = name
                continue
        except IndexError:
            if name is None:
                return {"detail": f"{where}: unnamed add raised IndexError"}
            if name.lower() not in [s.lower() for s in siblings]:
                return {"detail": f"{where}: refused although no sibling equals it ignoring case: {siblings}"}
            if snapshot(doc) != before:
                return {"detail": f"{where}: refused duplicate changed the document: {before} -> {snapshot(doc)}"}
            continue
        if name is not None and new != name:
            return {"detail": f"{where}: new item is named {new!r}"}
        if new.lower() in [s.lower() for s in siblings]:
            return {"detail": f"{where}: new name {new!r} collides ignoring case with siblings {siblings}"}
        after = snapshot(doc)
        if op == "add_sheet":
            if [s for s, _ in after][:-1] != [s for s, _ in before]:
                return {"detail": f"{where}: order of existing sheets changed"}
        elif after[0][1][:-1] != before[0][1] or after[1:] != before[1:]:
            return {"detail": f"{where}: existing tables changed: {before} -> {after}"}
    r = check_lookups(doc, "open document")
    if r:
        return r
    if case.get("reopen"):
        with tempfile.TemporaryDirectory() as td:
            p = os.path.join(td, "t.numbers")
            snap = snapshot(doc)
            doc.save(p)
            if snapshot(doc) != snap:
                return {"detail": "saving changed the open document's names/order"}
            doc2 = Document(p)
            if snapshot(doc2) != snap:
                return {"detail": f"after reopen names/order differ: {snap} -> {snapshot(doc2)}"}
            r = check_lookups(doc2, "reopened document")
            if r:
                return r
    return None


def main():
    ap = common.std_args()
    ap.add_argument("--max-len", type=int, default=2)
    ap.add_argument("--random", type=int, default=60)
    ap.add_argument("--random-len", type=int, default=5)
    a = ap.parse_args()
    ops = ops_alphabet()
    cases = []
    for L in range(1, a.max_len + 1):
        for seq in itertools.product(ops, repeat=L):
            cases.append({"ops": [list(o) for o in seq], "reopen": L <= 2})
    adds = [o for o in ops if o[0].startswith("add")]
    renames = [o for o in ops if o[0].startswith("rename")]
    if a.max_len < 3:
        # add / rename / add triples (stale-state patterns), in memory only
        for seq in itertools.product(adds, renames, adds):
            cases.append({"ops": [list(o) for o in seq], "reopen": False})
    # add / refused-or-not add / rename / add quads on one collection (table ops and sheet ops separately)
    for kind in ("table", "sheet"):
        a_named = [o for o in adds if o[0] == "add_" + kind and o[1] is not None]
        a_all = [o for o in adds if o[0] == "add_" + kind]
        rn = [o for o in renames if o[0] == "rename_" + kind]
        for seq in itertools.product(a_named, a_named, rn, a_all):
            cases.append({"ops": [list(o) for o in seq], "reopen": False})
    rnd = random.Random(a.seed)
    for _ in range(a.random):
        cases.append({"ops": [list(rnd.choice(ops)) for _ in range(a.random_len)], "reopen": True})
    return common.run(cases, run_case, nontrivial=lambda c: len(c["ops"]) >= 2)


if __name__ == "__main__":
    sys.exit(main())

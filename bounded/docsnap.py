"""snapshot(doc): what the public API reports for a document - the shared observation function of the
whole-document stand-ins (DESIGN section 5).  Reads through the public API only."""
import warnings


def cell_snap(cell, layers=()):
    d = {"cls": type(cell).__name__}
    try:
        d["value"] = repr(cell.value)
    except Exception as e:  # noqa: BLE001
        d["value"] = f"!{type(e).__name__}"
    for attr in ("formula", "formatted_value", "is_merged", "size", "bullets", "hyperlinks", "is_bulleted"):
        try:
            v = getattr(cell, attr, None)
            d[attr] = repr(v) if v is not None else None
        except Exception as e:  # noqa: BLE001
            d[attr] = f"!{type(e).__name__}"
    if type(cell).__name__ == "MergedCell":
        d["rect"] = repr(getattr(cell, "rect", None))
        d["merge_range"] = getattr(cell, "merge_range", None)
    d["row"], d["col"] = cell.row, cell.col
    if "style" in layers:
        st = cell.style
        d["style"] = None if st is None else {k: repr(getattr(st, k, None)) for k in (
            "alignment", "bg_color", "bold", "font_color", "font_size", "font_name", "italic", "strikethrough", "underline",
            "first_indent", "left_indent", "right_indent", "text_inset", "text_wrap", "name")}
    if "border" in layers:
        b = cell.border
        d["border"] = {s: repr(getattr(b, s, None)) for s in ("top", "right", "bottom", "left")}
    return d


def table_snap(table, layers=()):
    d = {"name": table.name, "num_rows": table.num_rows, "num_cols": table.num_cols,
         "num_header_rows": table.num_header_rows, "num_header_cols": table.num_header_cols,
         "merge_ranges": list(table.merge_ranges)}
    d["cells"] = [[cell_snap(c, layers) for c in row] for row in table.rows()]
    if "geometry" in layers:
        d["row_heights"] = [table.row_height(r) for r in range(table.num_rows)]
        d["col_widths"] = [table.col_width(c) for c in range(table.num_cols)]
        d["coordinates"] = list(table.coordinates)
        d["caption"] = table.caption
        d["caption_enabled"] = table.caption_enabled
        d["table_name_enabled"] = table.table_name_enabled
    return d


def snapshot(doc, layers=()):
    with warnings.catch_warnings():
        warnings.simplefilter("ignore")
        return [{"sheet": s.name, "tables": [table_snap(t, layers) for t in s.tables]} for s in doc.sheets]


def diff(a, b, path="doc", out=None, limit=5):
    out = [] if out is None else out
    if len(out) >= limit:
        return out
    if type(a) is not type(b):
        out.append(f"{path}: {a!r} != {b!r}")
    elif isinstance(a, dict):
        for k in a.keys() | b.keys():
            if k not in a or k not in b:
                out.append(f"{path}.{k}: missing on one side")
            else:
                diff(a[k], b[k], f"{path}.{k}", out, limit)
    elif isinstance(a, list):
        if len(a) != len(b):
            out.append(f"{path}: length {len(a)} != {len(b)}")
        else:
            for i, (x, y) in enumerate(zip(a, b)):
                diff(x, y, f"{path}[{i}]", out, limit)
    elif a != b:
        out.append(f"{path}: {str(a)[:80]!r} != {str(b)[:80]!r}")
    return out


def fixtures(limit=None, exclude=()):
    import glob
    import os
    import numbers_parser
    data = os.path.join(os.path.dirname(os.path.dirname(os.path.dirname(numbers_parser.__file__))), "tests", "data")
    fs = sorted(glob.glob(os.path.join(data, "*.numbers")))
    fs = [f for f in fs if (os.path.isdir(f) or os.path.getsize(f) > 0) and os.path.basename(f) not in exclude]
    return fs if limit is None else fs[:limit]


def open_quiet(path):
    """Document(path) or None when the library itself rejects the file / warns it is an unsupported version."""
    from numbers_parser import Document
    with warnings.catch_warnings(record=True) as w:
        warnings.simplefilter("always")
        try:
            doc = Document(path)
        except Exception:  # noqa: BLE001
            return None, "unreadable"
        if any("unsupported version" in str(x.message).lower() or "not tested" in str(x.message).lower() for x in w):
            return doc, "unsupported-version"
    return doc, None

"""Bounded stand-in for C07: every saved package is structurally sound and referentially closed.
An independent structural validator is the run-time postcondition of Document.save (from the property statement):
  open      : the saved document opens and every cell can be read;
  ids       : archive identifiers are unique in the package and none exceeds PackageMetadata.last_object_identifier;
  inventory : every archive file the save added (relative to the source document) is listed in PackageMetadata.components;
  closure   : every reference inside an object the library created or rewrote resolves to an object of the package (references that were
              already unresolved in the source are exempt); the archive header's object_references of such objects resolve too;
  tiles     : per rewritten table: tile ids consecutive from 0, numrows == number of row records, rows of tile t are 256*t + tile_row_index,
              every row exactly once, sum == number_of_rows; per row record: one int16 offset per column, -1 or a byte offset (x4 when wide)
              that is 4-byte aligned, inside the buffer, strictly increasing; records do not overlap (record length from the version-5
              layout) and end inside the buffer; cell_count == number of present cells.
The archive framing/protobuf decoding of the saved bytes uses the library's IWAFile reader (C05's subject)."""
import os
import struct
import sys
import tempfile
import warnings

sys.path.insert(0, os.path.dirname(os.path.dirname(os.path.abspath(__file__))))
from bounded import common, docsnap, layout  # noqa: E402

SIZE = {0: 16, 1: 8, 2: 8}


def record_len(buf, off):
    if off + 12 > len(buf):
        return None, "header beyond the buffer"
    if buf[off] != 5:
        return None, f"version byte {buf[off]}"
    flags = struct.unpack_from("<I", buf, off + 8)[0]
    if flags >> 21:
        return None, None  # bits this validator has no size for
    return 12 + sum(SIZE.get(b, 4) for b in range(21) if flags >> b & 1), None


def decode(members):
    """-> (objs: id -> (member, archive, message), dup ids, names of .iwa members)"""
    from numbers_parser.iwafile import IWAFile
    objs, dups, names, unreadable = {}, [], set(), {}
    for name, data in members:
        if not name.endswith(".iwa"):
            continue
        names.add(name)
        try:
            f = IWAFile.from_buffer(data, name)
        except Exception as e:  # noqa: BLE001
            unreadable[name] = f"{type(e).__name__}: {e}"
            continue
        for ch in f.chunks:
            for ar in ch.archives:
                ident = ar.header.identifier
                if ident in objs:
                    dups.append(ident)
                objs[ident] = (name, ar, ar.objects[0] if ar.objects else None)
    return objs, dups, names, unreadable


def refs_of(msg, out):
    """identifiers of every TSP.Reference reachable in msg (independent of the library's find_references)"""
    if msg is None:
        return out
    if msg.DESCRIPTOR.full_name == "TSP.Reference":
        out.append(msg.identifier)
        return out
    for fd, val in msg.ListFields():
        if fd.type != fd.TYPE_MESSAGE:
            continue
        if hasattr(val, "DESCRIPTOR"):
            refs_of(val, out)
        else:  # repeated message field
            for item in val:
                refs_of(item, out)
    return out


def validate(saved_path, source_members):
    errs = []
    members = layout.read_members(saved_path)
    objs, dups, names, unreadable = decode(members)
    src_objs, _, src_names, src_unreadable = decode(source_members)
    for n in sorted(set(unreadable) - set(src_unreadable)):
        errs.append(f"open: archive member {n} of the saved package cannot be decoded: {unreadable[n]}")
    # ---- ids
    if dups:
        errs.append(f"ids: identifiers stored twice in the package: {sorted(set(dups))[:5]}")
    meta = [m for (n, a, m) in objs.values() if m is not None and m.DESCRIPTOR.full_name == "TSP.PackageMetadata"]
    if len(meta) != 1:
        return errs + [f"inventory: {len(meta)} PackageMetadata objects"]
    meta = meta[0]
    src_meta = [m for (n, a, m) in src_objs.values() if m is not None and m.DESCRIPTOR.full_name == "TSP.PackageMetadata"]
    src_meta_datas = list(src_meta[0].datas) if src_meta else []
    new_ids = sorted(set(objs) - set(src_objs))
    over = [i for i in new_ids if i > meta.last_object_identifier]
    if over:
        errs.append(f"ids: added objects {over[:5]} are above the recorded high-water mark {meta.last_object_identifier}")
    # ---- inventory
    listed = {"Index/" + c.locator + ".iwa" for c in meta.components} | {"Index/" + c.preferred_locator + ".iwa" for c in meta.components}
    for n in sorted(names - src_names):
        if n not in listed:
            errs.append(f"inventory: archive file {n} was added but is not listed in PackageMetadata.components")
    # every data file the save added (Data/<name>: images) has its DataInfo record in the package metadata, and every record has its file
    all_members = {n for n, _ in members}
    src_all = {n for n, _ in source_members}
    data_listed = {f"Data/{d.file_name}" for d in meta.datas} | {f"Data/{d.preferred_file_name}" for d in meta.datas}
    import hashlib
    digests = {bytes(d.digest) for d in meta.datas}
    content = dict(members)
    for n in sorted(all_members - src_all):
        # (identical data under a second name shares the first one's record - the library keys data by digest - so only data that no
        # record describes is an error)
        if n.startswith("Data/") and n not in data_listed and hashlib.sha1(content[n]).digest() not in digests:  # noqa: S324
            errs.append(f"inventory: data file {n} was added but no DataInfo record of the package metadata describes it (by name or by digest)")
    for d in meta.datas:
        if f"Data/{d.file_name}" not in all_members and f"Data/{d.preferred_file_name}" not in all_members and f"Data/{d.file_name}" not in src_all \
                and d.identifier not in {x.identifier for x in src_meta_datas}:
            errs.append(f"inventory: DataInfo record {d.identifier} ({d.file_name}) was added but the package has no such data file")
    data_ids = [d.identifier for d in meta.datas]
    if len(data_ids) != len(set(data_ids)):
        errs.append(f"inventory: data identifiers listed twice: {sorted({i for i in data_ids if data_ids.count(i) > 1})[:5]}")
    comp_ids = [c.identifier for c in meta.components]
    if len(comp_ids) != len(set(comp_ids)):
        errs.append(f"inventory: component identifiers listed twice: {sorted({i for i in comp_ids if comp_ids.count(i) > 1})[:5]}")
    # ---- closure
    src_unresolved = set()
    for i, (n, a, m) in src_objs.items():
        for r in refs_of(m, []):
            if r not in src_objs:
                src_unresolved.add(r)
    changed = []
    for i, (n, a, m) in objs.items():
        if m is None:
            continue
        if i not in src_objs or src_objs[i][2] is None or src_objs[i][2].SerializeToString() != m.SerializeToString():
            changed.append(i)
    for i in changed:
        n, a, m = objs[i]
        bad = sorted({r for r in refs_of(m, []) if r not in objs and r not in src_unresolved})
        if bad:
            errs.append(f"closure: object {i} ({m.DESCRIPTOR.full_name}, {'new' if i not in src_objs else 'rewritten'}) refers to missing objects {bad[:5]}")
        if a.header.message_infos:
            bad = sorted({r for r in a.header.message_infos[0].object_references if r not in objs and r not in src_unresolved})
            if bad:
                errs.append(f"closure: archive header of object {i} lists missing objects {bad[:5]}")
    # ---- tiles
    changed_set = set(changed)
    for i, (n, a, m) in objs.items():
        if m is None or m.DESCRIPTOR.full_name != "TST.TableModelArchive":
            continue
        nrows, ncols = m.number_of_rows, m.number_of_columns
        tiles = m.base_data_store.tiles.tiles
        tile_ids = [t.tile.identifier for t in tiles]
        if not (i in changed_set or any(t in changed_set for t in tile_ids)):
            continue  # a table the save did not touch (e.g. a pivot table)
        where = f"table {m.table_name!r} ({nrows}x{ncols})"
        if [t.tileid for t in tiles] != list(range(len(tiles))):
            errs.append(f"tiles: {where}: tile ids {[t.tileid for t in tiles]} are not 0..{len(tiles) - 1}")
        seen_rows = set()
        total = 0
        for t in tiles:
            if t.tile.identifier not in objs:
                errs.append(f"tiles: {where}: tile object {t.tile.identifier} is missing")
                continue
            tile = objs[t.tile.identifier][2]
            total += tile.numrows
            if tile.numrows != len(tile.rowInfos):
                errs.append(f"tiles: {where}: tile {t.tileid} declares {tile.numrows} rows but stores {len(tile.rowInfos)} row records")
            for ri in tile.rowInfos:
                row = 256 * t.tileid + ri.tile_row_index
                if ri.tile_row_index >= 256 or row in seen_rows or row >= nrows:
                    errs.append(f"tiles: {where}: tile {t.tileid} row index {ri.tile_row_index} (row {row}) is duplicated or out of range")
                seen_rows.add(row)
                e = check_row(ri, ncols)
                if e:
                    errs.append(f"tiles: {where}: row {row}: {e}")
                if len(errs) > 8:
                    return errs
        if total != nrows or seen_rows != set(range(nrows)):
            errs.append(f"tiles: {where}: tiles hold {total} rows {sorted(seen_rows)[:3]}..; declared {nrows}")
    return errs


def check_row(ri, ncols):
    offs = ri.cell_offsets
    if len(offs) % 2:
        return f"offset table of {len(offs)} bytes"
    offsets = struct.unpack(f"<{len(offs) // 2}h", offs)
    if len(offsets) < ncols:
        return f"{len(offsets)} offsets for {ncols} columns"
    if any(o != -1 for o in offsets[ncols:]):
        return f"offsets beyond the last column: {offsets[ncols:][:4]}"
    scale = 4 if ri.has_wide_offsets else 1
    buf = ri.cell_storage_buffer
    present = [(c, o * scale) for c, o in enumerate(offsets[:ncols]) if o != -1]
    if any(o < -1 for o in offsets):
        return f"negative offset {min(offsets)} (int16 overflow?)"
    if ri.cell_count != len(present):
        return f"cell_count {ri.cell_count} but {len(present)} cells present"
    end = 0
    for c, o in present:
        if o % 4:
            return f"column {c}: record at byte {o} is not 4-byte aligned"
        if o < end:
            return f"column {c}: record at byte {o} overlaps the previous record (ends at {end})" if end else f"column {c}: offset {o}"
        ln, why = record_len(buf, o)
        if why:
            return f"column {c}: record at byte {o}: {why}"
        if ln is None:
            end = o + 12
            continue
        end = o + ln
        if end > len(buf):
            return f"column {c}: record at byte {o} of length {ln} ends beyond the buffer ({len(buf)} bytes)"
    if present and end != len(buf) and record_len(buf, present[-1][1])[0] is not None:
        return f"buffer has {len(buf) - end} bytes after the last record"
    return None


# ---------------------------------------------------------------------------------------------------- histories
def build(kind, rnd):
    from datetime import datetime, timedelta
    from numbers_parser import RGB, Border, Document, Style
    if kind.startswith("shape:"):
        nr, nc = map(int, kind[6:].split("x"))
        doc = Document(num_rows=nr, num_cols=nc)
        t = doc.sheets[0].tables[0]
        for r in sorted({0, 1, nr // 2, 254, 255, 256, 257, nr - 1} & set(range(nr))):
            for c in sorted({0, 1, nc // 2, 255, 256, nc - 1} & set(range(nc))):
                t.write(r, c, rnd.choice(["s", 1, 2.5, True, datetime(2020, 1, 1), timedelta(seconds=3)]))
        return doc
    doc = Document(num_rows=6, num_cols=5)
    t = doc.sheets[0].tables[0]
    for r in range(6):
        for c in range(5):
            if rnd.random() < 0.7:
                t.write(r, c, rnd.choice(["text", "", 12, 0.5, False, datetime(2021, 3, 4, 5, 6, 7), timedelta(hours=2)]))
    if kind == "tables":
        doc.add_sheet("Second", "Other", num_rows=3, num_cols=3)
        doc.sheets[0].add_table("Extra", num_rows=2, num_cols=2)
        doc.sheets[1].add_table(num_rows=300, num_cols=3)
        doc.sheets[1].tables[1].write(299, 2, "far")
        doc.add_sheet()
    elif kind == "edits":
        t.add_row(3, 2)
        t.add_column(2, 1)
        t.delete_row(1, 0)
        t.delete_column(1, 4)
        t.write(20, 9, "grown")
    elif kind == "merges":
        t.merge_cells("A1:B2")
        t.merge_cells(["C3:D3", "E1:E4"])
    elif kind == "styles":
        st = doc.add_style(bold=True, italic=True, font_size=14.0, font_color=RGB(10, 20, 30), bg_color=RGB(200, 100, 50), name="Mine")
        t.write(0, 0, "styled", style=st)
        t.set_cell_style(1, 1, st)
        t.set_cell_style(2, 2, doc.add_style(alignment=("right", "bottom"), text_wrap=False, first_indent=2.0))
        t.cell(3, 3).style.underline = True
        t.cell(0, 1).style.bg_color = RGB(1, 2, 3)
    elif kind == "image":
        from numbers_parser import BackgroundImage
        png = bytes.fromhex("89504e470d0a1a0a0000000d4948445200000001000000010806000000 1f15c4890000000d49444154789c6360606060000000050001a5f645400000000049454e44ae426082".replace(" ", ""))
        t.set_cell_style(0, 0, doc.add_style(bg_image=BackgroundImage(png, "dot.png")))
        t.set_cell_style(1, 0, doc.add_style(bg_image=BackgroundImage(png + b"\0", "dot2.png")))   # different data: its own record
        t.set_cell_style(2, 0, doc.add_style(bg_image=BackgroundImage(png, "dot3.png")))            # the first image's data again: shares its record
    elif kind == "formats":
        t.write(0, 0, 1234.5)
        t.set_cell_formatting(0, 0, "number", decimal_places=1, show_thousands_separator=True)
        t.write(0, 1, 0.25)
        t.set_cell_formatting(0, 1, "percentage", decimal_places=0)
        t.write(0, 2, 9.5)
        t.set_cell_formatting(0, 2, "currency", currency_code="EUR")
        t.write(1, 0, datetime(2022, 2, 2, 2, 2, 2))
        t.set_cell_formatting(1, 0, "datetime", date_time_format="yyyy-MM-dd HH:mm")
        t.write(1, 1, 7.0)
        t.set_cell_formatting(1, 1, "custom", format=doc.add_custom_format(name="F1", type="number", integer_format="zeros", num_integers=4))
        t.write(1, 2, "x")
        t.set_cell_formatting(1, 2, "custom", format=doc.add_custom_format(name="F2", type="text", format="<%s>"))
        t.write(1, 3, datetime(2022, 2, 2))
        t.set_cell_formatting(1, 3, "custom", format=doc.add_custom_format(name="F3", type="datetime", format="yyyy"))
    elif kind == "controls":
        t.write(0, 0, True)
        t.set_cell_formatting(0, 0, "tickbox")
        t.write(1, 0, 3)
        t.set_cell_formatting(1, 0, "rating")
        t.write(2, 0, 5)
        t.set_cell_formatting(2, 0, "slider", minimum=0, maximum=10, increment=1)
        t.write(3, 0, 5)
        t.set_cell_formatting(3, 0, "stepper", minimum=0, maximum=10, increment=1)
        t.write(4, 0, "Cat")
        t.set_cell_formatting(4, 0, "popup", popup_values=["Cat", "Dog", 3], allow_none=True)
    elif kind == "borders":
        t.set_cell_border(0, 0, ["top", "left"], Border(2.0, RGB(255, 0, 0), "solid"))
        t.set_cell_border("B2", "right", Border(1.0, RGB(0, 255, 0), "dashes"), 3)
        t.set_cell_border(2, 2, "bottom", Border(0.5, RGB(0, 0, 255), "dots"), 2)
        t.set_cell_border(5, 4, ["bottom", "right"], Border(1.0, RGB(0, 0, 0), "solid"))
    elif kind == "captions":
        t.caption = "a caption"
        t.caption_enabled = True
        t.table_name_enabled = False
        t.name = "Renamed"
        doc.sheets[0].name = "Sheet X"
        t.num_header_rows = 2
        t.num_header_cols = 0
        t.row_height(1, 55)
        t.col_width(2, 123)
    return doc


def template_members():
    from numbers_parser.constants import DEFAULT_DOCUMENT
    return layout.read_members(str(DEFAULT_DOCUMENT))


def run_case(case):
    if case.get("stale_mark"):
        # a source whose recorded high-water mark is lower than its largest identifier (Numbers writes such documents): saved after an edit,
        # no existing object may be overwritten by an object the save created
        sys.path.insert(0, os.path.dirname(os.path.dirname(os.path.abspath(__file__))))
        from contracts import C07_native
        d = C07_native._stale_mark()
        return {"detail": d} if d else {"ok": True, "count": 1}
    import random
    from numbers_parser import Document
    rnd = random.Random(case.get("seed", 0))
    with tempfile.TemporaryDirectory() as td:
        out = os.path.join(td, "saved.numbers")
        with warnings.catch_warnings():
            warnings.simplefilter("ignore")
            if "path" in case:
                doc, why = docsnap.open_quiet(case["path"])
                if doc is None or why == "unsupported-version":
                    return {"ok": True, "count": 1, "distinct": 0}
                src = layout.read_members(case["path"])
                name = os.path.basename(case["path"])
            else:
                doc = build(case["built"], rnd)
                src = template_members()
                name = case["built"]
            try:
                doc.save(out, package=bool(case.get("package")))
            except Exception as e:  # noqa: BLE001
                return {"detail": f"{name}: save raised {type(e).__name__}: {str(e)[:200]}"}
            stages = [(out, src, "saved")]
            if case.get("twice"):
                # a second history step on the reopened document: edit, save again
                try:
                    d2 = Document(out)
                    t2 = d2.sheets[0].tables[0]
                    t2.write(0, 0, "again")
                    t2.add_row(1)
                    d2.sheets[0].add_table()
                    out2 = os.path.join(td, "saved2.numbers")
                    d2.save(out2)
                    stages.append((out2, layout.read_members(out), "saved, reopened, edited, saved again"))
                except Exception as e:  # noqa: BLE001
                    return {"detail": f"{name}: reopen/edit/save raised {type(e).__name__}: {str(e)[:200]}"}
            n = 0
            for path, source, what in stages:
                try:
                    d = Document(path)
                    for s in d.sheets:
                        for t in s.tables:
                            for row in t.rows():
                                for c in row:
                                    c.value  # noqa: B018
                                    n += 1
                except Exception as e:  # noqa: BLE001
                    return {"detail": f"{name} ({what}): the saved document cannot be read back: {type(e).__name__}: {str(e)[:200]}"}
                errs = validate(path, source)
                null0 = [e for e in errs if e.startswith("closure:") and e.endswith("missing objects [0]") and ("TST.TableModelArchive, new" in e or "archive header" in e)]
                others = [e for e in errs if e not in null0]
                if others:
                    return {"detail": f"{name} ({what}): " + " | ".join(others[:4]), "class": others[0].split(":")[0]}
                if null0:
                    return {"detail": f"{name} ({what}): " + " | ".join(null0[:2]), "class": "null-reference-0"}
        return {"ok": True, "count": max(n, 1)}


def main():
    ap = common.std_args()
    ap.add_argument("--level", type=int, default=1)
    a = ap.parse_args()
    big = a.level >= 2
    cases = []
    shapes = ["255x8", "256x8", "257x8", "512x8", "12x256", "12x257", "12x1000"] + (["513x3", "1000x2", "300x300", "2x2", "1x1"] if big else ["1x1"])
    for s in shapes:
        cases.append({"built": "shape:" + s, "seed": a.seed})
    for k in ("tables", "edits", "merges", "styles", "image", "formats", "controls", "borders", "captions"):
        for twice in (False, True):
            cases.append({"built": k, "seed": a.seed + (7 if twice else 0), "twice": twice})
        if big:
            cases.append({"built": k, "seed": a.seed + 3, "package": True})
    fs = docsnap.fixtures()
    if not big:
        fs = sorted(fs, key=lambda f: os.path.getsize(f) if os.path.isfile(f) else 10 ** 9)[:40]
    cases += [{"path": f} for f in fs]
    cases.append({"built": "stale-mark", "stale_mark": True})
    return common.run(cases, run_case, key=lambda c: c.get("path") or c.get("built") + str(c.get("twice")) + str(c.get("package")))


if __name__ == "__main__":
    sys.exit(main())

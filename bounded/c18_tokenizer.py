"""Bounded stand-in for C18: the tokenizer's run-time contract (only TokenizerError, lossless, quoted text whole) over
all short strings of a hostile alphabet + seeded random strings, and (clause 3) over every formula text the library
reports for the fixture documents."""
import glob
import itertools
import os
import random
import sys
import warnings

sys.path.insert(0, os.path.dirname(os.path.dirname(os.path.abspath(__file__))))
from bounded import common  # noqa: E402
from contracts.C18_native import check_formula  # noqa: E402

ALPHABET = list("A1 ()+-*,;\"'#{}=<>≥≤≠×÷&E$!:.%^")


def fixture_formulas(path):
    import numbers_parser
    from numbers_parser import Document
    out = set()
    with warnings.catch_warnings():
        warnings.simplefilter("ignore")
        try:
            doc = Document(path)
        except Exception:  # noqa: BLE001 - unreadable fixtures are C17's business
            return []
        for sheet in doc.sheets:
            for table in sheet.tables:
                for row in table.rows():
                    for cell in row:
                        try:
                            if cell.is_formula and cell.formula is not None:
                                out.add(cell.formula)
                        except Exception:  # noqa: BLE001 - rendering failures are C08's business
                            pass
    return sorted(out)


def run_case(case):
    if case["kind"] == "fixture":
        from numbers_parser.tokenizer import Tokenizer, TokenizerError
        bad = []
        fs = fixture_formulas(case["path"])
        for f in fs:
            try:
                t = Tokenizer(f)
                if "".join(x.value for x in t.items) != f:
                    bad.append({"formula": f, "why": "not lossless"})
            except Exception as e:  # noqa: BLE001
                bad.append({"formula": f, "why": f"{type(e).__name__}: {e}"})
        if bad:
            return {"detail": f"{len(bad)} of {len(fs)} formulas the reader emits for {os.path.basename(case['path'])} "
                              f"are not accepted: {bad[:3]}", "count": len(fs)}
        return {"ok": True, "count": max(1, len(fs))}
    bad = []
    for s in case["strings"]:
        r = check_formula(s)
        if r["violated"]:
            bad.append(r)
    if bad:
        return {"detail": bad[0]["detail"], "formula": bad[0].get("formula"), "n_bad": len(bad)}
    return {"ok": True, "count": len(case["strings"]), "distinct": len(set(case["strings"]))}


def main():
    ap = common.std_args()
    ap.add_argument("--max-len", type=int, default=3)
    ap.add_argument("--random", type=int, default=20000)
    ap.add_argument("--fixtures", type=int, default=16)
    a = ap.parse_args()
    strings = []
    for n in range(0, a.max_len + 1):
        strings += ["".join(t) for t in itertools.product(ALPHABET, repeat=n)]
    rnd = random.Random(a.seed)
    for _ in range(a.random):
        strings.append("".join(rnd.choice(ALPHABET) for _ in range(rnd.randrange(5, 25))))
    chunk = 5000
    cases = [{"kind": "strings", "strings": strings[i:i + chunk]} for i in range(0, len(strings), chunk)]
    import numbers_parser
    data = os.path.join(os.path.dirname(os.path.dirname(os.path.dirname(numbers_parser.__file__))), "tests", "data")
    files = sorted(glob.glob(os.path.join(data, "*.numbers")), key=lambda p: -os.path.getsize(p) if os.path.isfile(p) else 0)
    files = [f for f in files if os.path.getsize(f) > 0 or os.path.isdir(f)]
    if a.fixtures:
        files = files[: a.fixtures]
    cases += [{"kind": "fixture", "path": f} for f in files]
    total = len(strings)
    import json
    rc = common.run(cases, run_case, nontrivial=lambda c: True,
                    key=lambda c: c.get("path") or str(hash(tuple(c["strings"][:50]))))
    return rc


if __name__ == "__main__":
    sys.exit(main())

"""Bounded stand-in for C14: displayed dates and durations agree with the stored value.
Run-time contracts (from the property statement and the documented directive table docs/api/datetime.rst):
  directives : every directive renders the documented field, range and padding - exhaustively over the field it depends on (24 hours, 60
               minutes, 60 seconds, every day of a leap and a common year, 12 months, 7 weekdays, sampled years, sampled sub-seconds);
  composition: literal (non-letter) text and quoted text pass through unchanged ('' is a quote), a format is the concatenation of its parts;
  durations  : the displayed text read back unit by unit equals the duration truncated to the smallest unit shown, for every
               largest/smallest pair, the three styles, and automatic units.
The oracle below is written from the documented meanings, not from the library's table."""
import calendar
import os
import random
import re
import sys
import warnings
from datetime import datetime, timedelta
from types import SimpleNamespace

sys.path.insert(0, os.path.dirname(os.path.dirname(os.path.abspath(__file__))))
from bounded import common  # noqa: E402

DAYS = ["Monday", "Tuesday", "Wednesday", "Thursday", "Friday", "Saturday", "Sunday"]
MONTHS = ["January", "February", "March", "April", "May", "June", "July", "August", "September", "October", "November", "December"]


def doy(v):
    return (v.date() - v.date().replace(month=1, day=1)).days + 1


ORACLE = {
    "a": lambda v: "am" if v.hour < 12 else "pm",
    "EEEE": lambda v: DAYS[v.weekday()], "EEE": lambda v: DAYS[v.weekday()][:3],
    "yyyy": lambda v: f"{v.year:04d}", "yy": lambda v: f"{v.year % 100:02d}", "y": lambda v: f"{v.year:04d}",
    "MMMM": lambda v: MONTHS[v.month - 1], "MMM": lambda v: MONTHS[v.month - 1][:3], "MM": lambda v: f"{v.month:02d}", "M": lambda v: str(v.month),
    "d": lambda v: str(v.day), "dd": lambda v: f"{v.day:02d}",
    "DDD": lambda v: f"{doy(v):03d}", "DD": lambda v: f"{doy(v):02d}", "D": lambda v: str(doy(v)),
    "HH": lambda v: f"{v.hour:02d}", "H": lambda v: str(v.hour),
    "hh": lambda v: f"{(v.hour - 1) % 12 + 1:02d}", "h": lambda v: str((v.hour - 1) % 12 + 1),
    "k": lambda v: str(v.hour if v.hour else 24), "kk": lambda v: f"{v.hour if v.hour else 24:02d}",
    "K": lambda v: str(v.hour % 12), "KK": lambda v: f"{v.hour % 12:02d}",
    "mm": lambda v: f"{v.minute:02d}", "m": lambda v: str(v.minute), "ss": lambda v: f"{v.second:02d}", "s": lambda v: str(v.second),
    "W": lambda v: str((v.day + v.replace(day=1).weekday() - 1) // 7),
    "ww": lambda v: f"{(doy(v) + (v.replace(month=1, day=1).weekday() - 1) % 7) // 7 if False else int(v.strftime('%W')):02d}",
    "G": lambda v: "AD", "F": lambda v: str((v.day - 1) // 7 + 1),
    "S": lambda v: f"{v.microsecond:06d}"[:1], "SS": lambda v: f"{v.microsecond:06d}"[:2], "SSS": lambda v: f"{v.microsecond:06d}"[:3],
    "SSSS": lambda v: f"{v.microsecond:06d}"[:4], "SSSSS": lambda v: f"{v.microsecond:06d}"[:5],
}
# week of the year, Monday first, days before the first Monday are week 0 (documented for ww): independent of strftime
ORACLE["ww"] = lambda v: f"{(doy(v) + 6 - v.weekday()) // 7:02d}"


YEARS_FOR_DATES = (2018, 2021, 2023, 2024, 2019, 2020, 2022, 2025, 2028, 2032, 2000, 1900, 2100, 2200, 2300, 2400, 1600, 1700, 1800, 1896, 1904, 1999, 2001, 2096,
                   2104, 100, 400, 1000, 1582, 4, 1, 9996, 9999)


def field_values(directive):
    base = datetime(2024, 3, 15, 13, 45, 56, 123456)
    if directive in ("a", "HH", "H", "hh", "h", "k", "kk", "K", "KK"):
        return [base.replace(hour=h, minute=m) for h in range(24) for m in (0, 59)]
    if directive in ("mm", "m"):
        return [base.replace(minute=m) for m in range(60)]
    if directive in ("ss", "s"):
        return [base.replace(second=s) for s in range(60)]
    if directive in ("EEEE", "EEE", "d", "dd", "DDD", "DD", "D", "W", "ww", "F", "MMMM", "MMM", "MM", "M"):
        out = []
        # the field is the calendar date: every day of common and leap years starting on each weekday, century years that are and are not
        # leap years (the Gregorian rule), and the ends of the supported range
        for year in YEARS_FOR_DATES:
            d = datetime(year, 1, 1, 10, 30)
            while d.year == year:
                out.append(d)
                try:
                    d += timedelta(days=1)
                except OverflowError:  # 9999-12-31 is the last date
                    break
        return out
    if directive in ("yyyy", "yy", "y", "G"):
        return [base.replace(year=y) for y in (1000, 1066, 1900, 1999, 2000, 2001, 2009, 2010, 2024, 2099, 2100, 9999)]
    if directive.startswith("S"):
        return [base.replace(microsecond=us) for us in (0, 1, 9, 10, 99, 999, 1000, 9999, 10000, 99999, 100000, 123456, 500000, 999999, 900000, 90000, 9000)]
    raise ValueError(directive)


def render(fmt, value):
    from numbers_parser.cell import _decode_date_format
    with warnings.catch_warnings():
        warnings.simplefilter("error")
        return _decode_date_format(fmt, value)


# ------------------------------------------------------------------------------------------------ durations
UNITS = [("week", 1, 604800.0), ("day", 2, 86400.0), ("hour", 4, 3600.0), ("minute", 8, 60.0), ("second", 16, 1.0), ("millisecond", 32, 0.001)]
SIZE_MS = {1: 604800000, 2: 86400000, 4: 3600000, 8: 60000, 16: 1000, 32: 1}
NAME = {1: "week", 2: "day", 4: "hour", 8: "minute", 16: "second", 32: "millisecond"}
ABBR = {1: "w", 2: "d", 4: "h", 8: "m", 16: "s", 32: "ms"}


def duration_text(seconds, style, largest, smallest, auto):
    from numbers_parser.cell import Cell
    fmt = SimpleNamespace(duration_style=style, duration_unit_largest=largest, duration_unit_smallest=smallest, use_automatic_duration_units=auto)
    stub = SimpleNamespace(_model=SimpleNamespace(table_format=lambda t, f: fmt), _table_id=1, _duration_format_id=1, _double=seconds, row=0, col=0)
    return Cell._duration_format(stub)


def parse_duration(text, style, shown):
    """-> {unit: int} for the units in `shown` (largest first), or None if the text does not have that shape"""
    if style == 0:  # compact: h:mm:ss.SSS (units joined by ':', milliseconds after '.')
        parts = re.split(r"[:.]", text)
        seps = re.findall(r"[:.]", text)
        if len(parts) != len(shown) or any(not p.isdigit() for p in parts):
            return None
        for i, s in enumerate(seps):
            want = "." if shown[i + 1] == 32 else ":"
            if s != want:
                return None
        return dict(zip(shown, map(int, parts)))
    toks = text.split(" ")
    out = {}
    if style == 1:  # short: 1w 2d 3h 4m 5s 6ms
        if len(toks) != len(shown):
            return None
        for u, t in zip(shown, toks):
            m = re.fullmatch(r"(\d+)" + ABBR[u], t)
            if not m:
                return None
            out[u] = int(m.group(1))
        return out
    if len(toks) != 2 * len(shown):  # long: 1 week 2 days ...
        return None
    for i, u in enumerate(shown):
        n, word = toks[2 * i], toks[2 * i + 1]
        if not n.isdigit() or word != NAME[u] + ("" if int(n) == 1 else "s"):
            return None
        out[u] = int(n)
    return out


def auto_units(ms):
    """documented behaviour of automatic units: largest = the largest unit the value reaches, smallest = the finest unit it needs"""
    if ms == 0:
        return 2, 2
    largest = next(u for u in (1, 2, 4, 8, 16, 32) if ms >= SIZE_MS[u])
    smallest = next(u for u in (32, 16, 8, 4, 2, 1) if ms % SIZE_MS[u] == 0 and (u == 1 or ms % SIZE_MS[u >> 1 if u > 1 else 1] != 0 or True))
    # the finest unit needed: the coarsest unit that divides the value exactly
    smallest = max((u for u in (1, 2, 4, 8, 16, 32) if ms % SIZE_MS[u] == 0), key=lambda u: SIZE_MS[u])
    return largest, max(smallest, largest)


def check_duration(ms, style, largest, smallest, auto):
    seconds = ms / 1000
    text = duration_text(seconds, style, largest, smallest, auto)
    if auto:
        largest, smallest = auto_units(ms)
    shown = [u for u in (1, 2, 4, 8, 16, 32) if largest <= u <= smallest]
    got = parse_duration(text, style, shown)
    what = f"duration {ms} ms, style {['compact', 'short', 'long'][style]}, units {NAME[largest]}..{NAME[smallest]}{' (automatic)' if auto else ''}"
    if got is None:
        return f"{what}: displayed {text!r} does not show exactly the units {[NAME[u] for u in shown]}"
    total = sum(got[u] * SIZE_MS[u] for u in shown)
    want = ms - ms % SIZE_MS[smallest]
    if total != want:
        return f"{what}: displayed {text!r} reads back as {total} ms, the duration truncated to {NAME[smallest]}s is {want} ms"
    for u in shown[1:]:  # every unit below the largest stays within its range
        if got[u] * SIZE_MS[u] >= SIZE_MS[shown[shown.index(u) - 1]]:
            return f"{what}: displayed {text!r} shows {got[u]} {NAME[u]}s, which is a whole {NAME[shown[shown.index(u) - 1]]} or more"
    return None


def run_case(case):
    kind = case["kind"]
    if kind == "directive":
        d = case["directive"]
        n = 0
        for v in field_values(d):
            n += 1
            try:
                got = render(d, v)
            except Exception as e:  # noqa: BLE001
                return {"detail": f"directive {d!r} at {v.isoformat()}: raised {type(e).__name__}: {e}"}
            want = ORACLE[d](v)
            if got != want:
                return {"detail": f"directive {d!r} at {v.isoformat()}: displayed {got!r}, documented meaning gives {want!r}", "class": f"directive-{d}"}
        return {"ok": True, "count": n}
    if kind == "composition":
        rnd = random.Random(case["seed"])
        n = 0
        for _ in range(case["n"]):
            v = datetime(rnd.choice((1999, 2024, 2031)), rnd.randint(1, 12), rnd.randint(1, 28), rnd.randrange(24), rnd.randrange(60), rnd.randrange(60), rnd.randrange(10 ** 6))
            fmt, want, last = "", "", "sep"
            for _p in range(rnd.randint(1, 7)):
                k = rnd.choice(("dir", "lit", "quote"))
                if (k == "dir" and last == "dir") or (k == "quote" and last == "quote"):
                    k = "lit"  # two directives need a separator; two adjacent quoted strings would read as one with an escaped quote
                if k == "dir":
                    d = rnd.choice(sorted(ORACLE))
                    fmt += d
                    want += ORACLE[d](v)
                elif k == "lit":
                    s = "".join(rnd.choice(" -/:.,;()[]!?0123456789@#%&*+=_~|<>\\\"·–€") for _ in range(rnd.randint(1, 4)))
                    fmt += s
                    want += s
                else:
                    s = "".join(rnd.choice("abc xyzHdMT'1:-é") for _ in range(rnd.randint(0, 6)))
                    if not s or s.strip("'") == "":
                        s = "at"
                    fmt += "'" + s.replace("'", "''") + "'"
                    want += s
                last = k
            n += 1
            try:
                got = render(fmt, v)
            except Exception as e:  # noqa: BLE001
                return {"detail": f"format {fmt!r} at {v.isoformat()}: raised {type(e).__name__}: {e}"}
            if got != want:
                return {"detail": f"format {fmt!r} at {v.isoformat()}: displayed {got!r}, the concatenation of its parts is {want!r}", "class": "composition"}
        return {"ok": True, "count": n}
    # durations
    rnd = random.Random(case["seed"])
    style, largest, smallest, auto = case["style"], case["largest"], case["smallest"], case["auto"]
    ten_years = 10 * 365 * 86400 * 1000
    values = [0, 1, 9, 10, 99, 100, 999, 1000, 1001, 59999, 60000, 60001, 3599999, 3600000, 3600001, 86399999, 86400000, 86400001, 604799999, 604800000,
              604800001, 90061001, 694861001, 1209600000, 36000000, 600000, 10000, 5400000, 129600000, ten_years]
    values += [rnd.randrange(ten_years) for _ in range(case["n"])] + [rnd.randrange(100000) * 1000 for _ in range(case["n"] // 4)] \
        + [rnd.randrange(3000) * 60000 for _ in range(case["n"] // 8)] + [rnd.randrange(500) * 3600000 for _ in range(case["n"] // 8)]
    for ms in values:
        try:
            err = check_duration(ms, style, largest, smallest, auto)
        except Exception as e:  # noqa: BLE001
            err = f"duration {ms} ms, style {style}, units {largest}..{smallest} auto={auto}: raised {type(e).__name__}: {e}"
        if err:
            return {"detail": err, "class": "duration-auto" if auto else f"duration-style{style}"}
    return {"ok": True, "count": len(values)}


def main():
    ap = common.std_args()
    ap.add_argument("--level", type=int, default=1)
    a = ap.parse_args()
    big = a.level >= 2
    cases = [{"kind": "directive", "directive": d} for d in sorted(ORACLE)]
    for s in range(40 if big else 8):
        cases.append({"kind": "composition", "seed": a.seed * 1000 + s, "n": 400})
    us = (1, 2, 4, 8, 16, 32)
    for style in (0, 1, 2):
        for i, lg in enumerate(us):
            for sm in us[i:]:
                cases.append({"kind": "duration", "style": style, "largest": lg, "smallest": sm, "auto": False, "seed": a.seed + lg * 64 + sm, "n": 2000 if big else 300})
        cases.append({"kind": "duration", "style": style, "largest": 1, "smallest": 32, "auto": True, "seed": a.seed + 7, "n": 4000 if big else 600})
    return common.run(cases, run_case)


if __name__ == "__main__":
    sys.exit(main())

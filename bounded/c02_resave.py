"""Bounded stand-in for C02: re-saving an unmodified document preserves everything the library reads.
Run-time contract (from the property statement): open D0; save; open D1; save; open D2.  D1 has the same sheets and tables in the
same order as D0 and, per cell, the same class, value, formula text, formatted value, bullets/hyperlinks and merge state; D2 == D1.
Exceptions: exactly the cells/tables the library warned about while saving (formula-error cells, pivot tables).
Variants: whether read-only accessors (formula, formatted_value, style, border, row_height, col_width) were called before saving."""
import os
import re
import sys
import tempfile
import warnings

sys.path.insert(0, os.path.dirname(os.path.dirname(os.path.abspath(__file__))))
from bounded import common, docsnap  # noqa: E402


def save_collect(doc, path):
    """save; returns (pivot table names, {(table name, row, col)} of cells) the library warned it cannot write"""
    with warnings.catch_warnings(record=True) as w:
        warnings.simplefilter("always")
        doc.save(path)
    pivots, cells = set(), set()
    for x in w:
        m = re.match(r"Not modifying pivot table '(.*)'$", str(x.message), re.S)
        if m:
            pivots.add(m.group(1))
        m = re.match(r"@(.*):\[(\d+),(\d+)\]: unsupported data type (\w+) for save$", str(x.message), re.S)
        if m:
            cells.add((m.group(1), int(m.group(2)), int(m.group(3))))
    return pivots, cells


def touch(doc):
    with warnings.catch_warnings():
        warnings.simplefilter("ignore")
        for s in doc.sheets:
            for t in s.tables:
                for r, row in enumerate(t.rows()):
                    for c in row:
                        for a in ("formula", "formatted_value", "style", "border", "is_merged"):
                            try:
                                getattr(c, a)
                            except Exception:  # noqa: BLE001
                                pass
                    t.row_height(r)
                for c in range(t.num_cols):
                    t.col_width(c)
                t.merge_ranges  # noqa: B018


def compare(a, b, pivots, cells, what):
    """a, b: snapshots; returns None or a description of the first differences outside the exempted cells/tables"""
    if [s["sheet"] for s in a] != [s["sheet"] for s in b]:
        return f"{what}: sheets {[s['sheet'] for s in a]} became {[s['sheet'] for s in b]}"
    out = []
    for sa, sb in zip(a, b):
        if [t["name"] for t in sa["tables"]] != [t["name"] for t in sb["tables"]]:
            return f"{what}: tables of sheet {sa['sheet']!r}: {[t['name'] for t in sa['tables']]} became {[t['name'] for t in sb['tables']]}"
        for ta, tb in zip(sa["tables"], sb["tables"]):
            if ta["name"] in pivots:
                continue
            where = f"{sa['sheet']}/{ta['name']}"
            for k in ("num_rows", "num_cols", "num_header_rows", "num_header_cols", "merge_ranges"):
                if ta[k] != tb[k]:
                    out.append(f"{where}.{k}: {ta[k]!r} became {tb[k]!r}")
            if (ta["num_rows"], ta["num_cols"]) != (tb["num_rows"], tb["num_cols"]):
                continue
            for ra, rb in zip(ta["cells"], tb["cells"]):
                for ca, cb in zip(ra, rb):
                    if (ta["name"], ca["row"], ca["col"]) in cells or ca["cls"] == "ErrorCell":
                        continue
                    for k in ca:
                        if ca[k] != cb.get(k):
                            out.append(f"{where}[{ca['row']},{ca['col']}].{k}: {str(ca[k])[:70]!r} became {str(cb.get(k))[:70]!r}")
                            break
                    if len(out) >= 4:
                        break
                if len(out) >= 4:
                    break
    if out:
        return f"{what}: " + "; ".join(out[:4])
    return None


def build_doc(kind):
    """documents the library itself can produce through its editing API"""
    from datetime import datetime, timedelta
    from numbers_parser import Document
    doc = Document(num_rows=6, num_cols=5)
    t = doc.sheets[0].tables[0]
    if kind == "values":
        vals = ["text", "", 12, 50.0, 0.12, True, False, datetime(2020, 2, 29, 1, 2, 3), timedelta(hours=5, seconds=1), "multi\nline", -52, 1e-7]
        for i, v in enumerate(vals):
            t.write(i // 5, i % 5, v)
    elif kind == "structure":
        doc.add_sheet("Second", "Other", num_rows=3, num_cols=3)
        doc.sheets[0].add_table("Extra", num_rows=300, num_cols=4)
        doc.sheets[0].tables[1].write(299, 3, "far")
        doc.sheets[1].tables[0].write(0, 0, 7)
        t.write(2, 2, "x")
        t.merge_cells("A1:B2")
        t.add_row(2, 3)
        t.delete_column(1, 4)
    elif kind == "headers":
        t.num_header_rows = 2
        t.num_header_cols = 2
        for c in range(5):
            t.write(0, c, f"h{c}")
        for r in range(6):
            t.write(r, 0, f"r{r}")
        t.write(3, 3, 3.25)
    return doc


def run_case(case):
    with tempfile.TemporaryDirectory() as td:
        if case.get("built"):
            src = os.path.join(td, "built.numbers")
            build_doc(case["built"]).save(src)
        else:
            src = case["path"]
        doc, why = docsnap.open_quiet(src)
        if doc is None or why == "unsupported-version":
            return {"ok": True, "count": 1, "distinct": 0}
        if case["touch"]:
            touch(doc)
        s0 = docsnap.snapshot(doc)
        p1, p2 = os.path.join(td, "one.numbers"), os.path.join(td, "two.numbers")
        name = case.get("built") or os.path.basename(src)
        try:
            pivots, cells = save_collect(doc, p1)
        except Exception as e:  # noqa: BLE001
            return {"detail": f"{name}: saving the unmodified document raised {type(e).__name__}: {str(e)[:200]}"}
        try:
            from numbers_parser import Document
            with warnings.catch_warnings():
                warnings.simplefilter("ignore")
                d1 = Document(p1)
        except Exception as e:  # noqa: BLE001
            return {"detail": f"{name}: the re-saved document cannot be opened: {type(e).__name__}: {str(e)[:200]}"}
        s1 = docsnap.snapshot(d1)
        err = compare(s0, s1, pivots, cells, f"{name} (accessors {'called' if case['touch'] else 'not called'} before saving) after one open/save")
        if err:
            return {"detail": err}
        if case["touch"]:
            touch(d1)
        try:
            pivots2, cells2 = save_collect(d1, p2)
            with warnings.catch_warnings():
                warnings.simplefilter("ignore")
                d2 = Document(p2)
        except Exception as e:  # noqa: BLE001
            return {"detail": f"{name}: second save/open raised {type(e).__name__}: {str(e)[:200]}"}
        s2 = docsnap.snapshot(d2)
        err = compare(s1, s2, pivots | pivots2, cells | cells2, f"{name} second open/save cycle")
        if err:
            return {"detail": err}
        n_cells = sum(len(r) for s in s0 for t in s["tables"] for r in t["cells"])
        return {"ok": True, "count": max(1, 2 * n_cells)}


def main():
    ap = common.std_args()
    ap.add_argument("--level", type=int, default=1)
    a = ap.parse_args()
    fs = docsnap.fixtures()
    if a.level < 2:
        # quick: the smaller half of the fixtures (by size) plus every built document
        every = fs
        fs = sorted(fs, key=lambda f: os.path.getsize(f) if os.path.isfile(f) else 10 ** 9)[:45]
        # plus a document with formula-error cells (cells the writer cannot store) in the middle of rows that hold other cells
        fs += [f for f in every if os.path.basename(f) == "create-formulas.numbers" and f not in fs]
    cases = [{"path": f, "touch": tch} for f in fs for tch in (False, True)]
    cases += [{"built": k, "touch": tch} for k in ("values", "structure", "headers") for tch in (False, True)]
    return common.run(cases, run_case, key=lambda c: c.get("path") or c.get("built"))


if __name__ == "__main__":
    sys.exit(main())

"""Bounded stand-in for C20: CSV import followed by CSV export reproduces the cell grid.
Run-time contract (from the property statement), Python's csv module being the reference reader/writer: a well-formed rectangular CSV grid is
converted by csv2numbers (its main(), in process) and exported by cat-numbers -b; the exported grid equals the input grid (after the selected
--whitespace / --reverse / --no-header transformations): text cells identical character for character, cells that are numbers numerically equal,
text resembling a special float (nan, inf) stays text.  The conversion either succeeds or prints a one-line error and exits non-zero; any
other exception is a crash."""
import contextlib
import csv
import io
import math
import os
import random
import re
import sys
import tempfile
import warnings

sys.path.insert(0, os.path.dirname(os.path.dirname(os.path.abspath(__file__))))
from bounded import common  # noqa: E402

SPECIAL = ["nan", "NaN", "NAN", "inf", "-inf", "+inf", "Inf", "INF", "infinity", "-Infinity", "1e400", "-1e999", "nan ", " inf"]
TEXTS = ["", "a", "hello world", "with,comma", 'with "quotes"', "line1\nline2", "cr\rlf", "crlf\r\nend", "tab\there", " leading", "trailing ", "  two  spaces  ",
         "é ü ñ", "日本語", "\U0001F600", "'apostrophe", "=A1+B1", "TRUE", "false", "None", "0x10", "1,2,3,x", "12abc", "1 2", "--5", "1e", "e5", ".", "-", "+", ",",
         "$5", "5%", "1/2", "2020-01-01", "12:30", "\"", "\"\"", "a\"b", ",", ",,", "a,", "\n", "x\n", "null\x00byte"[:4],
         "C:\\temp\\new", "\\d+\\.\\d*", "ends with \\", "back\\\"slash quote", "\\", "\\n not a newline", "\\,", "\ufeffid", "\ufeff12", "mid\ufeffdle", "\u200bzero width", "\xa0nbsp\xa0"]
NUMBERS = ["0", "1", "-1", "+1", "42", "007", "3.14", "-0.5", ".5", "5.", "1,000", "1,234,567.89", "-1,000", "1e3", "1E3", "1.5e-7", "-2.5E+10", "1_000", "1_0.5",
           " 12 ", "12 ", "\t7", "١٢٣", "１２３", "999999999999999", "0.000001", "123456.789", "1e15", "-0", "0.0", "1e-300", "1e300",
           # long digit strings: still numbers (compared as doubles), never a crash
           "12345678901234567890", "1234567890123456789012345678901234", "1" + "0" * 39, "9" * 45, "-" + "7" * 36, "1,234,567,890,123,456,789,012",
           "0.1234567890123456789012345678901234567890", "123456789012345678901234567890.5"]


def is_number(v):
    """a cell is a number if Python reads it (thousands commas removed) as a finite float and it is not a special-float spelling"""
    try:
        f = float(v.replace(",", ""))
    except ValueError:
        return None
    if not math.isfinite(f):
        return None
    if re.fullmatch(r"\s*[+-]?(nan|inf|infinity)\s*", v, re.I):
        return None
    return f


def gen_cell(rnd, hostile):
    k = rnd.random()
    if k < 0.3:
        return rnd.choice(NUMBERS)
    if hostile and k < 0.45:
        return rnd.choice(SPECIAL)
    if k < 0.8:
        return rnd.choice(TEXTS)
    ln = rnd.choice((1, 3, 8))
    return "".join(rnd.choice(["a", "Z", " ", ",", '"', "\n", "é", "0", "7", ".", "-", "\t", "ß", "'", ";", "|", "\U0001F680"]) for _ in range(ln))


def gen_grid(rnd, rows, cols, hostile, distinct_header):
    grid = [[gen_cell(rnd, hostile) for _ in range(cols)] for _ in range(rows)]
    if distinct_header == "names":
        grid[0] = [f"h{i}" + (rnd.choice(["", " x", ",y", '"q"']) if rnd.random() < 0.3 else "") for i in range(cols)]
    elif distinct_header == "unique":
        seen = {}
        for i, c in enumerate(grid[0]):  # arbitrary header cells, made pairwise different
            if c in seen:
                grid[0][i] = c + f" ({i})"
            seen[grid[0][i]] = True
    return grid


def run_main(fn, argv):
    out, err = io.StringIO(), io.StringIO()
    code = 0
    old = sys.argv
    sys.argv = argv
    import numbers_parser._csv2numbers as _c2n
    old_err = _c2n.stderr  # the module binds sys.stderr at import time
    _c2n.stderr = err
    try:
        with contextlib.redirect_stdout(out), contextlib.redirect_stderr(err), warnings.catch_warnings():
            warnings.simplefilter("ignore")
            try:
                fn()
            except SystemExit as e:
                code = e.code if isinstance(e.code, int) else (0 if e.code is None else 1)
    finally:
        sys.argv = old
        _c2n.stderr = old_err
    return code, out.getvalue(), err.getvalue()


def ws(v):
    return re.sub(r"\s+", " ", v.strip())


def run_case(case):
    from numbers_parser._cat_numbers import main as cat_main
    from numbers_parser._csv2numbers import main as csv_main
    rnd = random.Random(case["seed"])
    n = 0
    for _ in range(case["n"]):
        rows, cols = rnd.randint(1, case["max_rows"]), rnd.randint(1, case["max_cols"])
        no_header, whitespace, reverse = rnd.random() < 0.4, rnd.random() < 0.3, rnd.random() < 0.3
        grid = gen_grid(rnd, rows, cols, case["hostile"], distinct_header=case["distinct_header"] if not no_header else None)
        if case.get("blank_edges"):
            # trailing rows / columns that consist only of blank fields are cells of the grid too
            which = rnd.randrange(3)
            if which in (0, 2) and cols >= 2:
                for r in grid[(0 if no_header else 1):]:
                    r[-1] = ""
            if which in (1, 2) and rows >= 2:
                grid[-1] = [""] * cols
        if case.get("first_cell"):
            # characters a decoder may treat specially at the very start of the file
            grid[0][0] = case["first_cell"] + grid[0][0].lstrip("\ufeff")
        if case.get("force_dup") and not no_header and cols >= 2 and rows >= 2:
            grid[0][-1] = grid[0][0]
            grid[1][0], grid[1][-1] = "left", "right"
        dup = (not no_header) and len(set(grid[0])) != len(grid[0])
        with tempfile.TemporaryDirectory() as td:
            src, out = os.path.join(td, "in.csv"), os.path.join(td, "out.numbers")
            with open(src, "w", newline="", encoding="utf-8") as f:
                csv.writer(f, dialect="excel").writerows(grid)
            with open(src, newline="", encoding="utf-8") as f:
                ref = list(csv.reader(f, dialect="excel"))
            if ref != grid:
                continue  # not a grid the reference reader reads back (e.g. a lone CR in an unquoted position): outside "well-formed"
            argv = ["csv2numbers", src, "-o", out] + (["--no-header"] if no_header else []) + (["--whitespace"] if whitespace else []) + (["--reverse"] if reverse else [])
            what = f"grid {grid!r:.300} with options {argv[4:]}"
            try:
                code, so, se = run_main(csv_main, argv)
            except BaseException as e:  # noqa: BLE001
                return {"detail": f"{what}: csv2numbers crashed with {type(e).__name__}: {str(e)[:150]}", "class": "crash"}
            if code != 0:
                lines = [x for x in se.strip().splitlines() if x.strip()]
                if len(lines) != 1:
                    return {"detail": f"{what}: exit status {code} with a {len(lines)}-line message {se[:200]!r}", "class": "error-report"}
                return {"detail": f"{what}: a well-formed grid was rejected: {lines[0][:200]}", "class": "rejected"}
            try:
                code, so, se = run_main(cat_main, ["cat-numbers", "-b", out])
            except BaseException as e:  # noqa: BLE001
                return {"detail": f"{what}: cat-numbers crashed with {type(e).__name__}: {str(e)[:150]}", "class": "crash"}
            if code != 0:
                return {"detail": f"{what}: cat-numbers failed on the converted document: {se[:200]!r}", "class": "export"}
            got = list(csv.reader(io.StringIO(so, newline=""), dialect="excel"))
            header, data = (None, grid) if no_header else (grid[0], grid[1:])
            if whitespace:
                data = [[ws(c) for c in r] for r in data]
            if reverse:
                data = list(reversed(data))
            want = ([header] if header is not None else []) + data
            # the converter starts from a 2x2 document: a smaller grid is padded with empty cells
            wr, wc = max(len(want), 2), max(cols, 2)
            want = [r + [""] * (wc - len(r)) for r in want] + [[""] * wc for _ in range(wr - len(want))]
            if len(got) != len(want) or any(len(a) != len(b) for a, b in zip(got, want)):
                return {"detail": f"{what}: exported grid is {len(got)}x{len(got[0]) if got else 0}, expected {len(want)}x{wc}", "class": "duplicate-header" if dup else "shape"}
            for r, (gr, wr_) in enumerate(zip(got, want)):
                for c, (g, w) in enumerate(zip(gr, wr_)):
                    n += 1
                    num = None if (header is not None and r == 0) else is_number(w)
                    if dup and (g != w):
                        return {"detail": f"{what}: header cells repeat ({[x for x in grid[0] if grid[0].count(x) > 1][:2]!r}): cell ({r},{c}) {w!r} is exported as {g!r}",
                                "class": "duplicate-header"}
                    if num is not None:
                        try:
                            ok = float(g) == num or math.isclose(float(g), num, rel_tol=1e-14)
                        except ValueError:
                            ok = False
                        if not ok:
                            return {"detail": f"{what}: cell ({r},{c}) {w!r} is the number {num!r} but is exported as {g!r}", "class": "number"}
                    elif g != w:
                        return {"detail": f"{what}: cell ({r},{c}) text {w!r} is exported as {g!r}", "class": "special-float" if w.strip().lower().lstrip("+-") in ("nan", "inf", "infinity") else "text"}
    return {"ok": True, "count": max(n, 1)}


def run_edge(case):
    """empty inputs and malformed files: a one-line error and a non-zero status, never a traceback"""
    from numbers_parser._csv2numbers import main as csv_main
    with tempfile.TemporaryDirectory() as td:
        src, out = os.path.join(td, "in.csv"), os.path.join(td, "out.numbers")
        with open(src, "w", newline="", encoding="utf-8") as f:
            f.write(case["content"])
        argv = ["csv2numbers", src, "-o", out] + case["opts"]
        try:
            code, so, se = run_main(csv_main, argv)
        except BaseException as e:  # noqa: BLE001
            return {"detail": f"file content {case['content']!r} with options {case['opts']}: csv2numbers crashed with {type(e).__name__}: {str(e)[:150]}", "class": "crash"}
        if code != 0:
            lines = [x for x in se.strip().splitlines() if x.strip()]
            if len(lines) != 1:
                return {"detail": f"file content {case['content']!r}: exit status {code} with a {len(lines)}-line message {se[:200]!r}", "class": "error-report"}
    return {"ok": True, "count": 1}


def dispatch(case):
    return run_edge(case) if case["kind"] == "edge" else run_case(case)


def main():
    ap = common.std_args()
    ap.add_argument("--level", type=int, default=1)
    a = ap.parse_args()
    big = a.level >= 2
    cases = []
    for s in range(48 if big else 12):
        cases.append({"kind": "grid", "seed": a.seed * 1000 + s, "n": 25, "max_rows": 8 if s % 4 else 40, "max_cols": 5 if s % 4 else 12,
                      "hostile": s % 2 == 0, "distinct_header": "names" if s % 3 else "unique"})
    for s in range(12 if big else 4):
        cases.append({"kind": "grid", "seed": a.seed * 1000 + 500 + s, "n": 12, "max_rows": 6, "max_cols": 5, "hostile": False, "distinct_header": "names",
                      "blank_edges": True})
    cases.append({"kind": "grid", "seed": a.seed * 1000 + 999, "n": 10, "max_rows": 4, "max_cols": 6, "hostile": False, "distinct_header": None, "force_dup": True})
    for i, fc in enumerate(("\ufeff", "\ufeff\ufeff", "\ufffe", "\u200b")):
        cases.append({"kind": "grid", "seed": a.seed * 1000 + 700 + i, "n": 8, "max_rows": 4, "max_cols": 4, "hostile": False, "distinct_header": "names", "first_cell": fc})
    for content in ("", "\n", "a,b\n", "a\n", '"unterminated\n', 'a,"b"x\n', "﻿a,b\n1,2\n", "a,b\n1\n", "a,b\n1,2,3\n"):
        for opts in ([], ["--no-header"]):
            cases.append({"kind": "edge", "content": content, "opts": opts})
    return common.run(cases, dispatch)


if __name__ == "__main__":
    sys.exit(main())

"""Bounded stand-in for C17: damaged or foreign containers.  Run-time contract: Document(path) either yields a document
or raises one of the library's own error types (FileError, FileFormatError, UnsupportedError); nothing else escapes."""
import io
import os
import random
import struct
import sys
import tempfile
import zipfile

sys.path.insert(0, os.path.dirname(os.path.dirname(os.path.abspath(__file__))))
from bounded import common, docsnap, layout  # noqa: E402


def base_members(which):
    import numbers_parser
    from numbers_parser.constants import DEFAULT_DOCUMENT
    if which == "template":
        return layout.read_members(DEFAULT_DOCUMENT)
    return layout.read_members(which)


def zip_bytes(members, method=zipfile.ZIP_DEFLATED):
    bio = io.BytesIO()
    with zipfile.ZipFile(bio, "w", method) as z:
        for n, d in members:
            z.writestr(n, d)
    return bio.getvalue()


def try_open(path):
    from numbers_parser import Document
    from numbers_parser.exceptions import FileError, FileFormatError, UnsupportedError
    import warnings
    with warnings.catch_warnings():
        warnings.simplefilter("ignore")
        try:
            Document(path)
            return None
        except (FileError, FileFormatError, UnsupportedError):
            return None
        except BaseException as e:  # noqa: BLE001
            import traceback
            tb = traceback.extract_tb(e.__traceback__)
            where = [f"{os.path.basename(f.filename)}:{f.lineno}:{f.name}" for f in tb if "numbers_parser" in f.filename][-2:]
            return f"{type(e).__module__}.{type(e).__name__}: {str(e)[:80]} @ {where}"


def zip_records(data):
    """offsets of the structural records of a zip: [('eocd', off, 22)], [('cd', off, 46) ...], [('local', off, 30) ...]"""
    e = data.rfind(b"PK\x05\x06")
    cd_size, cd_off = struct.unpack_from("<II", data, e + 12)
    recs = [("eocd", e, 22)]
    pos = cd_off
    while pos < cd_off + cd_size and data[pos:pos + 4] == b"PK\x01\x02":
        nlen, xlen, clen = struct.unpack_from("<HHH", data, pos + 28)
        recs.append(("cd", pos, 46))
        recs.append(("local", struct.unpack_from("<I", data, pos + 42)[0], 30))
        pos += 46 + nlen + xlen + clen
    return recs


def run_zipstruct(case):
    """every single-bit flip of one structural record (end-of-central-directory, a central directory header, a local header)"""
    members = base_members(case["base"])
    data = zip_bytes(members, zipfile.ZIP_STORED if case.get("stored") else zipfile.ZIP_DEFLATED)
    recs = [r for r in zip_records(data) if r[0] == case["region"]]
    region, off, size = recs[case["entry"] % len(recs)]
    n = 0
    with tempfile.TemporaryDirectory() as td:
        p = os.path.join(td, "d.numbers")
        for b in range(size):
            for k in range(8):
                d2 = bytearray(data)
                d2[off + b] ^= 1 << k
                open(p, "wb").write(bytes(d2))
                n += 1
                err = try_open(p)
                if err:
                    return {"detail": f"{case}: bit {k} of byte +{b} of the {region} record at offset {off} flipped: escaped {err}", "class": "zip-structure"}
    return {"ok": True, "count": n}


def run_case(case):
    if case["kind"] == "zipstruct":
        return run_zipstruct(case)
    members = base_members(case["base"])
    kind = case["kind"]
    with tempfile.TemporaryDirectory() as td:
        p = os.path.join(td, "d.numbers")
        if kind == "missing":
            pass
        elif kind == "suffix":
            p = os.path.join(td, "d.txt")
            open(p, "wb").write(zip_bytes(members))
        elif kind == "truncate":
            data = zip_bytes(members)
            n = int(len(data) * case["frac"])
            open(p, "wb").write(data[:n])
        elif kind == "flip":
            data = bytearray(zip_bytes(members, zipfile.ZIP_STORED if case.get("stored") else zipfile.ZIP_DEFLATED))
            rnd = random.Random(case["seed"])
            for _ in range(case["nflips"]):
                i = rnd.randrange(len(data))
                data[i] ^= 1 << rnd.randrange(8)
            open(p, "wb").write(bytes(data))
        elif kind == "member":
            name, fault = case["member"], case["fault"]
            ms = []
            for n, d in members:
                if n == name:
                    if fault == "empty":
                        d = b""
                    elif fault.startswith("bytes"):
                        d = bytes(range(1, int(fault[5:]) + 1)) if fault[5:] != "0x" else b"\0\0"
                    elif fault == "zeros2":
                        d = b"\0\0"
                    elif fault == "trunc-half":
                        d = d[: len(d) // 2]
                    elif fault == "trunc-3":
                        d = d[:-3] if len(d) > 3 else b""
                    elif fault == "marker":
                        d = b"\x01" + d[1:]
                    elif fault == "length+":
                        ln = struct.unpack("<I", d[1:4] + b"\0")[0]
                        d = d[:1] + struct.pack("<I", ln + 7)[:3] + d[4:]
                    elif fault == "length-":
                        ln = struct.unpack("<I", d[1:4] + b"\0")[0]
                        d = d[:1] + struct.pack("<I", max(0, ln - 5))[:3] + d[4:]
                    elif fault == "garbage-payload":
                        rnd = random.Random(case.get("seed", 0))
                        body = bytes(rnd.randrange(256) for _ in range(40))
                        d = b"\0" + struct.pack("<I", len(body))[:3] + body
                    elif fault == "varint-cut":
                        import snappy
                        body = snappy.compress(b"\x80")
                        d = b"\0" + struct.pack("<I", len(body))[:3] + body
                    elif fault.startswith("plist:"):
                        import plistlib
                        d = {"xml-cut": b"<?xml version='1.0'?><plist><dict><key>fileFormatVersion</key>",
                             "xml-badint": b"<?xml version='1.0'?><plist><dict><key>fileFormatVersion</key><integer>x</integer></dict></plist>",
                             "no-key": plistlib.dumps({"other": 1}), "list": plistlib.dumps([1, 2]),
                             "int-version": plistlib.dumps({"fileFormatVersion": 14}),
                             "bin-no-key": plistlib.dumps({"other": 1}, fmt=plistlib.FMT_BINARY)}[fault[6:]]
                    elif fault == "drop":
                        continue
                ms.append((n, d))
            if fault == "package":
                layout.write_package(ms, p)
            else:
                open(p, "wb").write(zip_bytes(ms))
        elif kind == "encrypted":
            ms = list(members) + [(".iwph", b"x")]
            if case.get("damage"):
                ms = [(n, (b"\0\0" if n == case["damage"] else d)) for n, d in ms]
            open(p, "wb").write(zip_bytes(ms))
        elif kind == "no-iwa":
            ms = [(n, d) for n, d in members if not n.endswith(".iwa")]
            open(p, "wb").write(zip_bytes(ms))
        elif kind == "not-zip":
            open(p, "wb").write(b"this is not a zip file" * case.get("rep", 1))
        err = try_open(p)
    if err:
        return {"detail": f"{case}: escaped {err}"}
    return None


def main():
    ap = common.std_args()
    ap.add_argument("--flips", type=int, default=150)
    ap.add_argument("--truncs", type=int, default=60)
    ap.add_argument("--bases", type=int, default=1)
    a = ap.parse_args()
    bases = ["template"]
    if a.bases > 1:
        common._quiet()
        fx = []
        for f in docsnap.fixtures():
            if os.path.isfile(f) and os.path.getsize(f) < 400000 and docsnap.open_quiet(f)[0] is not None:
                fx.append(f)
            if len(fx) >= a.bases - 1:
                break
        bases += fx
    cases = []
    for b in bases:
        cases += [{"base": b, "kind": k} for k in ("missing", "suffix", "no-iwa", "not-zip", "encrypted")]
        cases += [{"base": b, "kind": "truncate", "frac": (i + 0.5) / a.truncs} for i in range(a.truncs)]
        cases += [{"base": b, "kind": "truncate", "frac": f} for f in (0.0, 0.0001, 0.999, 0.9999)]
        for i in range(a.flips):
            cases.append({"base": b, "kind": "flip", "seed": a.seed * 100000 + i, "nflips": 1 + i % 3, "stored": i % 2 == 0})
        nrec = len(base_members(b))
        if bases.index(b) >= 2:
            entries = []  # structural bit flips on the first two containers only (each record costs ~370 opens)
        elif a.flips <= 150:
            entries = sorted({0, 1, nrec // 2, nrec - 1})
        else:
            entries = sorted(set(range(0, nrec, max(1, nrec // 10))) | {1, nrec - 1})
        if entries:
            cases.append({"base": b, "kind": "zipstruct", "region": "eocd", "entry": 0})
        for e_ in entries:
            cases.append({"base": b, "kind": "zipstruct", "region": "cd", "entry": e_, "stored": e_ % 2 == 0})
            cases.append({"base": b, "kind": "zipstruct", "region": "local", "entry": e_, "stored": e_ % 2 == 1})
        names = [n for n, _ in base_members(b)]
        iwas = [n for n in names if n.endswith(".iwa")]
        for n in iwas[:6] + [x for x in names if x.endswith(".plist")][:2]:
            for fault in ("empty", "bytes1", "bytes2", "bytes3", "zeros2", "trunc-half", "trunc-3", "marker", "length+", "length-",
                          "garbage-payload", "varint-cut", "drop", "package"):
                cases.append({"base": b, "kind": "member", "member": n, "fault": fault})
        for n in iwas[:3]:
            cases.append({"base": b, "kind": "encrypted", "damage": n})
        for n in [x for x in names if x.endswith("Properties.plist")]:
            for fault in ("plist:xml-cut", "plist:xml-badint", "plist:no-key", "plist:list", "plist:int-version", "plist:bin-no-key"):
                cases.append({"base": b, "kind": "member", "member": n, "fault": fault})
    return common.run(cases, run_case)


if __name__ == "__main__":
    sys.exit(main())

"""Bounded stand-in for C06: every fixture that opens is rewritten with meaning-preserving layout choices; run-time
contract: the rewritten file is read as the same document (sheets/tables by name, cell types, values, formulas,
formatted values)."""
import hashlib
import os
import random
import sys
import tempfile
import zipfile

sys.path.insert(0, os.path.dirname(os.path.dirname(os.path.abspath(__file__))))
from bounded import common, docsnap, layout  # noqa: E402

VARIANTS = ["lists-reversed", "lists-shuffled", "zip-reversed-stored", "zip-deflated", "package", "rechunk-1k",
            "rechunk-random", "rechunk-one", "offsets-switched", "offsets-mixed", "empty-row-headers", "empty-row-records"]


def build_variant(members, variant, out, seed):
    if variant == "lists-reversed":
        layout.write_zip(layout.permute_lists(members, "reverse"), out)
    elif variant == "lists-shuffled":
        layout.write_zip(layout.permute_lists(members, "shuffle", seed), out)
    elif variant == "zip-reversed-stored":
        layout.write_zip(members, out, zipfile.ZIP_STORED, reverse=True)
    elif variant == "zip-deflated":
        layout.write_zip(members, out, zipfile.ZIP_DEFLATED)
    elif variant == "package":
        layout.write_package(members, out)
    elif variant == "rechunk-1k":
        layout.write_zip([(n, layout.rechunk(d, 1024) if n.endswith(".iwa") else d) for n, d in members], out)
    elif variant == "rechunk-one":
        # one chunk per member: compressed chunks larger than 64 KiB exercise the whole 3-byte length field
        layout.write_zip([(n, layout.rechunk(d, 1 << 30) if n.endswith(".iwa") else d) for n, d in members], out)
    elif variant == "rechunk-random":
        rnd = random.Random(seed)
        layout.write_zip([(n, layout.rechunk(d, 70000, rnd) if n.endswith(".iwa") else d) for n, d in members], out)
    elif variant == "offsets-switched":
        layout.write_zip(layout.switch_offsets(members), out)
    elif variant == "offsets-mixed":
        layout.write_zip(layout.switch_offsets(members, every=2), out)
    elif variant == "empty-row-headers":
        ms, added = layout.add_empty_row_headers(members)
        layout.write_zip(ms, out)
        return added
    elif variant == "tile-refs-reversed":
        ms, n = layout.reverse_tile_refs(members)
        layout.write_zip(ms, out)
        return n
    elif variant == "empty-row-records":
        ms, added = layout.add_empty_row_records(members)
        layout.write_zip(ms, out)
        return added
    else:
        raise ValueError(variant)
    return 1


def built_large(td):
    """a document the library writes itself whose table archive is larger than one 64 KiB chunk (700 x 8 text cells)"""
    import warnings
    from numbers_parser import Document
    with warnings.catch_warnings():
        warnings.simplefilter("ignore")
        doc = Document(num_rows=700, num_cols=8)
        t = doc.sheets[0].tables[0]
        for r in range(700):
            for c in range(8):
                t.write(r, c, hashlib.sha256(f"{r}.{c}".encode()).hexdigest()[: 24 + (r + c) % 40])  # text snappy cannot shrink much
        p = os.path.join(td, "large.numbers")
        doc.save(p)
    return p


def run_case(case):
    if case["path"] == "built:large":
        with tempfile.TemporaryDirectory() as td0:
            return run_case(dict(case, path=built_large(td0), name="built:large (700x8 text table)"))
    path, variant = case["path"], case["variant"]
    doc, why = docsnap.open_quiet(path)
    if doc is None:
        if case.get("name"):  # a document the library has just written itself
            return {"detail": f"{case['name']}: the library cannot read the document it has just written (layout: its own 64 KiB chunking)", "variant": variant}
        return {"ok": True, "count": 1, "distinct": 0}
    base = docsnap.snapshot(doc)
    members = layout.read_members(path)
    with tempfile.TemporaryDirectory() as td:
        out = os.path.join(td, "v.numbers")
        n_changed = build_variant(members, variant, out, case.get("seed", 0))
        if not n_changed:
            return {"ok": True, "count": 1, "distinct": 0}  # the variant does not differ from the original here
        doc2, why2 = docsnap.open_quiet(out)
        if doc2 is None:
            return {"detail": f"{case.get('name') or os.path.basename(path)} [{variant}]: the rewritten container cannot be opened", "variant": variant}
        snap2 = docsnap.snapshot(doc2)
    d = docsnap.diff(base, snap2)
    if d:
        return {"detail": f"{case.get('name') or os.path.basename(path)} [{variant}]: read differently: {d[:3]}", "variant": variant}
    return {"ok": True, "count": 1}


def main():
    ap = common.std_args()
    ap.add_argument("--fixtures", type=int, default=10)
    a = ap.parse_args()
    fs = docsnap.fixtures()
    pref = ["test-1.numbers", "test-bullets.numbers", "test-hlinks.numbers", "test-formats.numbers", "issue-3.numbers",
            "test-styles.numbers", "test-merges.numbers", "simple-func.numbers", "test-custom-formats.numbers", "test-7.numbers"]
    fs.sort(key=lambda f: (pref.index(os.path.basename(f)) if os.path.basename(f) in pref else 99, os.path.getsize(f) if os.path.isfile(f) else 10 ** 9))
    if a.fixtures:
        fs = fs[: a.fixtures]
    cases = [{"path": f, "variant": v, "seed": a.seed} for f in fs for v in VARIANTS]
    # fixtures that have rows without a record in their tiles: the same table with an explicit (cell-less) record for each of them
    extra = [f for f in docsnap.fixtures() if os.path.basename(f) in ("issue-14.numbers", "test-empty-rows.numbers", "issue-73.numbers") and f not in fs]
    cases += [{"path": f, "variant": "empty-row-records", "seed": a.seed} for f in extra]
    cases += [{"path": "built:large", "variant": v, "seed": a.seed} for v in ("rechunk-one", "rechunk-1k", "rechunk-random", "package", "zip-reversed-stored", "tile-refs-reversed")]
    return common.run(cases, run_case)


if __name__ == "__main__":
    sys.exit(main())

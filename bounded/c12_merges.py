"""Bounded stand-in for C12: merged regions on the open document and after reload.
Run-time contract (from the property statement): after merging a rectangle, its top-left cell reports is_merged with
the rectangle's size; every other cell of the rectangle is a merged placeholder with no value that reports the
rectangle; cells outside are untouched; merge_ranges is exactly the set of merged rectangles; same picture after
save/reopen, also when rows/columns are inserted or deleted after the merge."""
import itertools
import os
import random
import sys
import tempfile

sys.path.insert(0, os.path.dirname(os.path.dirname(os.path.abspath(__file__))))
from bounded import common  # noqa: E402


def a1(r, c):
    from numbers_parser import xl_rowcol_to_cell
    return xl_rowcol_to_cell(r, c)


def rng(rect):
    r0, c0, r1, c1 = rect
    return f"{a1(r0, c0)}:{a1(r1, c1)}"


def picture(table, rects, values, where):
    """check the statement's picture for `rects` (list of (r0,c0,r1,c1)) on `table`; values: dict (r,c)->value outside"""
    from numbers_parser import MergedCell
    inside = {}
    for rect in rects:
        r0, c0, r1, c1 = rect
        for r in range(r0, r1 + 1):
            for c in range(c0, c1 + 1):
                inside[(r, c)] = rect
    for r in range(table.num_rows):
        for c in range(table.num_cols):
            cell = table.cell(r, c)
            rect = inside.get((r, c))
            if rect is None:
                if isinstance(cell, MergedCell) or cell.is_merged:
                    return f"{where}: cell ({r},{c}) outside every merged rectangle reports merge state"
                if (r, c) in values and cell.value != values[(r, c)]:
                    return f"{where}: cell ({r},{c}) outside the merge changed value to {cell.value!r}"
                continue
            r0, c0, r1, c1 = rect
            if (r, c) == (r0, c0):
                if not cell.is_merged or tuple(cell.size) != (r1 - r0 + 1, c1 - c0 + 1):
                    return f"{where}: top-left ({r},{c}) of {rng(rect)} reports is_merged={cell.is_merged} size={getattr(cell, 'size', None)}"
            else:
                if not isinstance(cell, MergedCell):
                    return f"{where}: cell ({r},{c}) inside {rng(rect)} is a {type(cell).__name__}, not a merged placeholder"
                if cell.value is not None:
                    return f"{where}: placeholder ({r},{c}) has value {cell.value!r}"
                if tuple(cell.rect) != tuple(rect) or cell.merge_range != rng(rect):
                    return f"{where}: placeholder ({r},{c}) reports rect {cell.rect} / {cell.merge_range}, expected {rect} / {rng(rect)}"
    exp = sorted(rng(x) for x in rects)
    if list(table.merge_ranges) != exp:
        return f"{where}: merge_ranges {table.merge_ranges} != {exp}"
    return None


def shift(rects, op, n_rows, n_cols):
    """rectangles after a row/column insertion/deletion that does not cut through them"""
    kind, at = op
    out = []
    for (r0, c0, r1, c1) in rects:
        if kind == "del_tail_rows":      # the last `at` rows are removed: a rectangle lying entirely inside them goes with its cells
            if r0 >= n_rows - at:
                continue
            out.append((r0, c0, r1, c1))
        elif kind == "del_tail_cols":
            if c0 >= n_cols - at:
                continue
            out.append((r0, c0, r1, c1))
        elif kind == "add_row":
            d = 1 if at <= r0 else 0
            out.append((r0 + d, c0, r1 + d, c1))
        elif kind == "del_row":
            d = -1 if at < r0 else 0
            out.append((r0 + d, c0, r1 + d, c1))
        elif kind == "add_col":
            d = 1 if at <= c0 else 0
            out.append((r0, c0 + d, r1, c1 + d))
        elif kind == "del_col":
            d = -1 if at < c0 else 0
            out.append((r0, c0 + d, r1, c1 + d))
    return out


def describe(op):
    """edits that move a rectangle (the open finding F-C12-2 is about those) are worded ' then [op]'; removing the table's last rows / columns
    together with a rectangle they hold entirely is a different history"""
    if op[0] == "del_tail_rows":
        return f", followed by removal of the last {op[1]} row(s) holding a whole rectangle"
    if op[0] == "del_tail_cols":
        return f", followed by removal of the last {op[1]} column(s) holding a whole rectangle"
    return f" then {op}"


def parse_rng(text):
    from numbers_parser import xl_cell_to_rowcol
    a, b = text.split(":")
    (r0, c0), (r1, c1) = xl_cell_to_rowcol(a), xl_cell_to_rowcol(b)
    return (r0, c0, r1, c1)


def run_fixture(case):
    """history that starts from a document authored in Numbers which already holds merged rectangles: merge one more disjoint
    rectangle with the library, save, reopen - the old rectangles and the new one are all there"""
    import warnings
    from numbers_parser import Document
    from bounded import docsnap
    if case["fixture"] == "built:merged":
        # a document the library wrote itself (merge map, no dependency records), loaded again
        with tempfile.TemporaryDirectory() as td0:
            d0 = Document(num_rows=5, num_cols=5)
            t0 = d0.sheets[0].tables[0]
            for r in range(5):
                for c in range(5):
                    t0.write(r, c, f"v{r}.{c}")
            t0.merge_cells("B2:C3")
            p0 = os.path.join(td0, "own.numbers")
            d0.save(p0)
            return run_fixture(dict(case, fixture=p0))
    doc, why = docsnap.open_quiet(case["fixture"])
    if doc is None or why == "unsupported-version":
        return None  # a document the library itself declares unsupported (its version warning): outside the property
    with warnings.catch_warnings():
        warnings.simplefilter("ignore")
        t = doc.sheets[case["sheet"]].tables[case["table"]]
        old = [parse_rng(x) for x in t.merge_ranges]
        if not old:
            return {"detail": f"{os.path.basename(case['fixture'])}: the fixture no longer reports its merged rectangles"}
        free = [(r, c, r + dr, c + dc) for dr, dc in ((0, 1), (1, 0), (1, 1)) for r in range(t.num_rows - dr) for c in range(t.num_cols - dc)
                if all(disjoint((r, c, r + dr, c + dc), x) for x in old)]
        if not free:
            return None
        new = free[case["pick"] % len(free)]
        what = f"{os.path.basename(case['fixture'])} [{t.name}] (already merged: {[rng(x) for x in old]}) after merging {rng(new)}"
        extra = vals = None
        if case.get("add_table"):
            # a table added to the same sheet is a table of its own: none of the loaded table's rectangles, every written value kept
            extra = doc.sheets[case["sheet"]].add_table("Added by the check", num_rows=t.num_rows + 1, num_cols=t.num_cols + 1)
            vals = {}
            for r in range(extra.num_rows):
                for c in range(extra.num_cols):
                    extra.write(r, c, f"n{r}.{c}")
                    vals[(r, c)] = f"n{r}.{c}"
            err = picture(extra, [], vals, f"open document: table added next to {os.path.basename(case['fixture'])} [{t.name}] (merged: {[rng(x) for x in old]})")
            if err:
                return {"detail": err, "class": "added-table"}
        t.merge_cells(rng(new))
        err = picture(t, old + [new], {}, f"open document {what}")
        if err:
            return {"detail": err}
        with tempfile.TemporaryDirectory() as td:
            p = os.path.join(td, "f.numbers")
            doc.save(p)
            d2 = Document(p)
            t2 = d2.sheets[case["sheet"]].tables[case["table"]]
            err = picture(t2, old + [new], {}, f"reopened {what}")
            if err:
                return {"detail": err, "class": "loaded-document"}
            if extra is not None:
                err = picture(d2.sheets[case["sheet"]].tables[-1], [], vals, f"reopened: table added next to {os.path.basename(case['fixture'])} [{t.name}] (merged: {[rng(x) for x in old]})")
                if err:
                    return {"detail": err, "class": "added-table"}
    return None


def run_case(case):
    if "fixture" in case:
        return run_fixture(case)
    from numbers_parser import Document
    n = case["size"]
    doc = Document(num_rows=n, num_cols=n)
    t = doc.sheets[0].tables[0]
    values = {}
    for r in range(n):
        for c in range(n):
            t.write(r, c, f"v{r}.{c}")
            values[(r, c)] = f"v{r}.{c}"
    rects = [tuple(x) for x in case["rects"]]
    if case.get("as_list"):
        t.merge_cells([rng(x) for x in rects])
    else:
        for x in rects:
            t.merge_cells(rng(x))
    outside = {k: v for k, v in values.items() if not any(x[0] <= k[0] <= x[2] and x[1] <= k[1] <= x[3] for x in rects)}
    err = picture(t, rects, outside, f"open document after merging {[rng(x) for x in rects]}")
    if err:
        return {"detail": err}
    if case.get("write_after"):
        # writing a value into the top-left cell (and into a cell outside) keeps the merge picture
        for (r0, c0, r1, c1) in rects:
            t.write(r0, c0, "w")
            if (c0, r0) in outside and c0 < n and r0 < n:
                t.write(c0, r0, "o")
                outside[(c0, r0)] = "o"
        err = picture(t, rects, outside, f"open document after merging {[rng(x) for x in rects]} then writing into the top-left cell")
        if err:
            return {"detail": err}
    op = case.get("then")
    if op:
        kind, at = op
        {"add_row": lambda: t.add_row(1, at), "del_row": lambda: t.delete_row(1, at), "add_col": lambda: t.add_column(1, at),
         "del_col": lambda: t.delete_column(1, at), "del_tail_rows": lambda: t.delete_row(at), "del_tail_cols": lambda: t.delete_column(at)}[kind]()
        rects = shift(rects, op, n, n)
        err = picture(t, rects, {}, f"open document after merging {[rng(tuple(x)) for x in case['rects']]}{describe(op)}")
        if err:
            return {"detail": err}
    if case.get("second"):
        # history: save, then merge more rectangles on the SAME open document, then save again and reopen
        more = [tuple(x) for x in case["second"]]
        with tempfile.TemporaryDirectory() as td:
            doc.save(os.path.join(td, "first.numbers"))
            for x in more:
                t.merge_cells(rng(x))
            rects2 = rects + more
            what = f"merging {[rng(x) for x in rects]}, saving, merging {[rng(x) for x in more]}"
            err = picture(t, rects2, {}, f"open document after {what}")
            if err:
                return {"detail": err}
            p2 = os.path.join(td, "second.numbers")
            doc.save(p2)
            err = picture(Document(p2).sheets[0].tables[0], rects2, {}, f"reopened after {what}, saving again")
            if err:
                return {"detail": err, "class": "multi-save"}
            # and once more: an unchanged third save
            p3 = os.path.join(td, "third.numbers")
            doc.save(p3)
            err = picture(Document(p3).sheets[0].tables[0], rects2, {}, f"reopened after {what}, saving twice more")
            if err:
                return {"detail": err, "class": "multi-save"}
        return None
    if case.get("reopen", True):
        with tempfile.TemporaryDirectory() as td:
            p = os.path.join(td, "m.numbers")
            doc.save(p)
            t2 = Document(p).sheets[0].tables[0]
            err = picture(t2, rects, {} if op else outside, f"reopened after merging {[rng(tuple(x)) for x in case['rects']]}" + (describe(op) if op else ""))
            if err:
                return {"detail": err}
    return None


def all_rects(n):
    return [(r0, c0, r1, c1) for r0 in range(n) for c0 in range(n) for r1 in range(r0, n) for c1 in range(c0, n)
            if (r1, c1) != (r0, c0)]


def disjoint(a, b):
    return a[2] < b[0] or b[2] < a[0] or a[3] < b[1] or b[3] < a[1]


def main():
    ap = common.std_args()
    ap.add_argument("--size", type=int, default=4)
    ap.add_argument("--pairs", type=int, default=60)
    ap.add_argument("--edits", type=int, default=40)
    a = ap.parse_args()
    rnd = random.Random(a.seed)
    n = a.size
    rects = all_rects(n)
    cases = [{"size": n, "rects": [list(x)]} for x in rects]
    cases += [{"size": n, "rects": [list(x)], "write_after": True, "reopen": i % 4 == 0} for i, x in enumerate(rects)]
    pairs = [(x, y) for x, y in itertools.combinations(rects, 2) if disjoint(x, y)]
    rnd.shuffle(pairs)
    for x, y in pairs[: a.pairs]:
        cases.append({"size": n, "rects": [list(x), list(y)], "as_list": rnd.random() < 0.5})
    # two-stage histories: every ordered pair from a sample of disjoint rectangles (the later merge before / after / between the earlier ones)
    for x, y in pairs[: a.pairs]:
        cases.append({"size": n, "rects": [list(x)], "second": [list(y)]})
        cases.append({"size": n, "rects": [list(y)], "second": [list(x)]})
    triples = [(x, y, z) for (x, y) in pairs[:40] for z in rects[::7] if disjoint(x, z) and disjoint(y, z)]
    for x, y, z in triples[:30]:
        cases.append({"size": n, "rects": [list(y)], "second": [list(x), list(z)]})
    edits = []
    for x in rects:
        r0, c0, r1, c1 = x
        for op in (("add_row", 0), ("add_row", r0), ("del_row", 0), ("add_col", 0), ("del_col", 0), ("add_row", n - 1), ("del_col", n - 1)):
            kind, at = op
            # only edits that do not cut through the rectangle and leave the table non-empty
            if kind in ("del_row",) and r0 <= at <= r1:
                continue
            if kind in ("del_col",) and c0 <= at <= c1:
                continue
            if kind == "add_row" and r0 < at <= r1:
                continue
            if kind == "add_col" and c0 < at <= c1:
                continue
            edits.append({"size": n, "rects": [list(x)], "then": list(op)})
    rnd.shuffle(edits)
    cases += edits[: a.edits]
    # the trailing rows / columns that hold a whole rectangle (and nothing of another one) are deleted: it disappears with its cells
    for x, y in pairs[:12]:
        lo, hi = (x, y) if x[0] <= y[0] else (y, x)
        if hi[0] > lo[2]:
            cases.append({"size": n, "rects": [list(lo), list(hi)], "then": ["del_tail_rows", n - hi[0]]})
        lo, hi = (x, y) if x[1] <= y[1] else (y, x)
        if hi[1] > lo[3]:
            cases.append({"size": n, "rects": [list(lo), list(hi)], "then": ["del_tail_cols", n - hi[1]]})
    # documents authored in Numbers that already hold merged rectangles (merge owner records + region map)
    import numbers_parser
    data = os.path.join(os.path.dirname(os.path.dirname(os.path.dirname(numbers_parser.__file__))), "tests", "data")
    for name, sheet, table in (("test-4.numbers", 0, 0), ("test-9.numbers", 0, 0), ("test-9.numbers", 1, 0), ("issue-77.numbers", 0, 0),
                               ("issue-18.numbers", 0, 0), ("test-titles.numbers", 0, 0)):
        f = os.path.join(data, name)
        if os.path.exists(f):
            for pick in (0, 3, 11):
                cases.append({"fixture": f, "sheet": sheet, "table": table, "pick": pick, "add_table": pick == 3})
    for pick in (0, 3):
        cases.append({"fixture": "built:merged", "sheet": 0, "table": 0, "pick": pick, "add_table": True})
    return common.run(cases, run_case)


if __name__ == "__main__":
    sys.exit(main())

"""Bounded stand-in for C05: IWA decode/encode over the fixture corpus and synthetic archives.
Run-time contract (from the property statement): decoding a well-formed IWA file and encoding the result reproduces the same
archive stream (same segments in order, identical headers and message bytes incl. unknown fields); the decoded content does
not depend on chunk boundaries; every encoded file obeys the container rules (marker 0, 3-byte length == payload length,
<= 64 KiB of data per chunk, header lengths == message sizes)."""
import os
import random
import struct
import sys

sys.path.insert(0, os.path.dirname(os.path.dirname(os.path.abspath(__file__))))
from bounded import common, docsnap, layout  # noqa: E402

import snappy  # noqa: E402


def frames(data):
    """independent parse of the chunk framing -> list of (payload, uncompressed)"""
    out = []
    p = 0
    while p < len(data):
        if data[p] != 0:
            raise ValueError(f"chunk marker {data[p]} at {p}")
        ln = struct.unpack("<I", data[p + 1:p + 4] + b"\0")[0]
        payload = data[p + 4:p + 4 + ln]
        if len(payload) != ln:
            raise ValueError("length field does not match the payload")
        try:
            u = snappy.uncompress(payload)
        except Exception:  # noqa: BLE001
            u = payload
        out.append((payload, u))
        p += 4 + ln
    return out


def varint(buf, pos):
    shift = val = 0
    while True:
        b = buf[pos]
        pos += 1
        val |= (b & 0x7F) << shift
        if not b & 0x80:
            return val, pos
        shift += 7


def segments(stream):
    """independent split of an archive stream into (header_bytes, [message_bytes]) using only the ArchiveInfo lengths"""
    from numbers_parser.generated.TSPArchiveMessages_pb2 import ArchiveInfo
    out = []
    pos = 0
    while pos < len(stream):
        hl, pos = varint(stream, pos)
        hb = stream[pos:pos + hl]
        pos += hl
        info = ArchiveInfo.FromString(hb)
        msgs = []
        for mi in info.message_infos:
            msgs.append(stream[pos:pos + mi.length])
            pos += mi.length
        out.append((hb, msgs))
    return out


def check_member(name, data):
    from numbers_parser.iwafile import IWAFile, is_iwa_file
    if not is_iwa_file(data):
        return None, 0
    try:
        fr = frames(data)
    except ValueError:
        return None, 0
    stream = b"".join(u for _, u in fr)
    try:
        segs = segments(stream)
    except Exception:  # noqa: BLE001
        return None, 0  # not a well-formed archive stream (outside the property)
    try:
        f = IWAFile.from_buffer(data, name)
    except Exception as e:  # noqa: BLE001
        return f"{name}: decoding a well-formed IWA file raised {type(e).__name__}: {e}", 1
    out = f.to_buffer()
    try:
        fr2 = frames(out)
    except ValueError as e:
        return f"{name}: encoded file violates the container rules: {e}", 1
    for payload, u in fr2:
        if len(u) > 65536:
            return f"{name}: encoded chunk carries {len(u)} bytes (> 64 KiB)", 1
    stream2 = b"".join(u for _, u in fr2)
    try:
        segs2 = segments(stream2)
    except Exception as e:  # noqa: BLE001
        return f"{name}: re-encoded stream is not a sequence of segments whose header lengths match: {type(e).__name__}: {e}", 1
    if len(segs) != len(segs2):
        return f"{name}: {len(segs)} segments became {len(segs2)}", 1
    for i, ((h1, m1), (h2, m2)) in enumerate(zip(segs, segs2)):
        if h1 != h2:
            return f"{name}: segment {i}: header bytes changed by decode/encode", 1
        if m1 != m2:
            j = next(k for k, (a, b) in enumerate(zip(m1, m2)) if a != b) if len(m1) == len(m2) else -1
            return f"{name}: segment {i}: message {j} bytes changed by decode/encode ({m1[j][:12].hex() if j >= 0 else ''} -> {m2[j][:12].hex() if j >= 0 else ''})", 1
    if stream2 != stream:
        return f"{name}: archive stream changed by decode/encode", 1
    # chunking independence: re-chunk at other boundaries, decoded content must be the same
    for size in (1000, 65536, 7):
        if size == 7 and len(stream) > 4000:
            continue
        alt = layout.rechunk(data, size)
        try:
            f2 = IWAFile.from_buffer(alt, name)
        except Exception as e:  # noqa: BLE001
            return f"{name}: re-chunked at {size}: decoding raised {type(e).__name__}: {e}", 1
        if f2.to_buffer() != out:
            return f"{name}: decoded content depends on chunk boundaries (re-chunked at {size})", 1
    return None, 1


def run_case(case):
    if case["kind"] == "fixture":
        n = 0
        try:
            members = layout.read_members(case["path"])
        except Exception:  # noqa: BLE001 - fixtures that are not containers at all (C17's business)
            return {"ok": True, "count": 1, "distinct": 0}
        for name, data in members:
            if name.endswith(".iwa"):
                err, k = check_member(f"{os.path.basename(case['path'])}:{name}", data)
                n += k
                if err:
                    return {"detail": err}
        return {"ok": True, "count": max(1, n)}
    if case["kind"] == "synthetic":
        return synthetic(case)
    if case["kind"] == "merge":
        return merge_segment(case)
    return None


def synthetic(case):
    """an archive with one segment whose message carries a large unknown field of `size` bytes"""
    from numbers_parser.iwafile import IWAFile
    from numbers_parser.generated.TSPArchiveMessages_pb2 import ArchiveInfo, MessageInfo
    from numbers_parser.generated import TSPMessages_pb2 as TSP
    rnd = random.Random(case["seed"])
    size = case["size"]
    nseg = case.get("segments", 1)
    if case.get("snappy_block"):
        return snappy_block(case, rnd)
    stream = b""
    for s in range(nseg):
        nmsg = case.get("messages", 1)
        msgs = []
        for m in range(nmsg):
            body = bytes(rnd.randrange(256) for _ in range(size)) if case.get("random", True) else bytes(size)
            # unknown field 1000 (length-delimited) inside a TSP.Reference message + a known field
            from numbers_parser.generated.mapping import ID_NAME_MAP
            tid = next(t for t in sorted(ID_NAME_MAP) if ID_NAME_MAP[t]().IsInitialized())
            known = ID_NAME_MAP[tid]().SerializeToString()
            tag = (19000 << 3 | 2)  # a field number no bundled schema uses: must survive as an unknown field
            unk = _varint(tag) + _varint(len(body)) + body
            msgs.append(known + unk)
        info = ArchiveInfo(identifier=100 + s)
        for i, mb in enumerate(msgs):
            mi = info.message_infos.add()
            mi.type = tid
            mi.version.extend([1, 0, 5])
            mi.length = len(mb)
        if case.get("header_len"):
            # a segment header of an exact byte length (around the 1-byte / 2-byte / 3-byte boundaries of its varint length prefix)
            while info.ByteSize() < case["header_len"]:
                info.message_infos[0].version.append(1)
            if info.ByteSize() != case["header_len"]:
                info.message_infos[0].version.append(300)  # a two-byte element bridges a skipped size
                del info.message_infos[0].version[-3:-1]
                while info.ByteSize() < case["header_len"]:
                    info.message_infos[0].version.append(1)
            if info.ByteSize() != case["header_len"]:
                return {"detail": f"harness: cannot build a header of {case['header_len']} bytes (got {info.ByteSize()})"}
        hb = info.SerializeToString()
        stream += _varint(len(hb)) + hb + b"".join(msgs)
    data = b""
    s2 = stream
    if case.get("cuts"):
        # the same stream cut at arbitrary boundaries, including repeated ones (chunks that decompress to nothing)
        n = len(stream)
        bounds = {"empty-lead": [0, 0, n], "empty-trail": [0, n, n], "empty-mid": [0, n // 2, n // 2, n], "empty-seg": [0, len(_varint(len(hb)) + hb), len(_varint(len(hb)) + hb), n],
                  "many": sorted([0, n] + [rnd.randrange(n + 1) for _ in range(6)] + [n // 3, n // 3])}[case["cuts"]]
        for lo, hi in zip(bounds, bounds[1:]):
            p = snappy.compress(stream[lo:hi])
            data += b"\0" + struct.pack("<I", len(p))[:3] + p
        s2 = b""
    while s2:
        p = snappy.compress(s2[:65536])
        data += b"\0" + struct.pack("<I", len(p))[:3] + p
        s2 = s2[65536:]
    err, k = check_member(f"synthetic(size={size},segments={nseg},messages={case.get('messages', 1)},cuts={case.get('cuts')})", data)
    if err:
        return {"detail": err}
    return {"ok": True, "count": 1} if k else {"detail": f"synthetic archive of size {size} was not recognised as IWA"}


def snappy_block(case, rnd):
    """an archive whose second 64 KiB block is itself a valid (and incompressible) snappy stream"""
    from numbers_parser.generated.mapping import ID_NAME_MAP
    from numbers_parser.generated.TSPArchiveMessages_pb2 import ArchiveInfo
    tid = next(t for t in sorted(ID_NAME_MAP) if ID_NAME_MAP[t]().IsInitialized())
    known = ID_NAME_MAP[tid]().SerializeToString()
    tail = snappy.compress(bytes(rnd.randrange(256) for _ in range(case["size"])))
    tag = _varint(19000 << 3 | 2)
    pad = 60000
    for _ in range(6):
        body = bytes(rnd.randrange(256) for _ in range(pad)) + tail
        msg = known + tag + _varint(len(body)) + body
        info = ArchiveInfo(identifier=321)
        mi = info.message_infos.add()
        mi.type = tid
        mi.version.extend([1, 0, 5])
        mi.length = len(msg)
        hb = info.SerializeToString()
        stream = _varint(len(hb)) + hb + msg
        start = len(stream) - len(tail)
        if start == 65536:
            break
        pad += 65536 - start
    if start != 65536:
        return {"detail": "could not align the snappy-shaped block (harness)"}
    data = b""
    s2 = stream
    while s2:
        p = snappy.compress(s2[:65536])
        data += b"\0" + struct.pack("<I", len(p))[:3] + p
        s2 = s2[65536:]
    err, k = check_member(f"snappy-shaped-block(tail={len(tail)})", data)
    if err:
        return {"detail": err}
    return {"ok": True, "count": 1}


def scalar_fields(cls):
    from google.protobuf.descriptor import FieldDescriptor as FD
    rep = lambda f: f.is_repeated if hasattr(f, "is_repeated") else f.label == FD.LABEL_REPEATED
    req = lambda f: f.is_required if hasattr(f, "is_required") else f.label == FD.LABEL_REQUIRED
    return [f for f in cls.DESCRIPTOR.fields if not rep(f) and not req(f) and
            f.cpp_type in (FD.CPPTYPE_BOOL, FD.CPPTYPE_INT32, FD.CPPTYPE_UINT32, FD.CPPTYPE_INT64, FD.CPPTYPE_UINT64)]


def merge_segment(case):
    """a should_merge segment: two base messages of different types and a diff message based on message `base`"""
    from numbers_parser.generated.mapping import ID_NAME_MAP
    from numbers_parser.generated.TSPArchiveMessages_pb2 import ArchiveInfo
    cands = [t for t in sorted(ID_NAME_MAP) if ID_NAME_MAP[t]().IsInitialized() and len(scalar_fields(ID_NAME_MAP[t])) >= 2]
    rnd = random.Random(case["seed"])
    t0, t1 = rnd.sample(cands, 2)
    base = case["base"]
    msgs = [ID_NAME_MAP[t0]().SerializeToString(), ID_NAME_MAP[t1]().SerializeToString()]
    bt = (t0, t1)[base]
    diff = ID_NAME_MAP[bt]()
    for f in scalar_fields(ID_NAME_MAP[bt])[-2:]:
        setattr(diff, f.name, 1)
    msgs.append(diff.SerializeToString())
    info = ArchiveInfo(identifier=500, should_merge=True)
    for t, mb in ((t0, msgs[0]), (t1, msgs[1]), (0, msgs[2])):
        mi = info.message_infos.add()
        mi.type = t
        mi.version.extend([1, 0, 5])
        mi.length = len(mb)
        if t == 0:
            mi.base_message_index = base
            mi.diff_merge_version.extend([1, 0, 5])
    hb = info.SerializeToString()
    stream = _varint(len(hb)) + hb + b"".join(msgs)
    p = snappy.compress(stream)
    data = b"\0" + struct.pack("<I", len(p))[:3] + p
    err, k = check_member(f"merge-segment(types={t0},{t1}; diff based on message {base})", data)
    if err:
        return {"detail": err}
    return {"ok": True, "count": 1}


def _varint(n):
    out = b""
    while True:
        b = n & 0x7F
        n >>= 7
        if n:
            out += bytes([b | 0x80])
        else:
            return out + bytes([b])


def main():
    ap = common.std_args()
    ap.add_argument("--fixtures", type=int, default=20)
    a = ap.parse_args()
    fs = docsnap.fixtures()
    fs.sort(key=lambda f: os.path.getsize(f) if os.path.isfile(f) else 10 ** 9)
    if a.fixtures:
        fs = fs[: a.fixtures]
    cases = [{"kind": "fixture", "path": f} for f in fs]
    import numbers_parser
    from numbers_parser.constants import DEFAULT_DOCUMENT
    cases.append({"kind": "fixture", "path": str(DEFAULT_DOCUMENT)})
    for size in (0, 1, 100, 65535 - 64, 65536 - 20, 65536, 65537, 131072, 200000):
        cases.append({"kind": "synthetic", "size": size, "seed": a.seed})
        cases.append({"kind": "synthetic", "size": size, "seed": a.seed + 1, "random": False})
    cases.append({"kind": "synthetic", "size": 300, "seed": a.seed, "segments": 40})
    for hl in (127, 128, 129, 255, 256, 16383, 16384, 16385):
        cases.append({"kind": "synthetic", "size": 50, "seed": a.seed + hl, "segments": 2, "header_len": hl})
    cases.append({"kind": "synthetic", "size": 5000, "seed": a.seed, "segments": 3, "messages": 4})
    for cuts in ("empty-lead", "empty-trail", "empty-mid", "empty-seg", "many"):
        cases.append({"kind": "synthetic", "size": 700, "seed": a.seed + 5, "segments": 6, "cuts": cuts})
        cases.append({"kind": "synthetic", "size": 90000, "seed": a.seed + 6, "segments": 2, "cuts": cuts})
    for sz in (200, 30000, 60000):
        cases.append({"kind": "synthetic", "size": sz, "seed": a.seed + sz, "snappy_block": True})
    for i in range(12):
        cases.append({"kind": "merge", "base": i % 2, "seed": a.seed * 100 + i})
    return common.run(cases, run_case)


if __name__ == "__main__":
    sys.exit(main())

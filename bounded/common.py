"""Shared driver for the bounded stand-ins (run-time contracts over enumerated/seeded inputs).
Runs under /venv/bin/python.  Prints ONE JSON line: evaluations, distinct_nontrivial, failures, samples.
Bounded checks are labelled bounded in the evidence and never counted as proved."""
import argparse
import json
import multiprocessing as mp
import os
import sys
import time
import traceback


def _wrap(args):
    fn, case = args
    try:
        r = fn(case)
        return case, r, None
    except Exception as e:  # noqa: BLE001
        return case, None, f"{type(e).__name__}: {e}\n{traceback.format_exc()[-800:]}"


def _quiet():
    import warnings
    warnings.simplefilter("ignore")
    try:
        sys.stderr = open(os.devnull, "w")
    except Exception:  # noqa: BLE001
        pass


def run(cases, run_case, nontrivial=lambda c: True, workers=None, max_failures=400, key=lambda c: json.dumps(c, sort_keys=True, default=str)):
    if os.environ.get("BOUNDED_CASE"):
        cases = [json.loads(os.environ["BOUNDED_CASE"])]
    cases = list(cases)
    workers = workers or min(16, os.cpu_count() or 4)
    t0 = time.time()
    failures = []
    seen = set()
    distinct = 0
    n = 0
    _quiet()
    if workers > 1 and len(cases) > 8:
        with mp.Pool(workers, initializer=_quiet) as pool:
            results = pool.imap_unordered(_wrap, [(run_case, c) for c in cases], chunksize=max(1, len(cases) // (workers * 8)))
            results = list(results)
    else:
        results = [_wrap((run_case, c)) for c in cases]
    for case, r, err in results:
        n += 1
        k = key(case)
        if k not in seen:
            seen.add(k)
            if nontrivial(case):
                distinct += 1
        if isinstance(r, dict) and r.get("ok"):
            n += int(r.get("count", 1)) - 1
            distinct += int(r.get("distinct", r.get("count", 1))) - (1 if nontrivial(case) and k not in () else 0)
            continue
        if err is not None:
            failures.append({"id": len(failures), "case": case, "detail": "harness/contract raised: " + err, "crash": True})
        elif r is not None:
            r = dict(r)
            r.setdefault("case", case)
            r["id"] = len(failures)
            failures.append(r)
    out = {"evaluations": n, "distinct_nontrivial": distinct, "failures": failures[:max_failures],
           "n_failures": len(failures), "samples": [_short(c) for c in cases[:3]], "secs": round(time.time() - t0, 1)}
    print(json.dumps(out, default=str))
    return 0


def _short(c):
    s = json.dumps(c, default=str)
    return c if len(s) < 400 else json.loads(json.dumps({"abridged": s[:380]}))


def std_args():
    ap = argparse.ArgumentParser()
    ap.add_argument("--seed", type=int, default=0)
    return ap

"""Bounded stand-in for C01: values written to cells are read back exactly after save and reopen.
Run-time contracts (from the property statement):
  codec   : _unpack_decimal128(_pack_decimal128(x)) == x  for every x in the enumerated/seeded ranges;
  document: for each supported type, Table.write(value) ; Document.save ; Document(path) gives a cell of the corresponding
            class whose value == the value written (also for writes beyond the current table bounds)."""
import os
import random
import sys
import tempfile
from datetime import datetime, timedelta

sys.path.insert(0, os.path.dirname(os.path.dirname(os.path.abspath(__file__))))
from bounded import common  # noqa: E402


def gen_float(rnd):
    digits = rnd.randint(1, 15)
    m = rnd.randint(10 ** (digits - 1), 10 ** digits - 1)
    e = rnd.randint(-290, 290 - digits)
    return float(f"{'-' if rnd.random() < 0.5 else ''}{m}e{e}")


def gen_values(kind, rnd, n):
    out = []
    if kind == "str":
        fixed = ["", " ", "a", "line1\nline2", "tab\there", "\U0001F600 astral \U00020000", "x" * 20000, "é" * 3000, "'quoted' \"text\"",
                 "trailing space ", " sep", "0", "TRUE", "=A1", "ßİǅ"]
        out += fixed
        while len(out) < n:
            ln = rnd.choice((1, 2, 5, 40))
            cps = []
            for _ in range(ln):
                cp = rnd.choice((rnd.randint(0x20, 0x7E), rnd.randint(0xA0, 0xD7FF), rnd.randint(0xE000, 0xFFFD), rnd.randint(0x10000, 0x10FFFF)))
                cps.append(chr(cp))
            out.append("".join(cps))
    elif kind == "bool":
        out = [True, False] * max(1, n // 8)
    elif kind == "int":
        out = [0, 1, -1, 12, 50, 52, 10 ** 15 - 1, -(10 ** 15 - 1), 2 ** 31, 2 ** 32 + 1, 255, 256, 65536, 999999999999999]
        while len(out) < n:
            out.append(rnd.randint(-10 ** rnd.randint(1, 15) + 1, 10 ** rnd.randint(1, 15) - 1))
    elif kind == "float":
        out = [0.0, 0.12, 50.0, 52.0, 846400000000.0, 0.1, 1e-290, 1e290, -1e-290, 123456789012345.0, 0.000123456789012345, 1.5, 78.9]
        while len(out) < n:
            out.append(gen_float(rnd))
    elif kind == "datetime":
        out = [datetime(1, 1, 1), datetime(9999, 12, 31, 23, 59, 59), datetime(2001, 1, 1), datetime(2000, 12, 31, 23, 59, 59),
               datetime(1900, 1, 1, 0, 0, 0, 1), datetime(2100, 12, 31, 23, 59, 59, 999999), datetime(1970, 1, 1), datetime(2024, 2, 29, 12, 0, 0, 500000)]
        while len(out) < n:
            if rnd.random() < 0.5:
                secs = rnd.randint(0, (datetime(9999, 12, 31, 23, 59, 59) - datetime(1, 1, 1)).days * 86400 + 86399)
                out.append(datetime(1, 1, 1) + timedelta(seconds=secs))
            else:
                us = rnd.randint(0, int((datetime(2101, 1, 1) - datetime(1900, 1, 1)).total_seconds()) * 10 ** 6 - 1)
                out.append(datetime(1900, 1, 1) + timedelta(microseconds=us))
    elif kind == "timedelta":
        lim = 100 * 365 * 86400 * 10 ** 6
        out = [timedelta(0), timedelta(microseconds=1), timedelta(microseconds=-1), timedelta(microseconds=lim), timedelta(microseconds=-lim),
               timedelta(days=1, seconds=1, microseconds=1), timedelta(hours=1.5), timedelta(milliseconds=1)]
        while len(out) < n:
            out.append(timedelta(microseconds=rnd.randint(-lim, lim) if rnd.random() < 0.6 else rnd.randint(-10 ** 9, 10 ** 9)))
    return out[:max(n, 1)] if kind != "str" else out


def expected_class(v):
    from numbers_parser import BoolCell, DateCell, DurationCell, NumberCell, TextCell
    if isinstance(v, str):
        return TextCell
    if isinstance(v, bool):
        return BoolCell
    if isinstance(v, (int, float)):
        return NumberCell
    if isinstance(v, datetime):
        return DateCell
    return DurationCell


def run_case(case):
    kind = case["kind"]
    if kind.startswith("codec"):
        from numbers_parser.cell import _pack_decimal128, _unpack_decimal128
        bad = []
        count = 0
        if kind == "codec-int":
            vals = (float(n) for n in range(case["lo"], case["hi"]))
        elif kind == "codec-frac":
            vals = (k / case["den"] for k in range(case["lo"], case["hi"]))
        else:
            rnd = random.Random(case["seed"])
            vals = (gen_float(rnd) for _ in range(case["n"]))
        for x in vals:
            count += 1
            y = _unpack_decimal128(_pack_decimal128(x))
            if y != x or type(y) is not float:
                bad.append((x, y))
        if bad:
            return {"detail": f"{kind}: _unpack_decimal128(_pack_decimal128(x)) != x for {len(bad)} of {count} values, e.g. "
                              + ", ".join(f"{x!r} -> {y!r}" for x, y in bad[:5]), "class": "decimal128-round-trip"}
        return {"ok": True, "count": count}
    # ---- document round trip
    from numbers_parser import Document
    rnd = random.Random(case["seed"])
    values = gen_values(case["type"], rnd, case["n"])
    where = case["where"]
    doc = Document(num_rows=case.get("rows", 12), num_cols=case.get("cols", 8))
    t = doc.sheets[0].tables[0]
    placed = {}
    if where == "inside":
        cells = [(r, c) for r in range(t.num_rows) for c in range(t.num_cols)]
        for i, v in enumerate(values[:len(cells)]):
            placed[cells[i]] = v
    else:
        far = [tuple(x) for x in case["far"]]
        for i, pos in enumerate(far):
            placed[pos] = values[i % len(values)]
        for i, v in enumerate(values[len(far):len(far) + 6]):
            placed[(i % 3, i // 3)] = v
    second = {}
    if case.get("two_saves"):
        # history: write, save, write MORE values (new ones, and over some old ones) on the same open document, save again; the second
        # file must hold every value of the document as it stood at the second save
        items = list(placed.items())
        placed = dict(items[: len(items) // 2])
        more = gen_values(case["type"], random.Random(case["seed"] + 1), case["n"])
        second = {pos: more[i % len(more)] for i, (pos, _) in enumerate(items[len(items) // 2:])}
        for i, (pos, _) in enumerate(items[: len(items) // 8]):
            second[pos] = more[(i + 3) % len(more)]
    for (r, c), v in placed.items():
        t.write(r, c, v)
    with tempfile.TemporaryDirectory() as td:
        p = os.path.join(td, "v.numbers")
        doc.save(p)
        if second:
            for (r, c), v in second.items():
                t.write(r, c, v)
            placed.update(second)
            p = os.path.join(td, "v2.numbers")
            doc.save(p)
        t2 = Document(p).sheets[0].tables[0]
        if (t2.num_rows, t2.num_cols) != (t.num_rows, t.num_cols):
            return {"detail": f"table is {t.num_rows}x{t.num_cols} after the writes but {t2.num_rows}x{t2.num_cols} after reopening"}
        for (r, c), v in placed.items():
            if r >= t2.num_rows or c >= t2.num_cols:
                return {"detail": f"write at ({r},{c}) did not grow the table: reopened table is {t2.num_rows}x{t2.num_cols}"}
            cell = t2.cell(r, c)
            if type(cell) is not expected_class(v):
                return {"detail": f"{case['type']} value {v!r:.80} written at ({r},{c}) reads back as {type(cell).__name__} ({cell.value!r:.80})"}
            if not (cell.value == v) or (isinstance(v, bool) and cell.value is not v):
                return {"detail": f"{case['type']} value {v!r:.80} written at ({r},{c}) reads back as {cell.value!r:.80}" + (" (second save of the same open document)" if second else "")}
    return {"ok": True, "count": len(placed)}


def main():
    ap = common.std_args()
    ap.add_argument("--level", type=int, default=1)
    a = ap.parse_args()
    big = a.level >= 2
    cases = []
    step = 25000
    for lo in range(-200000, 200001, step):
        cases.append({"kind": "codec-int", "lo": lo, "hi": min(lo + step, 200001)})
    for den in (100, 1000):
        for lo in range(0, 200001, step):
            cases.append({"kind": "codec-frac", "den": den, "lo": lo, "hi": min(lo + step, 200001)})
    for s in range(80 if big else 8):
        cases.append({"kind": "codec-rand", "seed": 1000 + s, "n": 25000})
    per = 3000 if big else 300
    for typ in ("str", "bool", "int", "float", "datetime", "timedelta"):
        for s in range(per // 96 + 1):
            cases.append({"kind": "doc", "type": typ, "seed": a.seed * 7919 + s, "n": 96, "where": "inside"})
        cases.append({"kind": "doc", "type": typ, "seed": a.seed * 7919 + 50, "n": 96, "where": "inside", "two_saves": True})
        fars = [[(300, 0)], [(0, 300)], [(256, 256)], [(1000, 2)], [(255, 255), (256, 0)], [(12, 8)], [(511, 1), (512, 1)]]
        for i, far in enumerate(fars):
            cases.append({"kind": "doc", "type": typ, "seed": a.seed * 7919 + 100 + i, "n": 12, "where": "far", "far": far})
    return common.run(cases, run_case)


if __name__ == "__main__":
    sys.exit(main())

"""Meaning-preserving rewrites of a Numbers container (used by the C05/C06 stand-ins)."""
import io
import os
import random
import shutil
import struct
import zipfile

import snappy


def read_members(path):
    """-> ordered list of (name, bytes) of a .numbers file or package folder (Index.zip is expanded)."""
    out = []
    if os.path.isdir(path):
        for root, _, files in os.walk(path):
            for f in sorted(files):
                p = os.path.join(root, f)
                rel = os.path.relpath(p, path)
                data = open(p, "rb").read()
                if rel == "Index.zip":
                    with zipfile.ZipFile(io.BytesIO(data)) as z:
                        out += [(n, z.read(n)) for n in z.namelist() if not n.endswith('/')]
                else:
                    out.append((rel, data))
    else:
        with zipfile.ZipFile(path) as z:
            for n in z.namelist():
                if n.endswith("/"):
                    continue
                data = z.read(n)
                if n.endswith("Index.zip"):
                    with zipfile.ZipFile(io.BytesIO(data)) as z2:
                        out += [(m, z2.read(m)) for m in z2.namelist() if not m.endswith('/')]
                else:
                    out.append((n, data))
    # a zip of a package folder: drop the common "<name>.numbers/" prefix
    out = [((n.split("/", 1)[1] if "/" in n and n.split("/", 1)[0].endswith(".numbers") else n), d) for n, d in out]
    return out


def write_zip(members, path, method=zipfile.ZIP_DEFLATED, reverse=False):
    ms = list(reversed(members)) if reverse else members
    with zipfile.ZipFile(path, "w", method) as z:
        for n, d in ms:
            z.writestr(n, d)


def write_package(members, path):
    os.makedirs(path)
    for n, d in members:
        p = os.path.join(path, n)
        os.makedirs(os.path.dirname(p), exist_ok=True)
        with open(p, "wb") as f:
            f.write(d)


def iwa_stream(data):
    """uncompressed archive stream of an .iwa member (independent of the library's reader)"""
    out = b""
    while data:
        if data[0] != 0:
            raise ValueError("bad chunk marker")
        ln = struct.unpack("<I", data[1:4] + b"\0")[0]
        payload = data[4:4 + ln]
        if len(payload) != ln:
            raise ValueError("truncated chunk")
        try:
            out += snappy.uncompress(payload)
        except Exception:  # noqa: BLE001
            out += payload
        data = data[4 + ln:]
    return out


def rechunk(data, size, rnd=None):
    try:
        stream = iwa_stream(data)
    except ValueError:
        return data  # not in IWA chunk framing (left untouched)
    out = b""
    while stream:
        k = size if rnd is None else rnd.randrange(1, size + 1)
        p = snappy.compress(stream[:k])
        out += b"\0" + struct.pack("<I", len(p))[:3] + p
        stream = stream[k:]
    return out


def map_objects(members, fn):
    """Apply fn(obj) -> bool(changed) to every protobuf object of every .iwa member (via the library codec)."""
    from numbers_parser.iwafile import IWAFile
    out = []
    for n, d in members:
        if n.endswith(".iwa"):
            try:
                f = IWAFile.from_buffer(d, n)
            except Exception:  # noqa: BLE001
                out.append((n, d))
                continue
            changed = False
            for ch in f.chunks:
                for ar in ch.archives:
                    for o in ar.objects:
                        if fn(o):
                            changed = True
            out.append((n, f.to_buffer() if changed else d))
        else:
            out.append((n, d))
    return out


def permute_lists(members, mode, seed=0):
    rnd = random.Random(seed)

    def fn(o):
        if type(o).__name__ == "TableDataList" and len(o.entries) > 1:
            es = [type(e).FromString(e.SerializeToString()) for e in o.entries]
            if mode == "reverse":
                es.reverse()
            else:
                rnd.shuffle(es)
            del o.entries[:]
            o.entries.extend(es)
            return True
        return False
    return map_objects(members, fn)


def switch_offsets(members, every=1):
    """byte offsets <-> 4-byte-unit offsets per row (every `every`-th row), where representable"""
    import array

    def fn(o):
        if type(o).__name__ != "Tile":
            return False
        ch = False
        for ri, r in enumerate(o.rowInfos):
            if ri % every != every - 1:
                continue
            offs = array.array("h", r.cell_offsets).tolist()
            if r.has_wide_offsets:
                if all(x < 0 or x * 4 < 32768 for x in offs):
                    new = [x if x < 0 else x * 4 for x in offs]
                    r.has_wide_offsets = False
                else:
                    continue
            else:
                if all(x < 0 or x % 4 == 0 for x in offs):
                    new = [x if x < 0 else x // 4 for x in offs]
                    r.has_wide_offsets = True
                else:
                    continue
            r.cell_offsets = array.array("h", new).tobytes()
            ch = True
        return ch
    return map_objects(members, fn)


def add_empty_row_headers(members):
    """Give every row of every table an explicit header record (rows without one are empty rows)."""
    from numbers_parser.iwafile import IWAFile
    files = {}
    for n, d in members:
        if n.endswith(".iwa"):
            try:
                files[n] = IWAFile.from_buffer(d, n)
            except Exception:  # noqa: BLE001
                pass
    buckets = {}
    for f in files.values():
        for ch in f.chunks:
            for ar in ch.archives:
                for o in ar.objects:
                    if type(o).__name__ == "TableModelArchive":
                        for b in o.base_data_store.rowHeaders.buckets[:1]:
                            buckets[b.identifier] = o.number_of_rows
    changed = set()
    added = 0
    for n, f in files.items():
        for ch in f.chunks:
            for ar in ch.archives:
                if ar.header.identifier in buckets:
                    for o in ar.objects:
                        if type(o).__name__ == "HeaderStorageBucket":
                            have = {h.index for h in o.headers}
                            missing = [r for r in range(buckets[ar.header.identifier]) if r not in have]
                            if missing:
                                hs = [type(h).FromString(h.SerializeToString()) for h in o.headers]
                                for r in missing:
                                    h = type(o.headers[0])() if len(o.headers) else None
                                    if h is None:
                                        continue
                                    h.index, h.numberOfCells, h.size, h.hidingState = r, 0, 0.0, 0
                                    hs.append(h)
                                    added += 1
                                hs.sort(key=lambda h: h.index)
                                del o.headers[:]
                                o.headers.extend(hs)
                                changed.add(n)
    return [(n, files[n].to_buffer() if n in changed else d) for n, d in members], added


def add_empty_row_records(members):
    """Give every row of every tile an explicit row record (a row without one is an empty row; a record may also hold no cells),
    in row order.  Returns the number of records added."""
    from numbers_parser.iwafile import IWAFile
    out, added = [], 0
    for n, d in members:
        f = None
        if n.endswith(".iwa"):
            try:
                f = IWAFile.from_buffer(d, n)
            except Exception:  # noqa: BLE001
                f = None
        changed = False
        if f is not None:
            for ch in f.chunks:
                for ar in ch.archives:
                    for o in ar.objects:
                        if type(o).__name__ != "Tile" or not len(o.rowInfos) or not o.last_saved_in_BNC:
                            continue
                        have = {ri.tile_row_index for ri in o.rowInfos}
                        top = max(max(have) + 1, o.numrows)
                        missing = [r for r in range(top) if r not in have]
                        if not missing:
                            continue
                        recs = [type(ri).FromString(ri.SerializeToString()) for ri in o.rowInfos]
                        tmpl = recs[0]
                        for r in missing:
                            ri = type(tmpl).FromString(tmpl.SerializeToString())
                            ri.tile_row_index, ri.cell_count = r, 0
                            ri.cell_storage_buffer = b""
                            ri.cell_offsets = b"\xff\xff" * (len(tmpl.cell_offsets) // 2)
                            if tmpl.HasField("cell_storage_buffer_pre_bnc"):
                                ri.cell_storage_buffer_pre_bnc = b""
                            if tmpl.HasField("cell_offsets_pre_bnc"):
                                ri.cell_offsets_pre_bnc = b"\xff\xff" * (len(tmpl.cell_offsets_pre_bnc) // 2)
                            recs.append(ri)
                            added += 1
                        recs.sort(key=lambda ri: ri.tile_row_index)
                        del o.rowInfos[:]
                        o.rowInfos.extend(recs)
                        changed = True
        out.append((n, f.to_buffer() if changed else d))
    return out, added


def reverse_tile_refs(members):
    """List the tile references of every table in reverse order (each reference carries its own tile id, each row record its own row): the
    stored order of the references means nothing.  Returns the number of tables changed."""
    from numbers_parser.iwafile import IWAFile
    out, n = [], 0
    for name, d in members:
        f = None
        if name.endswith(".iwa"):
            try:
                f = IWAFile.from_buffer(d, name)
            except Exception:  # noqa: BLE001
                f = None
        changed = False
        if f is not None:
            for ch in f.chunks:
                for ar in ch.archives:
                    for o in ar.objects:
                        if type(o).__name__ == "TableModelArchive" and len(o.base_data_store.tiles.tiles) > 1:
                            refs = [type(t).FromString(t.SerializeToString()) for t in o.base_data_store.tiles.tiles]
                            del o.base_data_store.tiles.tiles[:]
                            o.base_data_store.tiles.tiles.extend(reversed(refs))
                            changed = True
                            n += 1
        out.append((name, f.to_buffer() if changed else d))
    return out, n

#!/usr/bin/env python3
"""Re-runs the seeded changes of the given properties (e.g. `tools_seed_partial.py C05 C07`) and merges the results into seeded/MATRIX.json.
/repo must be clean; evidence files of those properties are overwritten: run tools_refresh.sh afterwards."""
import glob
import json
import os
import re
import subprocess
import sys

os.chdir(os.path.dirname(os.path.abspath(__file__)))
assert not [l for l in subprocess.run(["git", "-C", "/repo", "status", "--short"], capture_output=True, text=True).stdout.splitlines() if "issue-50" not in l], "/repo is dirty"
m = json.load(open("seeded/MATRIX.json"))
for arg in sys.argv[1:]:
    prop = arg.split("-")[0]
    for d in sorted(glob.glob(f"seeded/{arg}" if "-" in arg else f"seeded/{prop}-[ABCDEFG]")):
        sid = os.path.basename(d)
        patch = os.path.abspath(os.path.join(d, "patch.diff"))
        status = json.load(open(os.path.join(d, "meta.json"))).get("status", "")[:11]
        if subprocess.run(["git", "-C", "/repo", "apply", "--check", patch], capture_output=True).returncode != 0:
            m[sid] = {"status": status, "applies": False, "exit": None, "fired": []}
            print(sid, "does not apply")
            continue
        subprocess.run(["git", "-C", "/repo", "apply", patch], check=True)
        try:
            p = subprocess.run(["./check", prop], capture_output=True, text=True)
        finally:
            subprocess.run(["git", "-C", "/repo", "checkout", "--", "."], check=True)
        fired = []
        for l in p.stdout.splitlines():
            mm = re.match(r"VIOLATION .*replay=\S*/([^/ ]*)\.json( no-failing-input-found)?", l)
            if mm:
                fired.append(mm.group(1) + (mm.group(2) or ""))
        m[sid] = {"status": status, "applies": True, "exit": p.returncode, "fired": fired}
        print(sid, p.returncode, fired[:3], flush=True)
    json.dump(m, open("seeded/MATRIX.json", "w"), indent=1)
json.dump(m, open("seeded/MATRIX.json", "w"), indent=1)

#!/bin/sh
# usage: tools_try_seed.sh <prop> <patch.diff> [extra args]  -- apply a seeded change to /repo, run the check, undo
prop=$1; patch=$2; shift 2
git -C /repo apply "$(realpath "$patch")" || exit 9
./check "$prop" "$@" 2>&1 | grep -E "^(VIOLATION|KNOWN|UNDECIDED|CHECKER|C[0-9][0-9] )" | cut -c1-400
rc=$?
git -C /repo checkout -- . 
git -C /repo status --short | grep -v issue-50

#!/bin/sh
# offline setup: nothing to build; verify the interpreters and solvers are present and byte-compile the engine
set -e
cd "$(dirname "$0")"
test -x /opt/veriftools/pyvenv/bin/python
test -x /venv/bin/python
command -v z3-new >/dev/null || command -v z3 >/dev/null
test -x /usr/bin/cvc5
/opt/veriftools/pyvenv/bin/python -m compileall -q pyvc contracts >/dev/null
/opt/veriftools/pyvenv/bin/python -c "import z3; assert z3.get_version_string().startswith('5.')"
mkdir -p evidence replays
echo setup-ok

#!/usr/bin/env python3
"""Rewrites the seed table in DESIGN.md (between the SEED-TABLE markers) from seeded/MATRIX.json and the seeds' meta.json."""
import json
import re

m = json.load(open("seeded/MATRIX.json"))
NOTES = {
    "C03-G": "round 8; first missed (no integer needing 16 digits in the histories; the codec was not among C03's contracts): such integers written, C03 re-verifies C01's decimal128 contracts, whose native search has them too",
    "C06-G": "round 8; first missed (no layout variant reordered the tile references): `tile-refs-reversed` variant on the self-written 700-row document",
    "C07-G": "round 8; first missed (every source document had an accurate high-water mark): a source whose recorded mark is below its largest identifier is edited and saved",
    "C15-G": "round 8; first missed (one image per document): every styled document with an image has a second, different one; later a structural obligation (allocators are not memoised, shared with C07)",
    "C12-G": "round 8; caught by the stand-in; later a structural obligation (a decoded cell's merge state is looked up unconditionally)",
    "C04-F": "round 7; first missed (the encoder contract's cell had no state from an earlier decode): the cell now carries an arbitrary `_flags` word, native search encodes cells decoded from records with every flag bit",
    "C19-F": "round 7; first missed (no name whose case-folded and lower-cased forms differ): such names in the stand-in and the native search",
    "C05-F": "round 7; caught by the stand-in; a changed frame expression is now treated like a function that cannot be generated (it crashed the checker), and its native search replays an incompressible 200 KB stream",
    "C07-F": "round 6; first missed (the validator did not look at data files): data files no record describes are an inventory error; C07 shares C15's structural obligation on the cell-style key; rebased after fix 84fda69",
    "C09-F": "round 6; first missed: labels shared by the first body column/row and one later one, unequal header counts; these configurations also exposed a genuine defect (fix 0556d8f); later _calculate_name_scopes was brought under contract",
    "C12-F": "round 6; first missed (hidden behind the open finding F-C12-2, whose witness pattern matched every edit history): tail deletions holding a whole rectangle are generated and worded apart",
    "C15-F": "round 6; first missed (needs a second table and three saves): styles/formats of two tables over three saves (own stand-in), structural obligation on add_table (owns every keyed list), which also exposed a genuine defect for format lists (fix 93ff614); rebased",
    "C16-F": "round 6; first missed (only a sheet with a pivot table before another table): Document.save under contract, sizes set on every table of loaded fixtures incl. test-pivot.numbers",
    "C20-F": "round 6; first missed (no backslash in the text pool): backslash texts + structural obligation on the csv.reader parameters",
    "C16-B": "rebased after fixes 46580e5 / 93ff614",
    "C01-E": "round 5; first missed (needs a second save of the same open document): two-save histories in the stand-in + structural obligation (keys of lists emptied on save are not memoised)",
    "C02-E": "round 5; first missed (left the subset; the contract's native search saved plain rows only): the search now calls recalculate_row_info on rows with record-less cells; create-formulas.numbers always in the quick tier",
    "C07-E": "round 5; caught by the stand-in; now also replayed through recalculate_row_info's native search (offsets of rows with merged placeholders)",
    "C13-E": "round 5; first missed (no exact power of the base in the stand-in or the native search): both have them now",
    "C15-E": "round 5; first missed (needs a style change after a first save): such histories in the stand-in, update_paragraph_style under contract",
    "C16-E": "round 5; first missed (only tables whose rows/columns are all headers): generator draws counts up to the table size + frame obligation on the stored header counts",
    "C20-E": "round 5; first missed: first-cell U+FEFF variants",
    "C09-E": "round 5; caught by the stand-in; later _format_row_span/_format_column_span were brought under contract (prefix dropped iff a label is document-unique)",
    "C13-D": "round 4; caught by the stand-in; later a sampled ground check of _twos_complement, which also exposed a genuine defect (fix c6f6cac; patch rebased)",
    "C15-D": "round 4; caught by the stand-in; later Table.set_cell_border was brought under contract (every cell along the stroke is updated)",
    "C16-D": "round 4; caught by the stand-in; later a structural obligation (the border allowance loads the stored strokes)",
    "C20-D": "round 4; first missed: 20-45 digit integers added to the number pool; later a structural obligation (a coerced field is the result of float())",
    "C03-D": "round 4; first missed (no history grew past one 256-row tile; C03 did not look at the tile writer): C03 re-verifies C07's tile-loop contracts, stand-in grows tables past 256 rows",
    "C06-D": "round 4; first missed: row_storage_map brought under contract (one store per record, at its flat position) and an empty-row-records layout variant added",
    "C08-D": "round 4; first missed (no literal needed 16-17 digits): number_to_str contract for the no-exponent case + such literals in the stand-in",
    "C09-D": "round 4; first missed (one header row at most): tables with 2 header rows/columns, resolver label rule corrected, _column_data/_row_data under contract",
    "C12-D": "round 4; first missed (needs a document authored in Numbers that already holds merges): calculate_merge_cell_ranges under contract, fixtures with merges in the stand-in",
    "C05-D": "round 4; first caught by the deductive side only: header lengths around the varint boundaries in the stand-in, native search for to_buffer",
    "C11-A": "first missed (regex flags ignored by the encoder); engine corrected, now caught",
    "C15-A": "first missed; stand-in strengthened with near-duplicate style pairs; later also a complete syntactic obligation on the style key",
    "C06-B": "caught by the stand-in; later also a complete syntactic obligation (the rich-text scan cannot end before the key is found)",
    "C15-B": "first missed; stand-in strengthened with every pair of strokes along one line of a 5-wide table; later add_stroke was brought under "
             "contract and its per-run cut assertion refutes this change",
    "C15-C": "round 3; caught by the stand-in; later also by add_stroke's per-run cut assertion",
    "C05-A": "caught by the stand-in; later IWAArchiveSegment.from_buffer was brought under contract (class of a merge message taken from base_message_index)",
    "C09-C": "round 3; caught by the stand-in; later _initialize_table_data got a dataflow contract (uniqueness counted over every table of the document)",
    "C16-B": "caught by the stand-in; later also by the complete syntactic obligation that every object add_table creates is made the target of a reference",
    "C20-A": "first missed; stand-in strengthened with blank trailing rows/columns; later Converter.save was brought under contract (every cell written)",
    "C03-B": "caught by the stand-in; later the default fill of add_row/add_column was brought under contract (exactly the new block is written)",
    "C06-A": "caught by the stand-in; later storage_buffers was brought under contract (each row decoded from its own record)",
    "C12-A": "caught by the stand-in; later Table.write was brought under contract (merge state looked up for the cell's own position)",
    "C09-B": "caught by the stand-in; later also by Table.write's contract (header cache invalidated iff the write is in the header area), re-verified by C09",
    "C17-A": "rebased after the C17 fix: commits; the refuted escape obligations are now replayed through the container fault-injection search",
    "C16-A": "rebased; first caught only by the deductive side; stand-in strengthened with partial queries",
    "C13-A": "rebased after fix 1caf0ad; needed the strict tie rule for decimal formats; later also refuted by _format_decimal's dataflow contract",
    "C13-B": "rebased after fix 1caf0ad",
    "C13-C": "round 2; caught by the stand-in; later also refuted by _format_decimal's dataflow contract (the 15-digit rounding must come first)",
    "C08-B": "caught by the stand-in; later also by the package-wide obligation that memoised methods key on every parameter",
    "C03-A": "rebased twice (fix: commits touched the same lines)", "C04-A": "rebased after fix ba61402",
    "C17-C": "round 2; first missed (a module-level import shadowing the builtin NotImplementedError): the executor now resolves exception names "
             "through the module's imports and the stand-in flips every bit of the zip's structural records",
    "C14-C": "round 2; first missed (day of year wrong only in century non-leap years): the date domain now has every day of 33 years incl. "
             "1700/1800/1900/2100/2200/2300 and both ends of the range",
    "C12-C": "round 2; first missed (second save after further merges): stand-in got two-stage save histories, and recalculate_merged_cells is now "
             "under contract (map rebuilt from every anchor)",
    "C06-C": "round 3; first missed by the C06 check (caught by C17's is_iwa_file proof): C06 now re-verifies is_iwa_file and _decompress_all, and "
             "its stand-in has a one-chunk-per-member variant and a document the library writes itself with a member larger than 64 KiB",
    "C05-C": "round 3; first caught by the deductive side only: the stand-in now cuts streams at repeated boundaries (chunks that decompress to nothing)",
    "C01-C": "round 2; first caught by the stand-in only: C01/C02 now re-verify C07's tile-loop and row-record contracts",
}
lines = ["", "| Seed | Change (from its meta.json) | Result | Deductive obligations that fired | Ground | Bounded |", "|---|---|---|---|---|---|"]
for k in sorted(m):
    v = m[k]
    meta = json.load(open(f"seeded/{k}/meta.json"))
    summ = re.sub(r"\s+", " ", meta.get("summary", ""))[:150].replace("|", "/")
    fired = v["fired"]
    ded = [f for f in fired if not f.startswith(("bounded_", "ground_"))]
    bnd = [f for f in fired if f.startswith("bounded_")]
    grd = [f for f in fired if f.startswith("ground_")]
    if not v["applies"]:
        res = "neutralised (patched lines no longer exist after a fix: commit; hand-made equivalents detected, see text)"
    elif v["exit"] == 0:
        res = "neutralised (the fixes make the change harmless: see meta.json)"
    elif v["exit"] == 1:
        res = "**detected**"
    else:
        res = f"exit {v['exit']}"
    if k in NOTES:
        res += " — " + NOTES[k]

    def short(fs):
        fs = [re.sub(r"_post(\d+)", r" post\1", f).replace("__generation_", " (cannot be brought under contract)") for f in fs]
        return "; ".join(fs[:3]) + (f" (+{len(fs) - 3} more)" if len(fs) > 3 else "")
    lines.append(f"| {k} | {summ} | {res} | {short(ded).replace('|', '/') or '–'} | {short(grd) or '–'} | {'yes' if bnd else '–'} |")
det = [k for k, v in m.items() if v["applies"] and v["exit"] == 1]
ded = [k for k in det if any(not f.startswith(("bounded_", "ground_")) for f in m[k]["fired"])]
rep = [k for k in ded if any(not f.startswith(("bounded_", "ground_")) and "no-failing" not in f for f in m[k]["fired"])]
grd = [k for k in det if any(f.startswith("ground_") for f in m[k]["fired"])]
bnd = [k for k in det if any(f.startswith("bounded_") for f in m[k]["fired"])]
only_b = [k for k in det if k not in ded and k not in grd]
broken = [k for k, v in m.items() if v["applies"] and v["exit"] != 0]
lines += ["", f"Counts (generated): {len(m)} seeded changes; {len(broken)} break their property on the current tree and {len(det)} of those are detected; "
          f"{len(ded)} fail a named deductive obligation ({len(rep)} with a failing input replayed on the real code, the others reported "
          f"*no-failing-input-found*), {len(grd)} fail a complete ground obligation, {len(bnd)} are (also) caught by a stand-in's run-time contract, "
          f"{len(only_b)} by a stand-in only ({', '.join(sorted(only_b))}).", ""]
d = open("DESIGN.md").read()
a, b = "<!-- SEED-TABLE-BEGIN -->", "<!-- SEED-TABLE-END -->"
assert a in d and b in d
d = d[:d.index(a) + len(a)] + "\n" + "\n".join(lines) + "\n" + d[d.index(b):]
open("DESIGN.md", "w").write(d)
print(len(m), len(broken), len(det), len(ded), len(rep), len(grd), len(bnd), len(only_b))

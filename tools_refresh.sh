#!/bin/sh
# re-run every claimed check on the CLEAN tree (evidence files must come from the unchanged tree), then validate
cd "$(dirname "$0")" || exit 3
test -z "$(git -C /repo status --short | grep -v issue-50)" || { echo "/repo is dirty"; exit 9; }
tier=${1:-quick}
for p in $(python3 -c "import json;print(' '.join(c['property_id'] for c in json.load(open('MANIFEST.json'))['checks']))"); do
  ./check $p --tier $tier 2>&1 | tail -1
done
/opt/veriftools/pyvenv/bin/python - <<'PY'
import json,jsonschema,glob
ms=json.load(open('/root/.vp/MANIFEST.schema.json')); es=json.load(open('/root/.vp/EVIDENCE.schema.json'))
m=json.load(open('MANIFEST.json')); jsonschema.validate(m,ms)
for c in m['checks']:
    e=json.load(open(c['evidence_file'])); jsonschema.validate(e,es)
    cov=e['coverage']
    assert e['level']==c['level_claimed']['category'], (c['property_id'], e['level'])
    if e['level']=='proof': assert cov['obligations']==cov['discharged'], (c['property_id'],cov['obligations'],cov['discharged'])
print('manifest+evidence valid for', [c['property_id'] for c in m['checks']])
PY

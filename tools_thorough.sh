#!/bin/sh
# runs every claimed check once at the thorough tier on the clean tree (slow: stand-ins at --level 2, both solvers on every obligation)
cd "$(dirname "$0")" || exit 3
test -z "$(git -C /repo status --short | grep -v issue-50)" || { echo "/repo is dirty"; exit 9; }
for p in $(python3 -c "import json;print(' '.join(c['property_id'] for c in json.load(open('MANIFEST.json'))['checks']))"); do
  s=$(date +%s)
  ./check $p --tier thorough 2>&1 | grep -E "^(VIOLATION|UNDECIDED|CHECKER|C[0-9][0-9] )" | cut -c1-300 | tail -4
  echo "  $p exit=$? secs=$(( $(date +%s) - s ))"
done

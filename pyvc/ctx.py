"""Contracts, spec functions and the name/class resolution used by the executor."""
from __future__ import annotations

import ast
import os

import z3

from . import extract
from .sym import (SInt, SBool, SStr, SFloat, SOpt, PList, SList, PDict, PObj, SRef, VExc, Func, BoundMethod, Builtin,
                  ClassRef, RePattern, Unsupported, PyRaise, PathEnd, lift, wrap, is_sym, as_int_term, fresh_name,
                  py_int, py_lower, py_upper, _SpecCallable, _Module, Int, Str, Bool, EXC_BASES, exc_isa)
from .builtins import BUILTIN_NAMES, TYPE_NAMES
from . import regex as RX

MODULES = ["xrefs", "cell", "containers", "tokenizer", "formula", "model", "document", "iwafile", "iwork",
           "constants", "exceptions", "numbers_cache", "numbers_uuid", "_csv2numbers", "_cat_numbers", "bullets",
           "currencies", "roman"]


class LoopSpec:
    def __init__(self, invariants, decreases=None, modifies=(), hints=(), index=None, havoc=(), kinds=None, steps=(), pre=()):
        self.pre = list(pre)  # ghost actions run when the loop is reached (before the entry check)
        self.kinds = dict(kinds or {})
        self.steps = list(steps)  # cut assertions proved (then assumed) at the end of the body, before the invariants
        self.invariants = [invariants] if isinstance(invariants, str) or callable(invariants) else list(invariants)
        self.decreases, self.modifies, self.hints, self.index, self.havoc = decreases, modifies, hints, index, havoc


class Contract:
    def __init__(self, qual, params=None, requires=(), ensures=(), raises=None, may_raise=(), loops=None,
                 unroll=None, hints=(), post_hints=(), safety="assert", fork_on=(), merge=False, inline=(),
                 result="none", effects=None, exc_ensures=(), entry=None, assumed=False, note="", ghost=None,
                 canaries=(), covers=(), max_unroll=8, use=None, label="", ghost_params=None, split_cases=(),
                 replay=None, search=None, timeout=None, order=None, gen=None,
                 ascii_strings=(), ascii_hints=(), steps=(), model=None, opaque=None, when=None, yield_grid=None, use_labels=None, cover_hints=(), local_views=None, yield_view=None):
        self.yield_view = yield_view
        self.local_views = dict(local_views or {})
        self.cover_hints = _l(cover_hints)
        self.yield_grid = yield_grid
        self.use_labels = dict(use_labels or {})
        self.when = when
        self.opaque = dict(opaque or {})
        self.model = model
        self.steps = _l(steps)
        self.ascii_strings = list(ascii_strings)
        self.ascii_hints = list(ascii_hints)
        self.qual = qual
        self.label = label
        self.ghost_params = ghost_params or {}
        self.split_cases = list(split_cases)
        self.replay = replay
        self.search = search
        self.timeout = timeout
        self.order = order
        self.gen = gen
        self.short = qual.split(":")[1]
        self.params = params or {}
        self.requires = _l(requires)
        self.ensures = _l(ensures)
        self.raises = dict(raises or {})
        self.may_raise = list(may_raise)
        self.loops = loops or {}
        self.unroll = unroll or {}
        self.hints = _l(hints)
        self.post_hints = _l(post_hints) or self.hints
        self.safety_mode = safety
        self.fork_on = set(fork_on)
        self.merge = merge
        self.inline = set(inline)
        self.result_kind = result
        self.effects = effects
        self.exc_ensures = _l(exc_ensures)
        self.entry = entry
        self.assumed = assumed
        self.note = note
        self.ghost = ghost or {}
        self.canaries = _l(canaries)
        self.covers = _l(covers)
        self.max_unroll = max_unroll
        self.use = use  # None: every registered contract may be used at call sites
        self.finfo = None
        self._loop_index = None

    # ---- loops are keyed by ordinal (1-based, source order) and checked against a structural anchor
    def _index_loops(self, node):
        if self._loop_index is None:
            self._loop_index = {}
            n = 0
            for x in ast.walk(node):
                pass
            for x in _loops_in_order(node):
                n += 1
                self._loop_index[id(x)] = n
        return self._loop_index

    def loop_key(self, s, ex):
        idx = self._index_loops(ex.finfo.node if hasattr(ex.finfo, "node") else None)
        return idx.get(id(s))

    def loop_spec(self, s, ex):
        k = self.loop_key(s, ex)
        if k is None:
            return None  # loop of an inlined callee: unrolled
        spec = self.loops.get(k)
        if spec is None:
            return None
        anchor = getattr(spec, "anchor", None)
        if anchor is not None:
            text = ast.unparse(s.test if isinstance(s, ast.While) else s.iter)
            if anchor not in text:
                raise AnchorLost(f"{self.qual}: loop {k} anchor '{anchor}' not found in '{text}'")
        return spec

    def unroll_bound(self, s):
        return self.unroll.get(self._loop_index.get(id(s)) if self._loop_index else None, self.max_unroll)

    def make_entry_env(self, ex):
        if self.entry is not None:
            return self.entry(ex)
        env = {}
        for p in ex.finfo.params if hasattr(ex.finfo, "params") else []:
            if p in self.params:
                env[p] = ex.fresh(self.params[p], p)
            else:
                raise Unsupported(f"{self.qual}: no kind declared for parameter {p}")
        for g, k in self.ghost_params.items():
            env[g] = ex.fresh(k, g)
        return env

    @property
    def key(self):
        return self.qual + (f"[{self.label}]" if self.label else "")


class AnchorLost(Exception):
    pass


def _l(x):
    if x is None:
        return []
    if isinstance(x, str) or callable(x):
        return [x]
    return list(x)


def _loops_in_order(node):
    out = []

    def rec(n, top):
        for c in ast.iter_child_nodes(n):
            if isinstance(c, (ast.FunctionDef, ast.Lambda, ast.ClassDef)) and not top:
                continue
            if isinstance(c, (ast.While, ast.For)):
                out.append(c)
            rec(c, False)

    if node is not None:
        rec(node, True)
    return out


class SpecFn:
    """A spec function: uninterpreted z3 function + definitional unfolding + native implementation."""

    def __init__(self, name, sorts, unfold, native, doc=""):
        self.name = name
        self.f = z3.Function(name, *sorts)
        self.unfold = unfold  # unfold(f, *args) -> z3 Bool (the definition instantiated at args)
        self.native = native
        self.doc = doc


class VerifCtx:
    def __init__(self):
        self.contracts = {}
        self.specfns = {}
        self.lemmas = {}
        self.kinds = {}
        self.setattr_hooks = {}
        self.getattr_hooks = {}
        self.noop_calls = {"debug", "warn", "warnings.warn", "logger.debug", "logger.warning"}
        self.exc_alias = {"error": "struct.error"}
        self._spec_cache = {}
        self._class_index = None
        self._imports = {}
        self.extra_globals = {}
        self.class_fields = {}  # cls -> {field: kind} for SRef heaps
        self.float_binop = None
        self.float_compare = None
        self.obj_binop = None
        self.constructors = {}
        self.bytearray_as_mem = False
        self.native_modules = {}
        self.assumptions = []
        self.spec("ipow", [Int, Int, Int],
                  lambda f, b, e: z3.Implies(e >= 0, f(b, e) == z3.If(e == 0, z3.IntVal(1), b * f(b, e - 1))),
                  None, "integer power b**e for e >= 0")

    # ---------------------------------------------------------------- registry
    def add(self, c: Contract):
        if c.label:
            self.contracts[c.key] = c
        else:
            self.contracts[c.qual] = c
        return c

    def spec(self, name, sorts, unfold, native, doc=""):
        self.specfns[name] = SpecFn(name, sorts, unfold, native, doc)
        return self.specfns[name]

    def contract_for_call(self, qual, caller, args=None):
        lab = getattr(caller, "use_labels", {}).get(qual)
        c = self.contracts.get(f"{qual}[{lab}]") if lab else self.contracts.get(qual)
        if c is None and args is not None:
            for k, cand in self.contracts.items():
                if cand.qual == qual and cand.label and cand.when is not None and cand.when(args):
                    c = cand
                    break
        if c is None:
            return None
        if qual in caller.inline or "*" in caller.inline:
            return None
        if caller.use is not None and qual not in caller.use:
            return None
        if c.finfo is None:
            c.finfo = extract.find_function(qual)
        return c

    def may_inline(self, qual, caller):
        return qual in caller.inline or "*" in caller.inline or qual.startswith("<lambda")

    def qual_of(self, f):
        if isinstance(f.node, ast.Lambda):
            return f"<lambda@{f.mod}:L{f.node.lineno}>"
        if f.cls:
            return f"{f.mod}:{f.cls}.{f.name}"
        return f"{f.mod}:{f.name}"

    # ---------------------------------------------------------------- spec expressions
    def parse_spec(self, text):
        if text not in self._spec_cache:
            self._spec_cache[text] = ast.parse(text.strip(), mode="eval").body
        return self._spec_cache[text]

    def spec_vocab(self, ex, env, contract):
        voc = {}
        for name, sf in self.specfns.items():
            voc[name] = _SpecCallable(_mk_specfn_call(sf))

        def old(ex_, v):
            raise Unsupported("old(expr): use old_<name>")

        entry = getattr(ex, "entry_env", {})
        for k, v in entry.items():
            voc["old_" + k] = v
        fin = env.get("__final__")
        if fin is not None:
            for k, v in fin.items():
                if isinstance(k, str) and not k.startswith("__"):
                    voc["final_" + k] = v
        voc["implies"] = _SpecCallable(lambda ex_, a, b: wrap(z3.Implies(_b(ex_, a), _b(ex_, b))))
        voc["iff"] = _SpecCallable(lambda ex_, a, b: wrap(_b(ex_, a) == _b(ex_, b)))
        voc["ite"] = _SpecCallable(lambda ex_, c, a, b: _ite(ex_, c, a, b))
        voc["forall"] = _SpecCallable(lambda ex_, f, *a: _quant(ex_, f, True))
        voc["exists"] = _SpecCallable(lambda ex_, f, *a: _quant(ex_, f, False))
        voc["isnone"] = _SpecCallable(lambda ex_, v: (lambda r: r if isinstance(r, bool) else wrap(r))(ex_.is_same(v, None)))
        voc["val"] = _SpecCallable(lambda ex_, v: v.val if isinstance(v, SOpt) else v)
        voc["inre"] = _SpecCallable(lambda ex_, s, pat: wrap(z3.InRe(lift(s), RX.compiled(pat).whole)))
        voc["inre_prefix"] = _SpecCallable(lambda ex_, s, pat: wrap(z3.InRe(lift(s), z3.Concat(RX.compiled(pat).whole, RX.FULL))))
        voc["str_to_int"] = _SpecCallable(lambda ex_, s: wrap(z3.StrToInt(lift(s))))
        voc["substr"] = _SpecCallable(lambda ex_, s, a, n: wrap(z3.SubString(lift(s), as_int_term(a), as_int_term(n))))
        voc["div"] = _SpecCallable(lambda ex_, a, b: wrap(as_int_term(a) / as_int_term(b)))
        def mgroup(ex_, i):
            from .sym import ReMatch
            fin_ = env.get("__final__") or env
            ms = [v for v in fin_.values() if isinstance(v, ReMatch)]
            if len(ms) == 0:
                from .sym import StepSkip
                raise StepSkip()
            if len(ms) != 1:
                raise Unsupported(f"mgroup: {len(ms)} match objects in scope")
            return ms[0].groups[i]

        voc["mgroup"] = _SpecCallable(mgroup)
        voc["true"] = True
        voc["false"] = False
        voc.update(contract.ghost if contract is not None else {})
        voc.update(self.extra_globals)
        return voc

    def hint_term(self, ex, h, env, contract):
        """'unfold f(args)' -> definition instance; 'lemma NAME(args)' -> lemma instance; callable -> term."""
        if callable(h):
            return h(ex, env)
        kind, _, rest = h.partition(" ")
        tree = self.parse_spec(rest)
        if not isinstance(tree, ast.Call) or not isinstance(tree.func, ast.Name):
            raise Unsupported(f"hint syntax: {h}")
        try:
            args = [ex.spec_eval(ast.unparse(a), env, contract) for a in tree.args]
        except (KeyError, Unsupported):
            return None  # the hint mentions a name that is not in scope at this point
        name = tree.func.id
        if kind == "unfold":
            sf = self.specfns[name]
            return sf.unfold(sf.f, *[lift(a) for a in args])
        if kind == "lemma":
            return self.lemmas[name].instance(*[lift(a) for a in args])
        raise Unsupported(f"hint kind {kind}")

    # ---------------------------------------------------------------- names
    def module_imports(self, mod):
        if mod not in self._imports:
            _, tree = extract.load_module(mod)
            imp = {}
            for n in ast.walk(tree):
                if isinstance(n, ast.ImportFrom) and n.module:
                    m = n.module
                    for a in n.names:
                        imp[a.asname or a.name] = (m, a.name)
                elif isinstance(n, ast.Import):
                    for a in n.names:
                        imp[a.asname or a.name] = (a.name, None)
            self._imports[mod] = imp
        return self._imports[mod]

    def global_name(self, name, ex):
        mod = ex.finfo.mod
        if name in self.extra_globals:
            return self.extra_globals[name]
        r = self.resolve_in_module(mod, name, ex)
        if r is not NotImplemented:
            return r
        if name in BUILTIN_NAMES:
            return Builtin(name)
        if name in TYPE_NAMES:
            return ClassRef(name)
        if name in EXC_BASES:
            return ClassRef(name)
        raise Unsupported(f"name '{name}' (module {mod})")

    def resolve_in_module(self, mod, name, ex, depth=0):
        if depth > 4:
            return NotImplemented
        try:
            _, tree = extract.load_module(mod)
        except FileNotFoundError:
            return NotImplemented
        for n in tree.body:
            if isinstance(n, ast.FunctionDef) and n.name == name:
                return Func(n, mod)
            if isinstance(n, ast.ClassDef) and n.name == name:
                return ClassRef(name)
        val = None
        for n in tree.body:
            if isinstance(n, ast.Assign) and any(isinstance(t, ast.Name) and t.id == name for t in n.targets):
                val = n.value
            elif isinstance(n, ast.AnnAssign) and isinstance(n.target, ast.Name) and n.target.id == name:
                val = n.value
        if val is not None:
            return self.module_value(mod, name, val, ex)
        imp = self.module_imports(mod).get(name)
        if imp is not None:
            m, orig = imp
            if m.startswith("numbers_parser.") and orig is not None:
                sub = m.split(".")[1]
                if sub == "generated":
                    if len(m.split(".")) == 2:
                        return self.native_module(f"numbers_parser.generated.{orig}")
                    return self.generated_const(m, orig, name)
                return self.resolve_in_module(sub, orig, ex, depth + 1)
            if m == "numbers_parser" and orig is not None:
                return NotImplemented
            if m == "struct" and orig in ("pack", "unpack"):
                return Builtin(orig)
            if m == "struct" and orig == "error":
                return ClassRef("struct.error")
            if m == "re" and orig is None:
                import re as _re
                fl = lambda a: int(a[0]) if a else 0
                return _Module("re", {"match": _SpecCallable(lambda ex_, p, s, *a: RX.do_match(ex_, p, s, 0, "match", fl(a))),
                                      "fullmatch": _SpecCallable(lambda ex_, p, s, *a: RX.do_match(ex_, p, s, 0, "fullmatch", fl(a))),
                                      "compile": _SpecCallable(lambda ex_, p, *a: RePattern(p, fl(a))),
                                      "IGNORECASE": int(_re.IGNORECASE), "I": int(_re.I), "DOTALL": int(_re.DOTALL),
                                      "S": int(_re.S), "ASCII": int(_re.ASCII), "A": int(_re.A),
                                      "MULTILINE": int(_re.MULTILINE), "M": int(_re.M), "VERBOSE": int(_re.VERBOSE)})
            if m == "contextlib" and orig == "suppress":
                return Builtin("suppress")
            if m == "math" and orig is None:
                return _Module("math", {})
            if m == "logging" and orig is None:
                lvl = ex.fresh("int", "loglevel")
                return _Module("logging", {"DEBUG": 10, "getLogger": _SpecCallable(
                    lambda ex_, *a: PObj("Logger", {"level": lvl}))})
            if m == "dataclasses" and orig == "fields":
                return _SpecCallable(lambda ex_, o: PList([PObj("Field", {"name": f}) for f, _ in
                                                           self.dataclass_fields(o.cls, ex_)]))
        return NotImplemented

    def module_value(self, mod, name, val, ex):
        if isinstance(val, ast.Call) and ast.unparse(val.func) == "re.compile":
            import re as _re
            pat = extract.const_eval(val.args[0])
            flags = 0
            for a in list(val.args[1:]) + [k.value for k in val.keywords]:
                txt = ast.unparse(a)
                if not all(tok.strip().startswith("re.") for tok in txt.split("|")):
                    raise Unsupported(f"re.compile flags expression {txt}")
                flags |= int(eval(txt, {"re": _re, "__builtins__": {}}))
            return RePattern(pat, flags)
        try:
            v = extract.const_eval(val)
        except extract.ExtractError:
            # evaluate through the executor with an empty env (e.g. tables referring to other constants)
            return ex.eval(val, {"__closure__": None})
        return _to_value(v)

    def generated_const(self, m, orig, name):
        return _Module(orig, GEN_CONSTS.get(orig, {}))

    # ---------------------------------------------------------------- classes
    def class_index(self):
        if self._class_index is None:
            idx = {}
            for mod in MODULES:
                try:
                    _, tree = extract.load_module(mod)
                except FileNotFoundError:
                    continue
                for n in tree.body:
                    if isinstance(n, ast.ClassDef):
                        idx.setdefault(n.name, (mod, n, [ast.unparse(b) for b in n.bases]))
            self._class_index = idx
        return self._class_index

    def mro(self, cls):
        out, todo = [], [cls]
        idx = self.class_index()
        while todo:
            c = todo.pop(0)
            if c in out:
                continue
            out.append(c)
            if c in idx:
                todo.extend(idx[c][2])
        return out

    def is_subclass(self, cls, base):
        return base in self.mro(cls) or (cls in EXC_BASES and exc_isa(cls, base))

    def find_method(self, cls, name):
        idx = self.class_index()
        for c in self.mro(cls):
            if c not in idx:
                continue
            mod, node, _ = idx[c]
            cand = None
            for n in node.body:
                if isinstance(n, ast.FunctionDef) and n.name == name:
                    if any(isinstance(d, ast.Attribute) and d.attr == "setter" for d in n.decorator_list):
                        continue
                    cand = n
                    break
            if cand is not None:
                return Func(cand, mod, cls=c)
        return None

    def find_property(self, cls, name):
        f = self.find_method(cls, name)
        if f is not None and any(ast.unparse(d) in ("property", "cached_property") for d in f.node.decorator_list):
            return f
        return None

    def method_contract(self, cls, name):
        for c in self.mro(cls):
            idx = self.class_index()
            if c in idx:
                q = f"{idx[c][0]}:{c}.{name}"
                if q in self.contracts:
                    return self.contracts[q]
        return None

    def class_attr(self, cls, name, ex, static=False):
        idx = self.class_index()
        for c in self.mro(cls):
            if c not in idx:
                continue
            mod, node, _ = idx[c]
            for n in node.body:
                if isinstance(n, ast.Assign) and any(isinstance(t, ast.Name) and t.id == name for t in n.targets):
                    return self.module_value(mod, name, n.value, ex)
                if isinstance(n, ast.AnnAssign) and isinstance(n.target, ast.Name) and n.target.id == name and n.value is not None:
                    return self.module_value(mod, name, n.value, ex)
                if static and isinstance(n, ast.FunctionDef) and n.name == name:
                    return Func(n, mod, cls=c)
        if cls in GEN_CONSTS and name in GEN_CONSTS[cls]:
            return GEN_CONSTS[cls][name]
        return NotImplemented

    def call_obj_method(self, ex, obj, name, args, kwargs, line):
        mm = getattr(self, "method_models", {}).get((obj.cls, name))
        if mm is not None:
            return mm(ex, obj, args, kwargs, line)
        f = self.find_method(obj.cls, name)
        if f is None:
            mc = self.method_contract(obj.cls, name)
            if mc is not None:
                return ex.apply_contract(mc, None, [obj] + list(args), kwargs, line)
            raise Unsupported(f"method {obj.cls}.{name} at L{line}")
        decs = [ast.unparse(d) for d in f.node.decorator_list]
        if "staticmethod" in decs:
            return ex.call_func(f, list(args), kwargs, line)
        if "classmethod" in decs:
            return ex.call_func(f, [ClassRef(obj.cls)] + list(args), kwargs, line)
        return ex.call_func(f, [obj] + list(args), kwargs, line)

    def call_ref_method(self, ex, ref, name, args, kwargs, line):
        mc = self.method_contract(ref.cls, name)
        if mc is not None:
            return ex.apply_contract(mc, None, [ref] + list(args), kwargs, line)
        raise Unsupported(f"method {ref.cls}.{name} on symbolic reference at L{line}")

    def call_static(self, ex, cls, name, args, kwargs, line):
        f = self.find_method(cls, name)
        if f is None:
            raise Unsupported(f"{cls}.{name}")
        decs = [ast.unparse(d) for d in f.node.decorator_list]
        if "classmethod" in decs:
            return ex.call_func(f, [ClassRef(cls)] + list(args), kwargs, line)
        return ex.call_func(f, list(args), kwargs, line)

    def construct(self, ex, cls, args, kwargs, line):
        if cls in ("int", "str", "bool", "float", "list", "tuple", "dict", "bytearray", "bytes"):
            from .builtins import call_builtin
            return call_builtin(ex, cls, args, kwargs, line)
        if cls in EXC_BASES:
            return VExc(cls, tuple(args), f"L{line}")
        hook = self.constructors.get(cls) if hasattr(self, "constructors") else None
        if hook is not None:
            return hook(ex, args, kwargs, line)
        idx = self.class_index()
        if cls not in idx:
            raise Unsupported(f"constructor {cls} at L{line}")
        obj = PObj(cls)
        mod, node, bases = idx[cls]
        decs = [ast.unparse(d).split("(")[0] for d in node.decorator_list]
        init = self.find_method(cls, "__init__")
        if init is not None:
            ex.call_func(init, [obj] + list(args), kwargs, line)
            return obj
        # dataclass(es) in the MRO: synthesize __init__ in field order
        flds = self.dataclass_fields(cls, ex)
        if flds is None:
            raise Unsupported(f"constructor {cls}: no __init__ and not a dataclass")
        names = [f for f, _ in flds]
        for i, (f, default) in enumerate(flds):
            if i < len(args):
                v = args[i]
            elif f in kwargs:
                v = kwargs[f]
            elif default is not NotImplemented:
                v = default() if callable(default) else default
            else:
                raise Unsupported(f"{cls}(): missing field {f}")
            ex.set_attr(obj, f, v, line)
        post = self.find_method(cls, "__post_init__")
        if post is not None:
            ex.call_func(post, [obj], {}, line)
        return obj

    def dataclass_fields(self, cls, ex):
        idx = self.class_index()
        out = []
        found = False
        for c in reversed(self.mro(cls)):
            if c not in idx:
                continue
            mod, node, _ = idx[c]
            if not any(ast.unparse(d).split("(")[0] in ("dataclass",) for d in node.decorator_list):
                continue
            found = True
            for n in node.body:
                if isinstance(n, ast.AnnAssign) and isinstance(n.target, ast.Name):
                    default = NotImplemented
                    if n.value is not None:
                        if isinstance(n.value, ast.Call) and ast.unparse(n.value.func) == "field":
                            kw = {k.arg: k.value for k in n.value.keywords}
                            if "init" in kw and ast.unparse(kw["init"]) == "False":
                                continue
                            if "default" in kw:
                                default = _to_value(extract.const_eval(kw["default"]))
                            elif "default_factory" in kw:
                                fac = ast.unparse(kw["default_factory"])
                                default = (lambda fac=fac: PList([]) if fac == "list" else PDict() if fac == "dict" else None)
                        else:
                            try:
                                default = _to_value(extract.const_eval(n.value))
                            except extract.ExtractError:
                                val = n.value
                                default = (lambda val=val, mod=mod: ex.eval(val, {"__closure__": None}))
                    out = [(f, d) for f, d in out if f != n.target.id] + [(n.target.id, default)]
        return out if found else None

    # ---------------------------------------------------------------- symbolic heaps
    def is_field(self, cls, name):
        return any(name in self.class_fields.get(c, {}) for c in self.mro(cls))

    def field_owner(self, cls, fld):
        for c in self.mro(cls):
            if fld in self.class_fields.get(c, {}):
                return c
        raise Unsupported(f"field {cls}.{fld} not declared")

    def field_kind(self, cls, fld):
        return self.class_fields[self.field_owner(cls, fld)][fld]

    def field_sort(self, cls, fld):
        from .sym import sort_of
        return sort_of(self.field_kind(cls, fld))

    def field_value(self, cls, fld, t):
        return self.elem_value(self.field_kind(cls, fld), t)

    def field_term(self, cls, fld, v):
        return self.elem_term(self.field_kind(cls, fld), v)

    def elem_value(self, kind, t):
        if isinstance(kind, str) and kind.startswith("ref:"):
            return SRef(t, kind[4:])
        return wrap(t)

    def elem_term(self, kind, v):
        if kind in ("int", "nat"):
            return as_int_term(v)
        return lift(v)

    # ---------------------------------------------------------------- str / int models
    def int_literal_ok(self, ex, t):
        """Strings `int()` accepts - modelled: optional sign + one or more Unicode decimal digits (no '_', no
        surrounding whitespace): a subset of what CPython accepts; anything else is treated as ValueError.
        Length limit 4300 digits is a precondition where it matters."""
        d = RX.category_re(RX.sre_c.CATEGORY_DIGIT)
        sign = z3.Union(z3.Re("-"), z3.Re("+"))
        return z3.Or(z3.InRe(t, z3.Plus(d)), z3.InRe(t, z3.Concat(sign, z3.Plus(d))))

    def py_int_axiom(self, t):
        """py_int agrees with str.to_int on ASCII digit strings."""
        asc = z3.Plus(z3.Range("0", "9"))
        return z3.Implies(z3.InRe(t, asc), py_int(t) == z3.StrToInt(t))

    def case_axioms(self, t):
        return []

    def str_pred(self, name, t):
        raise Unsupported(f"str.{name} on symbolic string")

    def float_of_str(self, ex, v, line):
        """float(str): either ValueError or some float (which spellings are accepted is not modelled here)."""
        from .sym import SFloat, FloatS
        f = z3.Function("py_float_of_str", Str, FloatS)
        ok = z3.Function("py_float_accepts", Str, Bool)
        t = lift(v)
        if not ex.decide(ok(t), "float(str) accepts"):
            raise PyRaise(VExc("ValueError", (), f"L{line}:float()"))
        return SFloat(f(t))

    def join_slist(self, ex, sep, lst, line):
        raise Unsupported("join of symbolic list")

    def bits_of_masked(self, t):
        return None

    def struct_pack(self, ex, args, line):
        from . import bytemem
        return bytemem.struct_pack(ex, args, line)

    def struct_unpack(self, ex, args, line):
        from . import bytemem
        return bytemem.struct_unpack(ex, args, line)

    def super_attr(self, ex, sup, name, line):
        from .sym import _BoundFunc
        mro = self.mro(sup.obj.cls if isinstance(sup.obj, PObj) else sup.cls)
        after = mro[mro.index(sup.cls) + 1:] if sup.cls in mro else []
        idx = self.class_index()
        for c in after:
            if c not in idx:
                continue
            mod, node, _ = idx[c]
            for n in node.body:
                if isinstance(n, ast.FunctionDef) and n.name == name:
                    return _BoundFunc(Func(n, mod, cls=c), sup.obj)
            if name == "__init__" and any(ast.unparse(d).split("(")[0] == "dataclass" for d in node.decorator_list):
                def dc_init(ex_, *args, c=c):
                    flds = self.dataclass_fields(c, ex_)
                    for i, (f, default) in enumerate(flds):
                        v = args[i] if i < len(args) else (default() if callable(default) else default)
                        if v is NotImplemented:
                            raise Unsupported(f"{c}(): missing field {f}")
                        ex_.set_attr(sup.obj, f, v, line)
                    return None
                return _SpecCallable(dc_init)
        if name == "__init__":
            return _SpecCallable(lambda ex_, *a: None)  # object.__init__
        raise Unsupported(f"super().{name} at L{line}")

    def native_module(self, modname):
        """Integer constants of a generated protobuf module, read from the real module under /venv/bin/python."""
        if modname not in self.native_modules:
            import subprocess, json as _json
            code = ("import json,%s as m\n"
                    "print(json.dumps({k:int(getattr(m,k)) for k in dir(m) if isinstance(getattr(m,k),int) and not k.startswith('_')}))") % modname
            p = subprocess.run(["/venv/bin/python", "-c", code], capture_output=True, text=True, timeout=60,
                               env={**os.environ, "PYTHONPATH": os.path.join(extract.REPO, "src")})
            self.native_modules[modname] = _json.loads(p.stdout.strip().splitlines()[-1])
        return _Module(modname, dict(self.native_modules[modname]))


def _mk_specfn_call(sf):
    def call(ex, *args):
        return wrap(sf.f(*[lift(a) for a in args]))

    return call


def _b(ex, v):
    t = ex.truth(v)
    return z3.BoolVal(t) if isinstance(t, bool) else t


def _ite(ex, c, a, b):
    t = _b(ex, c)
    r = ex.ite_value(t, a, b)
    if r is None:
        raise Unsupported("ite over these types")
    return r


def _quant(ex, f, universal):
    """forall(lambda i, j: body) with integer bound variables."""
    if not isinstance(f, Func) or not isinstance(f.node, ast.Lambda):
        raise Unsupported("forall/exists expects a lambda")
    names = [a.arg for a in f.node.args.args]
    vs = [z3.Int(fresh_name(n)) for n in names]
    env = dict(f.closure) if isinstance(f.closure, dict) else {}
    for n, v in zip(names, vs):
        env[n] = SInt(v)
    body = ex.eval(f.node.body, env)
    t = _b(ex, body)
    return wrap(z3.ForAll(vs, t) if universal else z3.Exists(vs, t))


def _to_value(v):
    if isinstance(v, list):
        return PList([_to_value(x) for x in v])
    if isinstance(v, dict):
        return PDict({k: _to_value(x) for k, x in v.items()})
    if isinstance(v, tuple) and v and v[0] == "re.compile":
        if v[2]:
            raise Unsupported("re.compile with flags inside a table literal")
        return RePattern(v[1])
    if isinstance(v, tuple):
        return tuple(_to_value(x) for x in v)
    return v


# constants of the generated protobuf modules that the verified functions read (checked against the
# generated module natively by the self-test)
GEN_CONSTS = {}

"""Symbolic executor over the Python AST of the real functions: the VC generator.

Path forking is by re-execution with a decision script (each run follows one path; state is
mutated in place; Python exceptions of the interpreted program are `PyRaise`).  Loops are cut
by contract invariants (entry / preservation / decrease obligations) or unrolled with an
unwinding assertion.  Calls to functions that have a contract use the contract only.
Everything that is outside the supported subset raises `Unsupported` - it is never
approximated silently.
"""
from __future__ import annotations

import ast
import itertools

import z3

from . import extract

Int, Bool, Str = z3.IntSort(), z3.BoolSort(), z3.StringSort()
FloatS = z3.DeclareSort("PyFloat")
RefS = z3.IntSort()  # object references are integers (distinctness by construction)

# uninterpreted float primitives (each use is reported as "machine arithmetic uninterpreted")
i2f = z3.Function("i2f", Int, FloatS)
f2i = z3.Function("f2i", FloatS, Int)  # int(float): truncation
fdiv = z3.Function("fdiv", FloatS, FloatS, FloatS)
py_int = z3.Function("py_int", Str, Int)  # int(str) for arbitrary accepted spellings
py_str = z3.Function("py_str", Int, Str)  # str(int); characterised per use by str_axiom
py_lower = z3.Function("py_lower", Str, Str)
py_upper = z3.Function("py_upper", Str, Str)


class Unsupported(Exception):
    pass


class PathEnd(Exception):
    """The current path is finished (cut after an invariant check, or pruned as infeasible)."""


class Restart(Exception):
    pass


class StepSkip(Exception):
    pass


class PyRaise(Exception):
    def __init__(self, exc):
        self.exc = exc


class _Return(Exception):
    def __init__(self, value):
        self.value = value


class _Break(Exception):
    pass


class _Continue(Exception):
    pass


# ------------------------------------------------------------------ values

class SInt:
    __slots__ = ("t",)

    def __init__(self, t):
        self.t = t

    def __repr__(self):
        return f"SInt({self.t})"


class SBool:
    __slots__ = ("t",)

    def __init__(self, t):
        self.t = t

    def __repr__(self):
        return f"SBool({self.t})"


class SStr:
    __slots__ = ("t",)

    def __init__(self, t):
        self.t = t

    def __repr__(self):
        return f"SStr({self.t})"


class SFloat:
    __slots__ = ("t",)

    def __init__(self, t):
        self.t = t


class SOpt:
    """None-or-value: (isnone, val)."""
    __slots__ = ("isnone", "val")

    def __init__(self, isnone, val):
        self.isnone, self.val = isnone, val

    def __repr__(self):
        return f"SOpt({self.isnone},{self.val})"


class PList:
    """A list whose length is concrete (elements may be symbolic). Mutable cell."""

    def __init__(self, items, kind="list"):
        self.items = list(items)
        self.kind = kind  # 'list' or 'bytearray'


class SList:
    """A list of symbolic length: (ln, at) with at : Array Int -> elem sort. Mutable cell."""

    def __init__(self, ln, at, ekind):
        self.ln, self.at, self.ekind = ln, at, ekind


class PDict:
    """dict with concrete keys; optionally ONE symbolic token key (symtok) holding any value, or - for dicts used
    as symbolic maps - a (dom, val) array pair over symbolic keys (sym)."""

    def __init__(self, d=None):
        self.d = dict(d or {})
        self.symtok = None  # (key term, value)
        self.sym = None  # {"dom": Array K->Bool, "val": Array K->V, "vkind": kind, "ksort": sort}


class PObj:
    def __init__(self, cls, fields=None):
        self.cls = cls
        self.fields = dict(fields or {})

    def __repr__(self):
        return f"<{self.cls} {self.fields}>"


class SRef:
    """Object of symbolic identity; fields live in the heap arrays of the executor."""
    __slots__ = ("t", "cls")

    def __init__(self, t, cls):
        self.t, self.cls = t, cls


class VExc:
    def __init__(self, cls, args=(), origin=""):
        self.cls, self.args, self.origin = cls, args, origin

    def __repr__(self):
        return f"{self.cls}@{self.origin}"


class Func:
    def __init__(self, node, mod, closure=None, name=None, cls=None):
        self.node, self.mod, self.closure, self.cls = node, mod, closure, cls
        self.name = name or getattr(node, "name", "<lambda>")


class BoundMethod:
    def __init__(self, obj, name):
        self.obj, self.name = obj, name


class Builtin:
    def __init__(self, name):
        self.name = name

    def __repr__(self):
        return f"<builtin {self.name}>"


class ClassRef:
    def __init__(self, name):
        self.name = name


class ReMatch:
    """Result of re.match on a symbolic string: groups as SStr."""

    def __init__(self, groups, whole):
        self.groups, self.whole = groups, whole


class RePattern:
    def __init__(self, pattern, flags=0):  # flags: int value of the re flags given to re.compile
        self.pattern, self.flags = pattern, flags


EXC_BASES = {
    "BaseException": None, "Exception": "BaseException", "LookupError": "Exception", "IndexError": "LookupError",
    "KeyError": "LookupError", "ValueError": "Exception", "TypeError": "Exception", "ArithmeticError": "Exception",
    "ZeroDivisionError": "ArithmeticError", "OverflowError": "ArithmeticError", "AttributeError": "Exception",
    "StopIteration": "Exception", "struct.error": "Exception", "UnicodeDecodeError": "ValueError",
    "AssertionError": "Exception", "OSError": "Exception", "FileNotFoundError": "OSError",
    "NotImplementedError": "Exception", "RuntimeError": "Exception",
    # numbers_parser.exceptions
    "NumbersError": "Exception", "UnsupportedError": "NumbersError", "NotImplementedError_": "NumbersError",
    "FileError": "NumbersError", "FileFormatError": "NumbersError", "FormulaError": "NumbersError",
    "TokenizerError": "Exception",
}


def exc_isa(cls, base):
    while cls is not None:
        if cls == base:
            return True
        cls = EXC_BASES.get(cls)
    return False


# ------------------------------------------------------------------ helpers on terms

def lift(v):
    """Python/Symbolic value -> z3 term (ints, bools, strs)."""
    if isinstance(v, (SInt, SBool, SStr, SFloat)):
        return v.t
    if isinstance(v, bool):
        return z3.BoolVal(v)
    if isinstance(v, int):
        return z3.IntVal(v)
    if isinstance(v, str):
        return z3.StringVal(v)
    if isinstance(v, SRef):
        return v.t
    if isinstance(v, PObj) and "__ref__" in v.fields:
        return v.fields["__ref__"]
    raise Unsupported(f"lift {type(v).__name__}")


def wrap(t):
    if z3.is_bool(t):
        t = z3.simplify(t)
        if z3.is_true(t):
            return True
        if z3.is_false(t):
            return False
        return SBool(t)
    if z3.is_int(t):
        if not z3.is_int_value(t) and t.num_args() > 0:
            ts = z3.simplify(t)
            if z3.is_int_value(ts):
                return ts.as_long()
        if z3.is_int_value(t):
            return t.as_long()
        return SInt(t)
    if z3.is_string(t):
        if z3.is_string_value(t):
            return t.as_string() if _plain(t) else SStr(t)
        return SStr(t)
    if t.sort() == FloatS:
        return SFloat(t)
    raise Unsupported(f"wrap sort {t.sort()}")


def _plain(t):
    try:
        s = t.as_string()
        return "\\u{" not in s and "\\x" not in s
    except Exception:
        return False


def is_sym(v):
    return isinstance(v, (SInt, SBool, SStr, SFloat, SOpt, SList, SRef))


def is_intlike(v):
    return isinstance(v, (SInt, SBool, int))  # bool is an int in Python


def as_int_term(v):
    if isinstance(v, SBool):
        return z3.If(v.t, z3.IntVal(1), z3.IntVal(0))
    if isinstance(v, bool):
        return z3.IntVal(int(v))
    if isinstance(v, int):
        return z3.IntVal(v)
    if isinstance(v, SInt):
        return v.t
    raise Unsupported(f"as_int {type(v).__name__}")


def floordiv(a, b):
    """Python // on Int terms (b != 0 is a separate safety obligation)."""
    if z3.is_int_value(b) and b.as_long() > 0:
        return a / b  # z3 div == floor for positive divisor
    return z3.If(b > 0, a / b, (-a) / (-b))


def pymod(a, b):
    if z3.is_int_value(b) and b.as_long() > 0:
        return a % b
    return a - b * floordiv(a, b)


# ---- bit-structured integers: value == sum_k ite(b_k, 2**k, 0) with the b_k known (flag words).  Keeps the VCs
# of flag-driven code Boolean + linear instead of div/mod chains (DESIGN spike S6).
BITS = {}


def bits_of(x):
    """{k: Bool term} if x (Int term or python int >= 0) is bit-structured, else None."""
    if isinstance(x, int) and not isinstance(x, bool):
        return {k: z3.BoolVal(True) for k in range(x.bit_length()) if x >> k & 1} if x >= 0 else None
    if z3.is_int_value(x):
        return bits_of(x.as_long())
    return BITS.get(x.get_id())


def mk_bits(d):
    d = {k: z3.simplify(b) for k, b in d.items()}
    d = {k: b for k, b in d.items() if not z3.is_false(b)}
    if all(z3.is_true(b) for b in d.values()):
        return z3.IntVal(sum(2 ** k for k in d))
    terms = [z3.If(b, z3.IntVal(2 ** k), z3.IntVal(0)) if not z3.is_true(b) else z3.IntVal(2 ** k) for k, b in sorted(d.items())]
    t = z3.Sum(terms) if len(terms) > 1 else terms[0]
    BITS[t.get_id()] = d
    _KEEP.append(t)
    return t


_KEEP = []  # keep registered terms alive so ids are not recycled


def bit(x, k):
    d = bits_of(x)
    if d is not None:
        b = d.get(k)
        return z3.IntVal(0) if b is None else (z3.IntVal(1) if z3.is_true(b) else z3.If(b, z3.IntVal(1), z3.IntVal(0)))
    return (x / z3.IntVal(2 ** k)) % 2


def band(x, mask: int):
    """x & mask for a non-negative concrete mask, any integer x (infinite two's complement)."""
    d = bits_of(x)
    if d is not None:
        return mk_bits({k: b for k, b in d.items() if mask >> k & 1})
    if mask >= 3 and mask & (mask + 1) == 0:
        return x % (mask + 1)  # low-bits mask 2**k - 1: the residue (Python's & on any int is two's complement)
    terms = [bit(x, k) * (2 ** k) for k in range(mask.bit_length()) if mask >> k & 1]
    if not terms:
        return z3.IntVal(0)
    return z3.Sum(terms) if len(terms) > 1 else terms[0]


def bor(x, mask: int):
    d = bits_of(x)
    if d is not None:
        nd = dict(d)
        for k in range(mask.bit_length()):
            if mask >> k & 1:
                nd[k] = z3.BoolVal(True)
        return mk_bits(nd)
    return x + mask - band(x, mask)


CANON = z3.Union(z3.Re("0"), z3.Concat(z3.Range("1", "9"), z3.Star(z3.Range("0", "9"))))


def py_str_of_int(n):
    return py_str(n)


def str_axiom(n):
    """str(n) is the canonical decimal spelling: characterises py_str completely (existence and uniqueness of
    the canonical spelling make these axioms consistent and definitional)."""
    d = py_str(n)
    m = py_str(-n)
    return [z3.Implies(n >= 0, z3.And(z3.InRe(d, CANON), z3.StrToInt(d) == n)),
            z3.Implies(n < 0, z3.And(d == z3.Concat(z3.StringVal("-"), m), z3.InRe(m, CANON), z3.StrToInt(m) == -n))]


_fresh = itertools.count()


def fresh_name(base):
    return f"{base}!{next(_fresh)}"


# ------------------------------------------------------------------ obligations

class Obligation:
    def __init__(self, name, hyps, goal, kind="post", line=0, extra=None, expect="unsat"):
        self.name, self.hyps, self.goal, self.kind, self.line = name, list(hyps), goal, kind, line
        self.extra = extra or {}
        self.expect = expect  # 'unsat' (proof obligation) or 'sat' (cover / canary)

    def formula(self):
        if self.expect == "sat" and self.goal is None:
            return list(self.hyps)
        return list(self.hyps) + [z3.Not(self.goal)]


# ------------------------------------------------------------------ the executor

class Executor:
    """One instance explores all paths of one function under one contract."""

    MAX_PATHS = 4000

    def __init__(self, ctx, finfo, contract):
        self.ctx = ctx  # VerifCtx: contracts, spec functions, class models
        self.finfo = finfo
        self.contract = contract
        self.obligations = []
        self.paths = 0
        self.path_log = []
        self.no_merge = set()
        self.notes = set()  # e.g. float ops used
        self.band_terms = {}
        self.shl_terms = {}
        self._keep = []

    # ---- path management
    def reset_path(self, script):
        self.script = list(script)
        self.pos = 0
        self.pc = []
        self.hints = []
        self.path_obls = []
        self.in_merge = 0

    def decide(self, cond, why=""):
        """Fork on a symbolic boolean; returns the Python bool for this path."""
        if isinstance(cond, bool):
            return cond
        c = z3.simplify(cond)
        if z3.is_true(c):
            return True
        if z3.is_false(c):
            return False
        # syntactic pruning against the path condition
        for p in self.pc:
            if p.eq(c):
                return True
            if z3.is_not(p) and p.arg(0).eq(c):
                return False
            if z3.is_not(c) and c.arg(0).eq(p):
                return False
        if self.in_merge:
            raise _MergeAbort()
        if self.pos < len(self.script):
            d = self.script[self.pos]
        else:
            d = True
            self.script.append(True)
            self.pending.append(self.script[: self.pos] + [False])
        self.pos += 1
        self.pc.append(c if d else z3.Not(c))
        return d

    def assume(self, t):
        if isinstance(t, bool):
            if not t:
                raise PathEnd()
            return
        t0 = t
        t = z3.simplify(t)
        if z3.is_false(t):
            raise PathEnd()
        if z3.is_true(t):
            return
        if z3.is_and(t0):  # keep conjuncts as separate facts (syntactic pruning in decide() sees them)
            for ch in t0.children():
                self.assume(ch)
            return
        self.pc.append(t)

    def oblige(self, name, goal, kind="safety", line=0, extra=None):
        """Record a proof obligation under the current path condition, then assume it."""
        if isinstance(goal, bool):
            goal = z3.BoolVal(goal)
        g = z3.simplify(goal)
        if z3.is_true(g):
            self.trivial = getattr(self, "trivial", 0) + 1
            self.path_obls.append(Obligation(name, [], z3.BoolVal(True), kind, line, extra))
            return
        extra = dict(extra or {})
        extra["inputs"] = getattr(self, "cur_inputs", None)
        self.path_obls.append(Obligation(name, self.pc + self.hints, goal, kind, line, extra))
        if not z3.is_false(g):
            self.pc.append(goal)

    # ---- truthiness / conversions
    def truth(self, v):
        if isinstance(v, SBool):
            return v.t
        if isinstance(v, SInt):
            return v.t != 0
        if isinstance(v, SStr):
            return z3.Length(v.t) > 0
        if isinstance(v, SOpt):
            inner = self.truth(v.val)
            if isinstance(inner, bool):
                inner = z3.BoolVal(inner)
            return z3.And(z3.Not(v.isnone), inner)
        if isinstance(v, PList):
            return len(v.items) > 0
        if isinstance(v, SList):
            return v.ln > 0
        if isinstance(v, PDict):
            return len(v.d) > 0
        if isinstance(v, (PObj, SRef, Func, ReMatch, Builtin, ClassRef)):
            return True
        if isinstance(v, Custom):
            return v.truth(self)
        if isinstance(v, SFloat):
            raise Unsupported("truth of float")
        if v is None or isinstance(v, (bool, int, str, tuple, float, bytes)):
            return bool(v)
        raise Unsupported(f"truth of {type(v).__name__}")

    def test(self, v, why=""):
        t = self.truth(v)
        return self.decide(t, why)

    def unopt(self, v, line=0, what="value"):
        """Use an optional as its value: obligation that it is not None (else TypeError/AttributeError)."""
        if isinstance(v, SOpt):
            self.safety(z3.Not(v.isnone), "TypeError", f"{what}-not-None", line)
            return v.val
        if v is None:
            self.safety(False, "TypeError", f"{what}-not-None", line)
        return v

    def safety(self, cond, exc_cls, label, line=0):
        """A built-in operation raises `exc_cls` unless `cond`.

        mode 'fork': the exception is a possible outcome of the path (raised symbolically);
        mode 'assert': an obligation that it cannot happen."""
        if isinstance(cond, bool) and cond:
            return
        if getattr(self, "contract_safety_assert", False):
            i_guard = self.pc[-1]
            self.path_obls.append(Obligation(f"safety@L{line}/{label}(every element)", self.pc + self.hints,
                                             cond if not isinstance(cond, bool) else z3.BoolVal(cond), "safety", line,
                                             {"inputs": getattr(self, "cur_inputs", None)}))
            return
        if self.contract.safety_mode == "fork" or exc_cls in self.contract.fork_on:
            if not self.decide(cond if not isinstance(cond, bool) else z3.BoolVal(cond), label):
                raise PyRaise(VExc(exc_cls, (), f"L{line}:{label}"))
        else:
            self.oblige(f"safety@L{line}/{label}", cond, "safety", line)

    # ---- fresh values
    def fresh(self, kind, base="v"):
        if isinstance(kind, str):
            if kind == "int":
                return SInt(z3.Int(fresh_name(base)))
            if kind == "nat":
                v = z3.Int(fresh_name(base))
                self.assume(v >= 0)
                return SInt(v)
            if kind == "bool":
                return SBool(z3.Bool(fresh_name(base)))
            if kind == "str":
                return SStr(z3.String(fresh_name(base)))
            if kind == "float":
                return SFloat(z3.Const(fresh_name(base), FloatS))
            if kind == "none":
                return None
            if kind.startswith("opt"):
                return SOpt(z3.Bool(fresh_name(base + "_isnone")), self.fresh(kind[3:], base))
            if kind.startswith("ref:"):
                return SRef(z3.Int(fresh_name(base)), kind[4:])
            if kind in self.ctx.kinds:
                return self.ctx.kinds[kind](self, base)
        if isinstance(kind, tuple):
            if kind[0] == "list":
                ln = z3.Int(fresh_name(base + "_len"))
                self.assume(ln >= 0)
                return SList(ln, z3.Const(fresh_name(base + "_at"), z3.ArraySort(Int, sort_of(kind[1]))), kind[1])
            if kind[0] == "tuple":
                return tuple(self.fresh(k, f"{base}_{i}") for i, k in enumerate(kind[1]))
            if kind[0] == "obj":
                return PObj(kind[1], {f: self.fresh(k, f"{base}_{f}") for f, k in kind[2].items()})
        raise Unsupported(f"fresh kind {kind}")

    def havoc_like(self, v, base):
        """A fresh value of the same shape as v (used when cutting loops)."""
        if isinstance(v, bool) or isinstance(v, SBool):
            return self.fresh("bool", base)
        if isinstance(v, (int, SInt)):
            return self.fresh("int", base)
        if isinstance(v, (str, SStr)):
            return self.fresh("str", base)
        if isinstance(v, SFloat):
            return self.fresh("float", base)
        if isinstance(v, SOpt):
            return SOpt(z3.Bool(fresh_name(base + "_isnone")), self.havoc_like(v.val, base))
        if isinstance(v, SList):
            ln = z3.Int(fresh_name(base + "_len"))
            self.assume(ln >= 0)
            return SList(ln, z3.Const(fresh_name(base + "_at"), v.at.sort()), v.ekind)
        if isinstance(v, tuple):
            return tuple(self.havoc_like(x, base) for x in v)
        from . import grid as G
        if isinstance(v, G.SGrid):
            return G.SGrid.fresh(self, base, v.cls)
        if isinstance(v, SRef):
            return SRef(z3.Int(fresh_name(base)), v.cls)
        raise Unsupported(f"havoc of {type(v).__name__} ({base})")

    # ================================================================ statements
    def exec_block(self, stmts, env):
        for s in stmts:
            self.exec_stmt(s, env)

    def exec_stmt(self, s, env):
        m = getattr(self, "s_" + type(s).__name__, None)
        if m is None:
            raise Unsupported(f"statement {type(s).__name__} at L{s.lineno}")
        self.cur_line = s.lineno
        self.cur_env = env
        return m(s, env)

    def s_Expr(self, s, env):
        if isinstance(s.value, ast.Constant):
            return  # docstring
        self.eval(s.value, env)

    def s_Pass(self, s, env):
        pass

    def s_Return(self, s, env):
        raise _Return(self.eval(s.value, env) if s.value is not None else None)

    def s_Break(self, s, env):
        raise _Break()

    def s_Continue(self, s, env):
        raise _Continue()

    def s_Assert(self, s, env):
        v = self.eval(s.test, env)
        self.safety(self.truth(v), "AssertionError", "assert", s.lineno)

    def s_Raise(self, s, env):
        if s.exc is None:
            raise PyRaise(env["__active_exc__"])
        e = s.exc
        if isinstance(e, ast.Call):
            cname = ast.unparse(e.func)
            args = []
            for a in e.args:
                try:
                    args.append(self.eval(a, env))
                except Unsupported:
                    args.append(SStr(z3.String(fresh_name("msg"))))
        else:
            v = self.eval(e, env) if not isinstance(e, ast.Name) else env.get(e.id, None)
            if isinstance(v, VExc):
                raise PyRaise(v)
            cname, args = ast.unparse(e), []
        cname = self.resolve_exc({"error": "struct.error"}.get(cname, cname))
        exc = VExc(cname, tuple(args), f"L{s.lineno}")
        if s.cause is not None:
            pass  # `from e` does not change the class
        raise PyRaise(exc)

    def s_Assign(self, s, env):
        v = self.eval(s.value, env)
        if self.contract.local_views and len(s.targets) == 1 and isinstance(s.targets[0], ast.Name) \
                and s.targets[0].id in self.contract.local_views and ((isinstance(v, PList) and not v.items) or (isinstance(v, PDict) and not v.d and v.sym is None and v.symtok is None)):
            v = self.contract.local_views[s.targets[0].id](self, env)  # ghost view of a local list, created empty
        for t in s.targets:
            self.assign(t, v, env)

    def s_AnnAssign(self, s, env):
        if s.value is not None:
            self.assign(s.target, self.eval(s.value, env), env)

    def s_AugAssign(self, s, env):
        cur = self.eval(_load(s.target), env)
        rhs = self.eval(s.value, env)
        if isinstance(cur, PList) and isinstance(s.op, ast.Add) and isinstance(rhs, Custom) and hasattr(rhs, "prefixed_by"):
            self.assign(s.target, rhs.prefixed_by(self, cur), env)  # concrete prefix + ghost-view list: the contract's view absorbs the prefix
            return
        if isinstance(cur, PList) and isinstance(s.op, ast.Add):
            # list/bytearray += iterable : in-place extend
            cur.items.extend(self.iter_concrete(rhs))
            return
        if isinstance(cur, _Sliceable) and isinstance(s.op, ast.Add) and hasattr(cur, "append"):
            cur.append(self, rhs, s.lineno)
            return
        v = self.binop(s.op, cur, rhs, s.lineno)
        self.assign(s.target, v, env)

    def assign(self, t, v, env):
        if isinstance(t, ast.Name):
            env[t.id] = v
        elif isinstance(t, (ast.Tuple, ast.List)):
            items = self.iter_concrete(v)
            stars = [i for i, e_ in enumerate(t.elts) if isinstance(e_, ast.Starred)]
            if len(stars) == 1 and len(items) >= len(t.elts) - 1:
                # (a, b, *rest) = items : the starred name takes the (concrete-length) remainder as a list
                i = stars[0]
                after = len(t.elts) - i - 1
                mid = items[i:len(items) - after]
                for a, b in zip(t.elts[:i], items[:i]):
                    self.assign(a, b, env)
                self.assign(t.elts[i].value, PList(list(mid)), env)
                for a, b in zip(t.elts[i + 1:], items[len(items) - after:]):
                    self.assign(a, b, env)
                return
            if stars or len(items) != len(t.elts):
                raise Unsupported("unpack length mismatch")
            for a, b in zip(t.elts, items):
                self.assign(a, b, env)
        elif isinstance(t, ast.Attribute):
            obj = self.eval(t.value, env)
            self.set_attr(obj, t.attr, v, t.lineno)
        elif isinstance(t, ast.Subscript):
            obj = self.eval(t.value, env)
            self.set_item(obj, t.slice, v, env, t.lineno)
        else:
            raise Unsupported(f"assign target {type(t).__name__}")

    def set_attr(self, obj, name, v, line=0):
        if isinstance(obj, PObj):
            hook = self.ctx.setattr_hooks.get(obj.cls)
            if hook is not None and hook(self, obj, name, v):
                return
            obj.fields[name] = v
            return
        if isinstance(obj, SRef):
            self.heap_store(obj, name, v)
            return
        raise Unsupported(f"set attribute .{name} on {type(obj).__name__} at L{line}")

    def s_If(self, s, env):
        cond = self.eval(s.test, env)
        t = self.truth(cond)
        if not isinstance(t, bool):
            t = z3.simplify(t)
            if z3.is_true(t):
                t = True
            elif z3.is_false(t):
                t = False
        if isinstance(t, bool):
            return self.exec_block(s.body if t else s.orelse, env)
        if self.contract.merge and id(s) not in self.no_merge and not self.in_merge:
            if self.try_merge_if(s, t, env):
                return
        taken = self.decide(t, f"if@L{s.lineno}")
        self.narrow_optional(s.test, taken, env)
        if taken:
            self.exec_block(s.body, env)
        else:
            self.exec_block(s.orelse, env)

    def narrow_optional(self, test, taken, env):
        """`if x is not None:` / `if x is None:` - on the branch where x is known not None, x is its value."""
        if isinstance(test, ast.BoolOp):
            # `a is None or b is None` not taken / `a is not None and b is not None` taken: every operand holds / fails
            if (isinstance(test.op, ast.Or) and not taken) or (isinstance(test.op, ast.And) and taken):
                for sub in test.values:
                    self.narrow_optional(sub, taken, env)
            return
        if isinstance(test, ast.Compare) and isinstance(test.left, ast.NamedExpr) and isinstance(test.left.target, ast.Name):
            # `(x := e) is not None`: narrow the name just bound
            import copy as _copy
            test = _copy.copy(test)
            test.left = ast.Name(id=test.left.target.id, ctx=ast.Load())
        if isinstance(test, ast.Compare) and len(test.ops) == 1 and isinstance(test.left, ast.Name) and \
                isinstance(test.comparators[0], ast.Constant) and test.comparators[0].value is None:
            notnone = taken if isinstance(test.ops[0], ast.IsNot) else (not taken) if isinstance(test.ops[0], ast.Is) else None
            v = env.get(test.left.id)
            if notnone and isinstance(v, SOpt):
                env[test.left.id] = v.val
            elif notnone is False and isinstance(v, SOpt):
                env[test.left.id] = None

    # ---- if-merging (used for long chains of independent flag tests)
    def try_merge_if(self, s, t, env):
        from .merge import clone_state, merge_into
        root0 = self.merge_roots(env)
        snap, _ = clone_state(root0)
        pc0, hints0 = list(self.pc), list(self.hints)
        nob = len(self.path_obls)
        self.in_merge += 1
        try:
            try:
                self.pc.append(t)
                self.exec_block(s.body, env)
                pc1 = self.pc[len(pc0) + 1:]
                st1, _ = clone_state(self.merge_roots(env))
                # restore and run the else branch
                self.restore_roots(env, snap)
                self.pc = pc0 + [z3.Not(t)]
                self.exec_block(s.orelse, env)
                pc2 = self.pc[len(pc0) + 1:]
            except (_MergeAbort, _Return, _Break, _Continue, PyRaise):
                self.no_merge.add(id(s))
                raise Restart()
        finally:
            self.in_merge -= 1
        # facts assumed inside the branches are kept guarded
        self.pc = pc0 + [z3.Implies(t, p) for p in pc1] + [z3.Implies(z3.Not(t), p) for p in pc2]
        try:
            merge_into(self, t, st1, self.merge_roots(env), env)
        except Unsupported:
            self.no_merge.add(id(s))
            raise Restart()
        return True

    def merge_roots(self, env):
        return {"env": env, "extra": self.extra_roots}

    def restore_roots(self, env, snap):
        from .merge import clone_state
        c, _ = clone_state(snap)
        env.clear()
        env.update(c["env"])
        self.extra_roots.clear()
        self.extra_roots.update(c["extra"])

    def s_While(self, s, env):
        spec = self.contract.loop_spec(s, self)
        if spec is None:
            return self.unroll_while(s, env)
        self.cut_loop(s, env, spec, kind="while")

    def unroll_while(self, s, env):
        bound = self.contract.unroll_bound(s)
        n = 0
        while True:
            c = self.eval(s.test, env)
            if not self.test(c, f"while@L{s.lineno}"):
                break
            if n >= bound:
                self.oblige(f"unwind@L{s.lineno}", z3.BoolVal(False), "unwind", s.lineno)
                raise PathEnd()
            n += 1
            try:
                self.exec_block(s.body, env)
            except _Break:
                return
            except _Continue:
                pass
        self.exec_block(s.orelse, env)

    def assigned_names(self, stmts):
        names = []
        for st in stmts:
            for n in ast.walk(st):
                if isinstance(n, ast.Name) and isinstance(n.ctx, ast.Store) and n.id not in names:
                    names.append(n.id)
                # comprehensions have their own scope but keeping them is harmless
        return names

    def cut_loop(self, s, env, spec, kind, iter_setup=None):
        """Invariant cut of a loop.  spec: LoopSpec(invariant=[exprs], decreases=expr, modifies=[...])."""
        L = s.lineno
        tag = f"loop@L{L}"
        for g in spec.pre:
            g(self, env)
        # 1. invariant on entry
        for i, inv in enumerate(spec.invariants):
            self.oblige(f"{tag}/inv{i}-entry", self.spec_bool(inv, env, spec.hints), "loop-entry", L)
        # 2. havoc what the body assigns
        mod = self.assigned_names(s.body) + list(spec.modifies)
        if iter_setup is not None:
            mod += iter_setup["vars"]
        for name in mod:
            if "." in name:
                base, fld = name.split(".", 1)
                o = env[base]
                cur = o.fields[fld]
                if isinstance(cur, (PList, PObj, PDict)):
                    raise Unsupported(f"havoc of field {name} holding {type(cur).__name__}")
                o.fields[fld] = self.havoc_like(cur, f"{fld}_L{L}")
            elif name in spec.kinds:
                if name in env and spec.kinds[name] != "skip":  # "skip": the contract's own havoc action handles it
                    env[name] = self.fresh(spec.kinds[name], f"{name}_L{L}")
            elif name in env and not isinstance(env[name], (Func, Builtin, ClassRef)):
                env[name] = self.havoc_like(env[name], f"{name}_L{L}")
        for hv in spec.havoc:  # contract-provided havoc of heap views
            hv(self, env)
        if iter_setup is not None:
            iter_setup["assume"](self, env)
        for i, inv in enumerate(spec.invariants):
            self.assume(self.spec_bool(inv, env, spec.hints))
        dec0 = self.spec_int(spec.decreases, env) if spec.decreases else None
        # 3. branch on the loop test
        if iter_setup is not None:
            more = iter_setup["test"](self, env)
        else:
            more = self.truth(self.eval(s.test, env))
        if self.decide(more, f"{tag}/test"):
            if iter_setup is not None:
                iter_setup["bind"](self, env)
            try:
                self.exec_block(s.body, env)
            except _Continue:
                pass
            except _Break:
                return
            for i, st in enumerate(spec.steps):
                self.oblige(f"{tag}/step{i}", self.spec_bool(st, env, spec.hints), "proof-step", L)
            if iter_setup is not None:
                iter_setup["step"](self, env)
            for i, inv in enumerate(spec.invariants):
                self.oblige(f"{tag}/inv{i}-preserved", self.spec_bool(inv, env, spec.hints), "loop-step", L)
            if dec0 is not None:
                dec1 = self.spec_int(spec.decreases, env)
                self.oblige(f"{tag}/decreases", z3.And(dec0 >= 0, dec1 < dec0), "loop-term", L)
            self.finish_path("loop-cut")
            raise PathEnd()
        else:
            self.exec_block(s.orelse, env)

    def s_For(self, s, env):
        it = self.eval(s.iter, env)
        spec = self.contract.loop_spec(s, self)
        items = self.try_concrete_iter(it)
        if items is not None and spec is None:
            for x in items:
                self.assign(s.target, x, env)
                try:
                    self.exec_block(s.body, env)
                except _Break:
                    return
                except _Continue:
                    continue
            self.exec_block(s.orelse, env)
            return
        if spec is None:
            return self.unroll_for(s, it, env)
        self.cut_loop(s, env, spec, "for", self.iter_protocol(s, it, env, spec))

    def iter_protocol(self, s, it, env, spec):
        """Index-based view of `for target in it` for the invariant cut; the ghost index is spec.index."""
        idx = spec.index or "_i"
        seq = self.as_indexable(it)
        L = s.lineno

        def assume(ex, env):
            env[idx] = SInt(z3.Int(fresh_name(f"{idx}_L{L}")))
            ex.assume(z3.And(env[idx].t >= 0, env[idx].t <= seq["len"]))

        def test(ex, env):
            return env[idx].t < seq["len"]

        def bind(ex, env):
            ex.assign(s.target, seq["get"](ex, env[idx].t), env)

        def step(ex, env):
            env[idx] = wrap(env[idx].t + 1) if not isinstance(env[idx], int) else env[idx] + 1

        env.setdefault(idx, 0)
        return {"vars": [idx], "assume": assume, "test": test, "bind": bind, "step": step}

    def as_indexable(self, it):
        if isinstance(it, _Range):
            n = it.length()
            return {"len": n, "get": lambda ex, i: wrap(it.start_t + i * it.step_t)}
        if isinstance(it, SStr):
            return {"len": z3.Length(it.t), "get": lambda ex, i: SStr(z3.SubString(it.t, i, 1))}
        if isinstance(it, SList):
            return {"len": it.ln, "get": lambda ex, i: ex.list_elem(it, i)}
        if isinstance(it, _Enumerate):
            inner = self.as_indexable(it.inner)
            return {"len": inner["len"], "get": lambda ex, i: (wrap(i + as_int_term(it.start)), inner["get"](ex, i))}
        if isinstance(it, _Reversed):
            inner = self.as_indexable(it.inner)
            return {"len": inner["len"], "get": lambda ex, i: inner["get"](ex, inner["len"] - 1 - i)}
        if isinstance(it, PList):
            return {"len": z3.IntVal(len(it.items)), "get": lambda ex, i: ex.plist_get_sym(it, i)}
        if isinstance(it, _Zip):
            inners = [self.as_indexable(x) for x in it.inners]
            n = inners[0]["len"]
            for x in inners[1:]:
                n = z3.If(x["len"] < n, x["len"], n)
            return {"len": z3.simplify(n), "get": lambda ex, i: tuple(x["get"](ex, i) for x in inners)}
        from . import grid as G
        if isinstance(it, G.SRowVal):
            return {"len": it.ln, "get": lambda ex, i: SRef(z3.Select(it.arr, i), it.cls)}
        if isinstance(it, G.SRowRef):
            return {"len": z3.Select(it.grid.rl, it.r), "get": lambda ex, i: SRef(it.grid.cell(it.r, i), it.grid.cls)}
        if isinstance(it, G.SGrid):
            return {"len": it.nr, "get": lambda ex, i: G.SRowRef(it, i)}
        if isinstance(it, G.SGridView):
            return {"len": G.length(ex_ := self, it), "get": lambda ex, i: G.SRowRef(it.grid, it.lo + i)}
        if isinstance(it, Custom) and hasattr(it, "length") and hasattr(it, "getitem"):
            return {"len": it.length(self), "get": lambda ex, i: it.getitem(ex, wrap(i), 0)}
        raise Unsupported(f"iteration over {type(it).__name__}")

    def unroll_for(self, s, it, env):
        seq = self.as_indexable(it)
        bound = self.contract.unroll_bound(s)
        i = 0
        while True:
            more = seq["len"] > i
            if not self.decide(more, f"for@L{s.lineno}"):
                break
            if i >= bound:
                self.oblige(f"unwind@L{s.lineno}", z3.BoolVal(False), "unwind", s.lineno)
                raise PathEnd()
            self.assign(s.target, seq["get"](self, z3.IntVal(i)), env)
            i += 1
            try:
                self.exec_block(s.body, env)
            except _Break:
                return
            except _Continue:
                continue
        self.exec_block(s.orelse, env)

    def try_concrete_iter(self, it):
        try:
            return self.iter_concrete(it)
        except Unsupported:
            return None

    def iter_concrete(self, v):
        if isinstance(v, (tuple, list)):
            return list(v)
        if isinstance(v, PList):
            return list(v.items)
        if isinstance(v, str):
            return list(v)
        if isinstance(v, bytes):
            return list(v)
        if isinstance(v, PDict):
            return list(v.d.keys())
        if isinstance(v, _Range):
            if v.concrete():
                return list(range(v.start, v.stop, v.step))
            raise Unsupported("symbolic range")
        if isinstance(v, _Enumerate):
            inner = self.iter_concrete(v.inner)
            if isinstance(v.start, int):
                return [(v.start + i, x) for i, x in enumerate(inner)]
            return [(wrap(as_int_term(v.start) + i), x) for i, x in enumerate(inner)]
        if isinstance(v, _Reversed):
            return list(reversed(self.iter_concrete(v.inner)))
        if isinstance(v, _Zip):
            cols = [self.iter_concrete(x) for x in v.inners]
            return list(zip(*cols))
        if isinstance(v, _DictItems):
            return list(v.d.d.items())
        if isinstance(v, _DictValues):
            return list(v.d.d.values())
        raise Unsupported(f"concrete iteration over {type(v).__name__}")

    def s_Try(self, s, env):
        try:
            try:
                self.exec_block(s.body, env)
            except PyRaise as pr:
                for h in s.handlers:
                    if self.handler_matches(h, pr.exc, env):
                        if h.name:
                            env[h.name] = pr.exc
                        saved = env.get("__active_exc__")
                        env["__active_exc__"] = pr.exc
                        try:
                            self.exec_block(h.body, env)
                        finally:
                            env["__active_exc__"] = saved
                        break
                else:
                    raise
            else:
                self.exec_block(s.orelse, env)
        except (PyRaise, _Return, _Break, _Continue):
            if s.finalbody:
                self.exec_block(s.finalbody, env)
            raise
        else:
            if s.finalbody:
                self.exec_block(s.finalbody, env)

    def resolve_exc(self, name):
        """The exception class a name denotes in the module being executed.  A module-level import or class definition that binds the name
        of a builtin exception shadows the builtin: `from numbers_parser.exceptions import NotImplementedError` makes `except
        NotImplementedError` catch the library's class, not the one zipfile raises."""
        name = self.ctx.exc_alias.get(name, name)
        BUILTIN = {"NotImplementedError", "ValueError", "KeyError", "IndexError", "TypeError", "LookupError", "OSError", "RuntimeError",
                   "AttributeError", "StopIteration", "EOFError", "UnicodeError", "UnicodeDecodeError", "Exception", "BaseException"}
        if name in BUILTIN:
            from . import extract as _ex
            mod = getattr(self.finfo, "mod", None)
            cache = self.ctx.__dict__.setdefault("_exc_imports", {})
            if mod not in cache:
                names = {}
                try:
                    _, tree = _ex.load_module(mod)
                    for n in tree.body:
                        if isinstance(n, ast.ImportFrom) and n.module:
                            for a in n.names:
                                names[a.asname or a.name] = n.module
                        elif isinstance(n, ast.ClassDef):
                            names[n.name] = mod
                except Exception:  # noqa: BLE001
                    pass
                cache[mod] = names
            src = cache[mod].get(name)
            if src is not None:
                if name == "NotImplementedError" and src.endswith("exceptions"):
                    return "NotImplementedError_"
                shadow = f"{name}@{src}"
                EXC_BASES.setdefault(shadow, "Exception")
                return shadow
        return name

    def handler_matches(self, h, exc, env):
        if h.type is None:
            return True
        types = h.type.elts if isinstance(h.type, ast.Tuple) else [h.type]
        for t in types:
            name = self.resolve_exc(ast.unparse(t))
            if exc_isa(exc.cls, name):
                return True
        return False

    def s_With(self, s, env):
        # only `with suppress(E, ...):`
        if len(s.items) == 1 and isinstance(s.items[0].context_expr, ast.Call) and \
                ast.unparse(s.items[0].context_expr.func) == "suppress":
            names = [ast.unparse(a) for a in s.items[0].context_expr.args]
            try:
                self.exec_block(s.body, env)
            except PyRaise as pr:
                if not any(exc_isa(pr.exc.cls, self.resolve_exc(n)) for n in names):
                    raise
            return
        # generic `with <expr> [as name]:` - the context manager is assumed not to swallow exceptions (true of files,
        # zip files and the other managers the verified code uses); __exit__ itself is assumed not to raise
        for it in s.items:
            v = self.eval(it.context_expr, env)
            if it.optional_vars is not None:
                self.assign(it.optional_vars, v, env)
        self.notes.add("with-statement: context manager assumed transparent (no exception swallowed, __exit__ does not raise)")
        return self.exec_block(s.body, env)

    def s_FunctionDef(self, s, env):
        env[s.name] = Func(s, self.finfo.mod, closure=env)

    def s_Delete(self, s, env):
        for t in s.targets:
            if isinstance(t, ast.Subscript):
                obj = self.eval(t.value, env)
                self.del_item(obj, t.slice, env, s.lineno)
            else:
                raise Unsupported("del of non-subscript")

    def s_Global(self, s, env):
        raise Unsupported("global")

    # ================================================================ expressions
    def eval(self, e, env):
        if self.contract.opaque and not self.in_spec and isinstance(e, (ast.Attribute, ast.Subscript, ast.Call, ast.ListComp, ast.DictComp, ast.GeneratorExp, ast.BinOp, ast.List)):
            k = self.contract.opaque.get(ast.unparse(e))
            if k is not None:
                if callable(k):
                    self.notes.add(f"sub-expression bound by the contract's ghost view: {ast.unparse(e)}")
                    return k(self, env)
                self.notes.add(f"opaque sub-expression abstracted to a fresh {k}: {ast.unparse(e)}")
                return self.fresh(k, "opaque")
        m = getattr(self, "e_" + type(e).__name__, None)
        if m is None:
            raise Unsupported(f"expression {type(e).__name__} at L{getattr(e, 'lineno', 0)}")
        return m(e, env)

    def e_Constant(self, e, env):
        return e.value

    def e_Name(self, e, env):
        scope = env
        while scope is not None:
            if e.id in scope:
                return scope[e.id]
            scope = scope.get("__closure__")
        return self.ctx.global_name(e.id, self)

    def e_Tuple(self, e, env):
        out = []
        for x in e.elts:
            if isinstance(x, ast.Starred):
                out.extend(self.iter_concrete(self.eval(x.value, env)))
            else:
                out.append(self.eval(x, env))
        return tuple(out)

    def e_List(self, e, env):
        return PList(list(self.e_Tuple(e, env)))

    def e_Dict(self, e, env):
        d = PDict()
        for k, v in zip(e.keys, e.values):
            kk = self.eval(k, env)
            if is_sym(kk):
                raise Unsupported("dict literal with symbolic key")
            d.d[kk] = self.eval(v, env)
        return d

    def e_JoinedStr(self, e, env):
        parts = []
        for v in e.values:
            if isinstance(v, ast.Constant):
                parts.append(v.value)
            else:
                if v.format_spec is not None or v.conversion not in (-1, 115):
                    self.eval(v.value, env)  # evaluated for its safety obligations; the formatted text is opaque
                    parts.append(SStr(z3.String(fresh_name("fmt"))))
                    continue
                parts.append(self.to_str(self.eval(v.value, env), v.lineno))
        return self.concat_strs(parts)

    def concat_strs(self, parts):
        if all(isinstance(p, str) for p in parts):
            return "".join(parts)
        ts = [lift(p) for p in parts if not (isinstance(p, str) and p == "")]
        if len(ts) == 1:
            return wrap(ts[0])
        return SStr(z3.Concat(*ts))

    def to_str(self, v, line=0):
        if isinstance(v, (str, SStr)):
            return v
        if isinstance(v, bool):
            return str(v)
        if isinstance(v, int):
            return str(v)
        if isinstance(v, SInt):
            for ax in str_axiom(v.t):
                if not any(ax.eq(h) for h in self.hints):
                    self.hints.append(ax)
            return SStr(py_str_of_int(v.t))
        if isinstance(v, SBool):
            return SStr(z3.If(v.t, z3.StringVal("True"), z3.StringVal("False")))
        if v is None:
            return "None"
        if isinstance(v, VExc):
            return SStr(z3.String(fresh_name("excmsg")))
        if isinstance(v, SOpt):
            inner = self.to_str(v.val, line)
            return SStr(z3.If(v.isnone, z3.StringVal("None"), lift(inner)))
        if isinstance(v, PObj):
            m = self.ctx.find_method(v.cls, "__str__")
            if m is not None:
                return self.call_value(BoundMethod(v, "__str__"), [], {}, line)
        raise Unsupported(f"str() of {type(v).__name__}")

    def e_BoolOp(self, e, env):
        isand = isinstance(e.op, ast.And)
        v = None
        for i, x in enumerate(e.values):
            v = self.eval(x, env)
            if i == len(e.values) - 1:
                return v
            t = self.truth(v)
            if isinstance(t, bool):
                if t != isand:
                    return v
                continue
            # symbolic: if the remaining operands are side-effect free booleans, stay symbolic
            rest = e.values[i + 1:]
            if all(self.pure_bool_expr(r) for r in rest) and not isinstance(v, SOpt) and self.is_boolish(v):
                try:
                    saved = self.in_merge
                    self.in_merge += 1
                    try:
                        rs = [self.truth(self.eval(r, env)) for r in rest]
                    finally:
                        self.in_merge = saved
                    rs = [z3.BoolVal(r) if isinstance(r, bool) else r for r in rs]
                    return wrap(z3.And(t, *rs) if isand else z3.Or(t, *rs))
                except _MergeAbort:
                    pass
            d = self.decide(t, "boolop")
            if d != isand:
                if d and isinstance(v, SOpt):
                    return v.val  # truthy => not None on this path
                return v
        return v

    def is_boolish(self, v):
        return isinstance(v, (SBool, bool))

    def pure_bool_expr(self, e):
        if isinstance(e, ast.Compare):
            return all(self.pure_simple(x) for x in [e.left] + e.comparators)
        if isinstance(e, ast.UnaryOp) and isinstance(e.op, ast.Not):
            return self.pure_bool_expr(e.operand)
        if isinstance(e, ast.BoolOp):
            return all(self.pure_bool_expr(x) for x in e.values)
        return False

    def pure_simple(self, e):
        if isinstance(e, (ast.Name, ast.Constant)):
            return True
        if isinstance(e, ast.Attribute):
            return self.pure_simple(e.value)
        if isinstance(e, ast.BinOp):
            return self.pure_simple(e.left) and self.pure_simple(e.right) and isinstance(e.op, (ast.Add, ast.Sub, ast.Mult))
        if isinstance(e, ast.UnaryOp):
            return self.pure_simple(e.operand)
        if isinstance(e, ast.Call) and isinstance(e.func, ast.Name) and e.func.id == "len":
            return all(self.pure_simple(a) for a in e.args)
        return False

    def e_UnaryOp(self, e, env):
        v = self.eval(e.operand, env)
        if isinstance(e.op, ast.Not):
            t = self.truth(v)
            return (not t) if isinstance(t, bool) else wrap(z3.Not(t))
        if isinstance(e.op, ast.USub):
            if isinstance(v, (int, float)) and not isinstance(v, bool):
                return -v
            if isinstance(v, SFloat):
                hook = getattr(self.ctx, "float_unop", None)
                if hook is None:
                    raise Unsupported("negation of a float")
                return hook(self, e.op, v, e.lineno)
            return wrap(-as_int_term(self.unopt(v, e.lineno)))
        if isinstance(e.op, ast.UAdd):
            return v
        if isinstance(e.op, ast.Invert):
            if isinstance(v, int):
                return ~v
            return wrap(-as_int_term(v) - 1)
        raise Unsupported("unary op")

    def e_NamedExpr(self, e, env):
        v = self.eval(e.value, env)
        if not isinstance(e.target, ast.Name):
            raise Unsupported("walrus target")
        env[e.target.id] = v
        return v

    def e_IfExp(self, e, env):
        c = self.eval(e.test, env)
        t = self.truth(c)
        if isinstance(t, bool):
            return self.eval(e.body if t else e.orelse, env)
        # value-level ite when both arms are simple and same-typed
        if self.pure_simple(e.body) and self.pure_simple(e.orelse):
            a, b = self.eval(e.body, env), self.eval(e.orelse, env)
            ts = z3.simplify(t)
            # `d if x is None else x` / `x if x is not None else d`: the optional is narrowed by the test
            if isinstance(b, SOpt) and z3.simplify(b.isnone).eq(ts):
                b = b.val
            if isinstance(a, SOpt) and z3.simplify(z3.Not(a.isnone)).eq(ts):
                a = a.val
            m = self.ite_value(t, a, b)
            if m is not None:
                return m
        return self.eval(e.body if self.decide(t, "ifexp") else e.orelse, env)

    def ite_value(self, c, a, b):
        try:
            if a is None and b is None:
                return None
            if isinstance(a, (str, SStr)) and isinstance(b, (str, SStr)):
                return wrap(z3.If(c, lift(a), lift(b)))
            if isinstance(a, (bool, SBool)) and isinstance(b, (bool, SBool)):
                return wrap(z3.If(c, lift(a), lift(b)))
            if is_intlike(a) and is_intlike(b):
                return wrap(z3.If(c, as_int_term(a), as_int_term(b)))
        except Unsupported:
            return None
        return None

    def e_Compare(self, e, env):
        left = self.eval(e.left, env)
        acc = None
        for op, r in zip(e.ops, e.comparators):
            right = self.eval(r, env)
            c = self.compare(op, left, right, e.lineno)
            if isinstance(c, bool):
                if not c:
                    return False if acc is None else False
            else:
                acc = c if acc is None else z3.And(acc, c)
            left = right
        if acc is None:
            return True
        return wrap(acc)

    def compare(self, op, a, b, line=0):
        if isinstance(op, (ast.Is, ast.IsNot)):
            r = self.is_same(a, b)
            if isinstance(op, ast.IsNot):
                r = (not r) if isinstance(r, bool) else z3.Not(r)
            return r
        if isinstance(op, (ast.In, ast.NotIn)):
            r = self.contains(b, a, line)
            if isinstance(op, ast.NotIn):
                r = (not r) if isinstance(r, bool) else z3.Not(r)
            return r
        if isinstance(op, (ast.Eq, ast.NotEq)):
            r = self.equals(a, b)
            if isinstance(op, ast.NotEq):
                r = (not r) if isinstance(r, bool) else z3.Not(r)
            return r
        # ordering
        if isinstance(a, SOpt) or isinstance(b, SOpt) or a is None or b is None:
            a, b = self.unopt(a, line, "compare-operand"), self.unopt(b, line, "compare-operand")
        if not is_sym(a) and not is_sym(b):
            return {ast.Lt: lambda: a < b, ast.LtE: lambda: a <= b, ast.Gt: lambda: a > b, ast.GtE: lambda: a >= b}[type(op)]()
        if is_intlike(a) and is_intlike(b):
            x, y = as_int_term(a), as_int_term(b)
            return {ast.Lt: x < y, ast.LtE: x <= y, ast.Gt: x > y, ast.GtE: x >= y}[type(op)]
        if isinstance(a, (SFloat, float)) or isinstance(b, (SFloat, float)):
            hook = self.ctx.float_compare
            if hook is not None:
                return hook(self, op, a, b, line)
        if isinstance(a, (str, SStr)) and isinstance(b, (str, SStr)):
            x, y = lift(a), lift(b)
            # code-point lexicographic order == z3 str.< / str.<=
            return {ast.Lt: x < y, ast.LtE: x <= y, ast.Gt: y < x, ast.GtE: y <= x}[type(op)]
        raise Unsupported(f"ordering of {type(a).__name__} and {type(b).__name__}")

    def is_same(self, a, b):
        if a is None or b is None:
            other = b if a is None else a
            if other is None:
                return True
            if isinstance(other, SOpt):
                return other.isnone
            return False
        if isinstance(a, SRef) and isinstance(b, SRef):
            return a.t == b.t
        if isinstance(a, (PObj, PList, PDict)) or isinstance(b, (PObj, PList, PDict)):
            return a is b
        if isinstance(a, bool) and isinstance(b, bool):
            return a is b
        if isinstance(a, (SBool, bool)) and isinstance(b, (SBool, bool)):
            return lift(a) == lift(b)
        raise Unsupported(f"`is` on {type(a).__name__}, {type(b).__name__}")

    def equals(self, a, b):
        if isinstance(a, SOpt) or isinstance(b, SOpt):
            if isinstance(a, SOpt) and isinstance(b, SOpt):
                inner = self.equals(a.val, b.val)
                inner = z3.BoolVal(inner) if isinstance(inner, bool) else inner
                return z3.Or(z3.And(a.isnone, b.isnone), z3.And(z3.Not(a.isnone), z3.Not(b.isnone), inner))
            o, x = (a, b) if isinstance(a, SOpt) else (b, a)
            if x is None:
                return o.isnone
            inner = self.equals(o.val, x)
            inner = z3.BoolVal(inner) if isinstance(inner, bool) else inner
            return z3.And(z3.Not(o.isnone), inner)
        if a is None or b is None:
            return a is None and b is None
        if isinstance(a, tuple) and isinstance(b, tuple):
            if len(a) != len(b):
                return False
            cs = [self.equals(x, y) for x, y in zip(a, b)]
            if any(c is False for c in cs):
                return False
            cs = [c for c in cs if c is not True]
            return True if not cs else z3.And(*cs)
        if not is_sym(a) and not is_sym(b) and not isinstance(a, (PObj, PList, PDict)) and not isinstance(b, (PObj, PList, PDict)):
            return a == b
        if is_intlike(a) and is_intlike(b):
            return as_int_term(a) == as_int_term(b)
        if isinstance(a, (str, SStr)) and isinstance(b, (str, SStr)):
            return lift(a) == lift(b)
        if isinstance(a, (str, SStr)) != isinstance(b, (str, SStr)) and (is_intlike(a) or is_intlike(b)):
            return False
        if isinstance(a, SRef) and isinstance(b, SRef):
            return a.t == b.t
        if isinstance(a, PList) and isinstance(b, PList):
            return self.equals(tuple(a.items), tuple(b.items))
        if getattr(self.ctx, "real_floats", False) and (isinstance(a, SFloat) or isinstance(b, SFloat)) \
                and all(isinstance(x, (SFloat, int, float)) or is_intlike(x) for x in (a, b)):
            return self.ctx.float_compare(self, ast.Eq(), a, b, 0)  # floats as reals: equality of values
        if isinstance(a, SFloat) and isinstance(b, SFloat):
            self.notes.add("float == treated as identity of uninterpreted float terms")
            return a.t == b.t
        if (isinstance(a, SFloat) and isinstance(b, (int, float))) or (isinstance(b, SFloat) and isinstance(a, (int, float))):
            hook = self.ctx.float_compare
            if hook is not None:  # float == literal: the contract's float-comparison model decides
                x, y = (a, b) if isinstance(a, SFloat) else (b, a)
                return hook(self, ast.Eq(), x, y, 0)
        if isinstance(a, PObj) or isinstance(b, PObj):
            if isinstance(a, PObj) and self.ctx.find_method(a.cls, "__eq__") is None:
                return a is b
        raise Unsupported(f"== on {type(a).__name__}, {type(b).__name__}")

    def contains(self, container, x, line=0):
        if isinstance(container, (str, SStr)) and isinstance(x, (str, SStr)):
            if isinstance(container, str) and isinstance(x, str):
                return x in container
            return z3.Contains(lift(container), lift(x))
        if isinstance(container, (tuple, list, set, frozenset)):
            items = list(container)
        elif isinstance(container, PList):
            items = container.items
        elif isinstance(container, PDict) and container.sym is not None:
            return z3.Select(container.sym["dom"], lift(x) if not is_intlike(x) else as_int_term(x))
        elif isinstance(container, PDict) and container.symtok is not None:
            if is_sym(x) and lift(container.symtok[0]).eq(lift(x)):
                return True
            raise Unsupported("membership of a different key in a dict holding a symbolic token key")
        elif isinstance(container, PDict):
            if is_sym(x) and not container.d:
                return False
            items = list(container.d.keys())
        elif isinstance(container, dict):
            items = list(container.keys())
        elif isinstance(container, SList):
            k = z3.Int(fresh_name("k"))
            xs = lift(x)
            return z3.Exists([k], z3.And(k >= 0, k < container.ln, z3.Select(container.at, k) == xs))
        elif isinstance(container, _Range) and isinstance(container.step, int) and container.step == 1 and is_intlike(x):
            return z3.And(container.start_t <= as_int_term(x), as_int_term(x) < container.stop_t)  # x in range(a, b)
        elif isinstance(container, _SDictLike) or (isinstance(container, Custom) and hasattr(container, "contains")):
            return container.contains(self, x)
        elif isinstance(container, PObj):
            r = self.call_value(BoundMethod(container, "__contains__"), [x], {}, line)
            t = self.truth(r)
            return t
        else:
            raise Unsupported(f"`in` on {type(container).__name__}")
        cs = []
        for it in items:
            c = self.equals(it, x)
            if c is True:
                return True
            if c is not False:
                cs.append(c)
        return False if not cs else (cs[0] if len(cs) == 1 else z3.Or(*cs))

    def e_BinOp(self, e, env):
        a = self.eval(e.left, env)
        b = self.eval(e.right, env)
        return self.binop(e.op, a, b, e.lineno)

    def binop(self, op, a, b, line=0):
        if isinstance(a, SOpt) or isinstance(b, SOpt):
            a, b = self.unopt(a, line, "operand"), self.unopt(b, line, "operand")
        if a is None or b is None:
            self.safety(False, "TypeError", "operand-not-None", line)
            raise PathEnd()
        if isinstance(a, str) and isinstance(op, ast.Mod) and (is_sym(b) or isinstance(b, (PObj, Custom, VExc)) or
                                                              (isinstance(b, tuple) and any(is_sym(x) or isinstance(x, (PObj, Custom, VExc)) for x in b))):
            # printf-style message formatting with symbolic operands: the text is not modelled (messages of exceptions, log lines)
            self.notes.add("printf-style string formatting abstracted to an arbitrary string")
            return SStr(z3.String(fresh_name("formatted")))
        # concrete fast path
        if not is_sym(a) and not is_sym(b) and not isinstance(a, (PList, PObj, Custom)) and not isinstance(b, (PList, PObj, Custom)):
            try:
                return _CONC_OPS[type(op)](a, b)
            except ZeroDivisionError:
                raise PyRaise(VExc("ZeroDivisionError", (), f"L{line}"))
            except KeyError:
                raise Unsupported(f"binop {type(op).__name__}")
        if isinstance(a, (str, SStr)) and isinstance(b, (str, SStr)):
            if isinstance(op, ast.Add):
                return self.concat_strs([a, b])
            raise Unsupported("string binop")
        if isinstance(a, (str, SStr)) and is_intlike(b) and isinstance(op, ast.Mult):
            if isinstance(b, int):
                return self.concat_strs([a] * b) if b > 0 else ""
            raise Unsupported("str * symbolic int")
        if isinstance(a, PList) and isinstance(b, PList) and isinstance(op, ast.Add):
            return PList(a.items + b.items, a.kind)
        if isinstance(a, PList) and isinstance(b, (bytes, tuple)) and isinstance(op, ast.Add):
            return PList(a.items + list(b), a.kind)
        if isinstance(a, (bytes,)) and isinstance(b, PList) and isinstance(op, ast.Add):
            return PList(list(a) + b.items, b.kind)
        if isinstance(a, (SFloat, float)) or isinstance(b, (SFloat, float)):
            return self.float_binop(op, a, b, line)
        if isinstance(a, (PObj, Custom)) or isinstance(b, (PObj, Custom)):
            hook = self.ctx.obj_binop
            if hook is not None:
                r = hook(self, op, a, b, line)
                if r is not NotImplemented:
                    return r
        if is_intlike(a) and is_intlike(b):
            x, y = as_int_term(a), as_int_term(b)
            if isinstance(op, ast.Add):
                return wrap(x + y)
            if isinstance(op, ast.Sub):
                return wrap(x - y)
            if isinstance(op, ast.Mult):
                return wrap(x * y)
            if isinstance(op, ast.FloorDiv):
                self.safety(y != 0, "ZeroDivisionError", "div-nonzero", line)
                return wrap(floordiv(x, y))
            if isinstance(op, ast.Mod):
                self.safety(y != 0, "ZeroDivisionError", "mod-nonzero", line)
                return wrap(pymod(x, y))
            if isinstance(op, ast.Div):
                self.safety(y != 0, "ZeroDivisionError", "div-nonzero", line)
                self.notes.add("int/int true division: uninterpreted fdiv(i2f(a),i2f(b)) + lemma FDIV")
                return SFloat(fdiv(i2f(x), i2f(y)))
            if isinstance(op, ast.Pow):
                if isinstance(b, int) and not isinstance(b, bool) and 0 <= b <= 64:
                    r = z3.IntVal(1)
                    for _ in range(b):
                        r = r * x
                    return wrap(r)
                if isinstance(a, int) and a > 0:
                    sf = self.ctx.specfns["ipow"]
                    self.safety(y >= 0, "ValueError", "pow-nonneg-exponent(float otherwise)", line)
                    for e_ in (y, y + 1):
                        ax = sf.unfold(sf.f, x, e_)
                        if not any(ax.eq(h) for h in self.hints):
                            self.hints.append(ax)
                    return wrap(sf.f(x, y))
                raise Unsupported("symbolic exponent")
            if isinstance(op, ast.BitAnd):
                if isinstance(b, int) and b >= 0:
                    r = band(x, int(b))
                    self.band_terms[r.get_id()] = (x, int(b))
                    return wrap(r)
                if isinstance(a, int) and a >= 0:
                    r = band(y, int(a))
                    self.band_terms[r.get_id()] = (y, int(a))
                    return wrap(r)
                raise Unsupported("symbolic & symbolic")
            if isinstance(op, ast.BitOr):
                if isinstance(b, int) and b >= 0:
                    return wrap(bor(x, int(b)))
                if isinstance(a, int) and a >= 0:
                    return wrap(bor(y, int(a)))
                # (hi << k) | lo : equals hi*2**k + lo when 0 <= lo < 2**k; otherwise left uninterpreted (so a
                # violated side condition shows up as a refutable obligation, not as a wrong identity)
                for hi_t, lo_t in ((x, y), (y, x)):
                    k = self.shl_terms.get(hi_t.get_id())
                    if k is not None:
                        bitor = z3.Function("py_bitor", Int, Int, Int)
                        r = bitor(hi_t, lo_t)
                        self.hints.append(z3.Implies(z3.And(lo_t >= 0, lo_t < 2 ** k, hi_t >= 0), r == hi_t + lo_t))
                        return wrap(r)
                raise Unsupported("symbolic | symbolic")
            if isinstance(op, ast.LShift) and isinstance(b, int):
                r = x * (2 ** b)
                self.shl_terms[r.get_id()] = b
                self._keep.append(r)
                return wrap(r)
            if isinstance(op, ast.RShift) and isinstance(b, int):
                return wrap(x / z3.IntVal(2 ** b))
        raise Unsupported(f"binop {type(op).__name__} on {type(a).__name__},{type(b).__name__} at L{line}")

    def float_binop(self, op, a, b, line):
        hook = self.ctx.float_binop
        if hook is not None:
            return hook(self, op, a, b, line)
        raise Unsupported(f"float arithmetic at L{line}")

    def e_Attribute(self, e, env):
        obj = self.eval(e.value, env)
        return self.get_attr(obj, e.attr, e.lineno)

    def get_attr(self, obj, name, line=0):
        if isinstance(obj, PObj):
            if name in obj.fields:
                return obj.fields[name]
            if name == "__dict__":
                return _ObjDict(obj)  # the instance dictionary: stores bypass __setattr__ / properties
            hook = self.ctx.getattr_hooks.get(obj.cls)
            if hook is not None:
                r = hook(self, obj, name)
                if r is not NotImplemented:
                    return r
            prop = self.ctx.find_property(obj.cls, name)
            if prop is not None:
                return self.call_value(BoundMethod(obj, name), [], {}, line)
            if self.ctx.find_method(obj.cls, name) is not None or self.ctx.method_contract(obj.cls, name) is not None \
                    or (obj.cls, name) in getattr(self.ctx, "method_models", {}):
                return BoundMethod(obj, name)
            cv = self.ctx.class_attr(obj.cls, name, self)
            if cv is not NotImplemented:
                return cv
            raise Unsupported(f"attribute {obj.cls}.{name} at L{line}")
        if isinstance(obj, SRef):
            if self.ctx.is_field(obj.cls, name):
                return self.heap_load(obj, name)
            return BoundMethod(obj, name)
        if isinstance(obj, SOpt):
            return self.get_attr(self.unopt(obj, line, "receiver"), name, line)
        if isinstance(obj, ClassRef):
            r = self.ctx.class_attr(obj.name, name, self, static=True)
            if isinstance(r, Func) and any(ast.unparse(d) == "classmethod" for d in r.node.decorator_list):
                return _BoundFunc(r, obj)
            if r is NotImplemented:
                raise Unsupported(f"class attribute {obj.name}.{name} at L{line}")
            return r
        if isinstance(obj, _Module):
            return obj.attr(name, self)
        if isinstance(obj, VExc) and name == "args":
            return obj.args
        if isinstance(obj, _Super):
            return self.ctx.super_attr(self, obj, name, line)
        if obj is None:
            self.safety(False, "AttributeError", "receiver-not-None", line)
            raise PathEnd()
        return BoundMethod(obj, name)

    def e_Subscript(self, e, env):
        obj = self.eval(e.value, env)
        return self.get_item(obj, e.slice, env, e.lineno)

    def norm_index(self, i, n, line, exc="IndexError", what="index"):
        """Python index normalisation with bounds safety; i, n Int terms."""
        i = z3.simplify(i)
        if z3.is_int_value(i) and z3.is_int_value(z3.simplify(n)):
            iv, nv = i.as_long(), z3.simplify(n).as_long()
            if not (-nv <= iv < nv):
                self.safety(False, exc, f"{what}-in-range", line)
                raise PathEnd()
            return z3.IntVal(iv + nv if iv < 0 else iv)
        self.safety(z3.And(i >= -n, i < n), exc, f"{what}-in-range", line)
        if z3.is_int_value(i):
            return i if i.as_long() >= 0 else z3.simplify(i + n)
        return z3.If(i < 0, i + n, i)

    def slice_bounds(self, sl, n, env):
        """Python slice clamping for step 1: returns (lo, hi) Int terms with 0<=lo, hi<=n (hi may be < lo)."""
        if sl.step is not None:
            st = self.eval(sl.step, env)
            if st != 1:
                raise Unsupported("slice step")

        def clamp(v, default):
            if v is None:
                return default
            v = self.eval(v, env)
            if isinstance(v, SOpt):
                raise Unsupported("optional slice bound")
            if v is None:
                return default
            t = as_int_term(v)
            t = z3.simplify(t)
            if z3.is_int_value(t) and z3.is_int_value(z3.simplify(n)):
                iv, nv = t.as_long(), z3.simplify(n).as_long()
                iv = max(iv + nv, 0) if iv < 0 else min(iv, nv)
                return z3.IntVal(iv)
            if z3.is_int_value(t) and t.as_long() >= 0:
                return z3.If(t > n, n, t)
            return z3.If(t < 0, z3.If(t + n < 0, z3.IntVal(0), t + n), z3.If(t > n, n, t))

        return clamp(sl.lower, z3.IntVal(0)), clamp(sl.upper, n)

    def raw_slice(self, sl, n, env):
        """Unclamped slice bounds (for byte memories, whose accessors check the bounds themselves)."""
        if sl.step is not None:
            raise Unsupported("slice step")
        lo = z3.IntVal(0) if sl.lower is None else as_int_term(self.unopt(self.eval(sl.lower, env), 0, "slice-bound"))
        hi = n if sl.upper is None else as_int_term(self.unopt(self.eval(sl.upper, env), 0, "slice-bound"))
        return z3.simplify(lo), z3.simplify(hi)

    def get_item(self, obj, sl, env, line=0):
        if isinstance(obj, SOpt):
            obj = self.unopt(obj, line, "subscripted")
        from . import grid as G
        if isinstance(obj, G.GRID_TYPES):
            return G.get_item(self, obj, sl, env, line)
        if isinstance(sl, ast.Slice):
            if isinstance(obj, (str, SStr)):
                s = lift(obj)
                lo, hi = self.slice_bounds(sl, z3.Length(s), env)
                return wrap(z3.simplify(z3.SubString(s, lo, z3.If(hi > lo, hi - lo, z3.IntVal(0)))))
            if isinstance(obj, (PList, tuple, bytes)):
                items = obj.items if isinstance(obj, PList) else list(obj)
                lo, hi = self.slice_bounds(sl, z3.IntVal(len(items)), env)
                lo, hi = z3.simplify(lo), z3.simplify(hi)
                if z3.is_int_value(lo) and z3.is_int_value(hi):
                    r = items[lo.as_long(): max(hi.as_long(), lo.as_long())]
                    if isinstance(obj, tuple):
                        return tuple(r)
                    return PList(r, getattr(obj, "kind", "list"))
                raise Unsupported("symbolic slice of concrete-length list")
            if isinstance(obj, SList):
                lo, hi = self.slice_bounds(sl, obj.ln, env)
                return self.slist_slice(obj, lo, hi)
            if isinstance(obj, _Sliceable):
                lo, hi = self.raw_slice(sl, obj.length(self), env)
                return obj.slice(self, lo, hi, line)
            if isinstance(obj, Custom) and hasattr(obj, "getslice"):
                lo = None if sl.lower is None else self.eval(sl.lower, env)
                hi = None if sl.upper is None else self.eval(sl.upper, env)
                return obj.getslice(self, lo, hi, line)
            raise Unsupported(f"slice of {type(obj).__name__}")
        idx = self.eval(sl, env)
        if isinstance(obj, (str, SStr)):
            s = lift(obj)
            i = self.norm_index(as_int_term(idx), z3.Length(s), line, "IndexError", "str-index")
            return wrap(z3.simplify(z3.SubString(s, i, 1)))
        if isinstance(obj, (PList, tuple, bytes)):
            items = obj.items if isinstance(obj, PList) else list(obj)
            if isinstance(idx, SOpt):
                idx = self.unopt(idx, line, "index")
            if isinstance(idx, (int,)) and not isinstance(idx, bool):
                if not (-len(items) <= idx < len(items)):
                    self.safety(False, "IndexError", "index-in-range", line)
                    raise PathEnd()
                return items[idx]
            i = self.norm_index(as_int_term(idx), z3.IntVal(len(items)), line)
            return self.plist_get_sym(obj, i)
        if isinstance(obj, SList):
            i = self.norm_index(as_int_term(idx), obj.ln, line)
            return self.list_elem(obj, i)
        if isinstance(obj, PDict) and (obj.sym is not None or obj.symtok is not None) or \
                (isinstance(obj, PDict) and is_sym(idx) and not obj.d):
            return self.sdict_get(obj, idx, line)
        if isinstance(obj, (PDict, dict)):
            d = obj.d if isinstance(obj, PDict) else obj
            if not is_sym(idx):
                if idx not in d:
                    self.safety(False, "KeyError", "key-present", line)
                    raise PathEnd()
                return d[idx]
            # symbolic key over a concrete table: case split
            return self.dict_lookup_sym(d, idx, line)
        if isinstance(obj, _SDictLike):
            return obj.getitem(self, idx, line)
        if isinstance(obj, Custom):
            return obj.getitem(self, idx, line)
        if isinstance(obj, _Sliceable):
            return obj.index(self, idx, line)
        if isinstance(obj, PObj):
            return self.call_value(BoundMethod(obj, "__getitem__"), [idx], {}, line)
        raise Unsupported(f"subscript of {type(obj).__name__} at L{line}")

    def dict_lookup_sym(self, d, key, line):
        cs = [(k, self.equals(k, key)) for k in d]
        present = [c for _, c in cs if c is not False]
        cond = z3.Or(*[z3.BoolVal(c) if isinstance(c, bool) else c for c in present]) if present else z3.BoolVal(False)
        self.safety(cond, "KeyError", "key-present", line)
        for k, c in cs:
            if c is False:
                continue
            if self.decide(c if not isinstance(c, bool) else z3.BoolVal(c), f"key=={k!r}"):
                return d[k]
        raise PathEnd()

    def plist_get_sym(self, obj, i):
        items = obj.items if isinstance(obj, PList) else list(obj)
        for k, it in enumerate(items):
            if self.decide(i == k, f"index=={k}"):
                return it
        raise PathEnd()

    def list_elem(self, lst, i):
        t = z3.Select(lst.at, i)
        return self.ctx.elem_value(lst.ekind, t)

    def slist_slice(self, lst, lo, hi):
        n = z3.If(hi > lo, hi - lo, z3.IntVal(0))
        k = z3.Int(fresh_name("k"))
        new_at = z3.Const(fresh_name("slice_at"), lst.at.sort())
        self.pc.append(z3.ForAll([k], z3.Implies(z3.And(k >= 0, k < n), z3.Select(new_at, k) == z3.Select(lst.at, lo + k))))
        return SList(z3.simplify(n), new_at, lst.ekind)

    def set_item(self, obj, sl, v, env, line=0):
        from . import grid as G
        if isinstance(obj, G.GRID_TYPES):
            return G.set_item(self, obj, sl, v, env, line)
        if isinstance(sl, ast.Slice):
            if isinstance(obj, _Sliceable):
                from . import bytemem
                lo, hi = self.raw_slice(sl, obj.length(self), env)
                return bytemem.set_slice(self, obj, lo, hi, v, line)
            if isinstance(obj, Custom) and hasattr(obj, "setslice"):
                lo = None if sl.lower is None else self.eval(sl.lower, env)
                hi = None if sl.upper is None else self.eval(sl.upper, env)
                return obj.setslice(self, lo, hi, v, line)
            raise Unsupported("slice assignment")
        idx = self.eval(sl, env)
        if isinstance(obj, PList):
            if isinstance(idx, int):
                if not (-len(obj.items) <= idx < len(obj.items)):
                    self.safety(False, "IndexError", "index-in-range", line)
                    raise PathEnd()
                obj.items[idx] = v
                return
            raise Unsupported("symbolic index store into concrete-length list")
        if isinstance(obj, SList):
            i = self.norm_index(as_int_term(idx), obj.ln, line)
            obj.at = z3.Store(obj.at, i, lift(v))
            return
        if isinstance(obj, PDict):
            if is_sym(idx) or obj.sym is not None:
                return self.sdict_set(obj, idx, v, line)
            if obj.symtok is not None:
                raise Unsupported("concrete key store into a dict holding a symbolic token key")
            obj.d[idx] = v
            return
        if isinstance(obj, (_SDictLike, _Sliceable)) or (isinstance(obj, Custom) and hasattr(obj, "setitem")):
            return obj.setitem(self, idx, v, line)
        raise Unsupported(f"item assignment on {type(obj).__name__} at L{line}")

    # ---- dicts with symbolic keys
    def sdict_scalar(self, v):
        return isinstance(v, (int, str, bool, SInt, SStr, SBool, SRef)) or (isinstance(v, PObj) and "__ref__" in v.fields)

    def sdict_set(self, d, k, v, line):
        if d.sym is None and not self.sdict_scalar(v):
            # container value under a symbolic key: a single opaque token slot
            if d.d:
                raise Unsupported("symbolic token key in a dict that has concrete keys")
            if d.symtok is not None and not lift(d.symtok[0]).eq(lift(k)):
                raise Unsupported("second symbolic token key in one dict")
            d.symtok = (k, v)
            return
        if d.sym is None:
            if d.d or d.symtok is not None:
                raise Unsupported("symbolic key store into a dict with concrete keys")
            kt, vt = lift(k), lift(v)
            vkind = f"ref:{v.cls}" if isinstance(v, SRef) else ("str" if z3.is_string(vt) else "bool" if z3.is_bool(vt) else "int")
            d.sym = {"dom": z3.K(kt.sort(), z3.BoolVal(False)), "val": z3.Const(fresh_name("dictval"), z3.ArraySort(kt.sort(), vt.sort())),
                     "vkind": vkind}
        kt, vt = lift(k), lift(v) if not is_intlike(v) else as_int_term(v)
        d.sym["dom"] = z3.Store(d.sym["dom"], kt, z3.BoolVal(True))
        d.sym["val"] = z3.Store(d.sym["val"], kt, vt)

    def sdict_get(self, d, k, line):
        if d.symtok is not None:
            if is_sym(k) and lift(d.symtok[0]).eq(lift(k)):
                return d.symtok[1]
            raise Unsupported("lookup of a different key in a dict holding a symbolic token key")
        if d.sym is None:
            self.safety(False, "KeyError", "key-present", line)
            raise PathEnd()
        kt = lift(k) if not is_intlike(k) else as_int_term(k)
        self.safety(z3.Select(d.sym["dom"], kt), "KeyError", "key-present", line)
        return self.ctx.elem_value(d.sym["vkind"], z3.Select(d.sym["val"], kt))

    def del_item(self, obj, sl, env, line=0):
        from . import grid as G
        if isinstance(obj, G.GRID_TYPES):
            return G.del_item(self, obj, sl, env, line)
        if isinstance(obj, Custom) and isinstance(sl, ast.Slice) and sl.step is None:
            lo = None if sl.lower is None else self.eval(sl.lower, env)
            hi = None if sl.upper is None else self.eval(sl.upper, env)
            return obj.delslice(self, lo, hi, line)
        if isinstance(obj, PList) and isinstance(sl, ast.Slice) and sl.lower is None and sl.upper is None:
            obj.items.clear()
            return
        raise Unsupported("del item")

    def e_Yield(self, e, env):
        v = self.eval(e.value, env) if e.value is not None else None
        scope = env
        while scope is not None and "__yielded__" not in scope:
            scope = scope.get("__closure__")
        if scope is None:
            raise Unsupported("yield outside the verified generator")
        y = scope["__yielded__"]
        from . import grid as G
        if isinstance(y, G.SGrid):
            G.append(self, y, v, e.lineno)
        elif isinstance(y, Custom):
            y.method(self, "append", [v], {}, e.lineno)
        else:
            y.items.append(v)
        return None

    def e_Lambda(self, e, env):
        return Func(e, self.finfo.mod, closure=env)

    def e_ListComp(self, e, env):
        if len(e.generators) == 1 and not e.generators[0].ifs:
            it = self.eval(e.generators[0].iter, env)
            if isinstance(it, SList):
                return self.map_slist(e.elt, e.generators[0].target, it, env)
            return PList(self.comprehension_from(e.elt, e.generators, env, it))
        return PList(self.comprehension(e.elt, e.generators, env))

    def map_slist(self, elt, target, lst, env):
        """[elt for target in lst] for a list of symbolic length: a new list defined pointwise (the element
        expression must be pure and path-insensitive)."""
        i = z3.Int(fresh_name("mi"))
        sc = dict(env)
        self.assign(target, self.list_elem(lst, i), sc)
        saved = self.in_merge
        self.in_merge += 1
        try:
            try:
                v = self.eval(elt, sc)
            except _MergeAbort:
                raise Unsupported("comprehension element forks on a symbolic list")
        finally:
            self.in_merge = saved
        if isinstance(v, (str, SStr)):
            kind = "str"
        elif is_intlike(v) and not isinstance(v, (bool, SBool)):
            kind = "int"
        else:
            raise Unsupported("comprehension element kind")
        t = lift(v) if kind == "str" else as_int_term(v)
        new_at = z3.Const(fresh_name("map_at"), z3.ArraySort(Int, sort_of(kind)))
        self.pc.append(z3.ForAll([i], z3.Implies(z3.And(i >= 0, i < lst.ln), z3.Select(new_at, i) == t)))
        return SList(lst.ln, new_at, kind)

    def comprehension_from(self, elt, gens, env, first_iter):
        out = []
        g = gens[0]
        for x in self.iter_concrete(first_iter):
            sc = dict(env)
            self.assign(g.target, x, sc)
            out.append(self.eval(elt, sc))
        return out

    def e_GeneratorExp(self, e, env):
        if len(e.generators) == 1 and not e.generators[0].ifs:
            from . import grid as G
            it = self.eval(e.generators[0].iter, env)
            if isinstance(it, (G.SGridView, G.SRowVal, G.SRowRef, G.SGrid)):
                return self.map_to_row(e.elt, e.generators[0].target, it, env)
            return PList(self.comprehension_from(e.elt, e.generators, env, it))
        return PList(self.comprehension(e.elt, e.generators, env))

    def map_to_row(self, elt, target, it, env):
        """(elt for target in it) over a grid view / row: a row value defined pointwise (elt must be a reference)."""
        from . import grid as G
        seq = self.as_indexable(it)
        i = z3.Int(fresh_name("mi"))
        sc = dict(env)
        self.assign(target, seq["get"](self, i), sc)
        saved_pc = len(self.pc)
        saved_mode, saved_fork = self.contract.safety_mode, self.contract.fork_on
        saved = self.in_merge
        self.in_merge += 1
        guards = []
        try:
            # element evaluation happens under 0 <= i < len; safety conditions become guarded obligations
            self.pc.append(z3.And(i >= 0, i < seq["len"]))
            self.contract_safety_assert = True
            try:
                v = self.eval(elt, sc)
            except _MergeAbort:
                raise Unsupported("generator element forks on a symbolic sequence")
        finally:
            self.in_merge = saved
            self.contract_safety_assert = False
        extra = self.pc[saved_pc + 1:]
        del self.pc[saved_pc:]
        for f in extra:  # facts assumed during the element evaluation hold for every index in range
            self.pc.append(z3.ForAll([i], z3.Implies(z3.And(i >= 0, i < seq["len"]), f)))
        if not isinstance(v, SRef):
            raise Unsupported("generator element is not a reference")
        new = z3.Const(fresh_name("genrow"), G.RowArr)
        self.pc.append(z3.ForAll([i], z3.Implies(z3.And(i >= 0, i < seq["len"]), z3.Select(new, i) == v.t)))
        return G.SRowVal(seq["len"], new, v.cls)

    def e_SetComp(self, e, env):
        raise Unsupported("set comprehension")

    def comprehension(self, elt, gens, env):
        out = []

        def rec(i, scope):
            if i == len(gens):
                out.append(self.eval(elt, scope))
                return
            g = gens[i]
            it = self.eval(g.iter, scope)
            for x in self.iter_concrete(it):
                sc = dict(scope)
                self.assign(g.target, x, sc)
                ok = True
                for c in g.ifs:
                    if not self.test(self.eval(c, sc), "comp-if"):
                        ok = False
                        break
                if ok:
                    rec(i + 1, sc)

        rec(0, env)
        return out

    def e_Call(self, e, env):
        # no-op calls that extraction drops
        fname = ast.unparse(e.func)
        if fname in self.ctx.noop_calls:
            return None
        if fname == "super" and not e.args:
            scope = env
            while scope is not None and "__class__" not in scope:
                scope = scope.get("__closure__")
            if scope is None:
                raise Unsupported("super() outside an inlined method")
            return _Super(scope["__self__"], scope["__class__"])
        if isinstance(e.func, ast.Attribute):
            recv = self.eval(e.func.value, env)
            f = self.get_attr(recv, e.func.attr, e.lineno)
        else:
            f = self.eval(e.func, env)
        args = []
        for a in e.args:
            if isinstance(a, ast.Starred):
                args.extend(self.iter_concrete(self.eval(a.value, env)))
            else:
                args.append(self.eval(a, env))
        kwargs = {}
        for k in e.keywords:
            if k.arg is None:
                kv = self.eval(k.value, env)
                if not isinstance(kv, PDict) or kv.sym is not None or kv.symtok is not None or \
                        not all(isinstance(x, str) for x in kv.d):
                    raise Unsupported("**kwargs of a non-literal mapping")
                kwargs.update(kv.d)
                continue
            kwargs[k.arg] = self.eval(k.value, env)
        return self.call_value(f, args, kwargs, e.lineno)

    def call_value(self, f, args, kwargs, line=0):
        from . import builtins as B
        if isinstance(f, Builtin):
            return B.call_builtin(self, f.name, args, kwargs, line)
        if isinstance(f, BoundMethod):
            return B.call_method(self, f.obj, f.name, args, kwargs, line)
        if isinstance(f, Func):
            return self.call_func(f, args, kwargs, line)
        if isinstance(f, ClassRef):
            return self.ctx.construct(self, f.name, args, kwargs, line)
        if isinstance(f, _SpecCallable):
            return f.call(self, args, kwargs, line)
        if isinstance(f, _BoundFunc):
            return self.call_func(f.func, [f.obj] + list(args), kwargs, line)
        if isinstance(f, RePattern):
            raise Unsupported("calling a pattern")
        if isinstance(f, PObj) and (f.cls, "__call__") in getattr(self.ctx, "method_models", {}):
            return self.ctx.method_models[(f.cls, "__call__")](self, f, list(args), kwargs, line)  # a callable record (contract-provided model)
        raise Unsupported(f"call of {type(f).__name__} at L{line}")

    def call_func(self, f, args, kwargs, line=0, self_obj=None):
        """Call of a repository function: by contract if it has one, else inlined (if allowed)."""
        qual = self.ctx.qual_of(f)
        c = self.ctx.contract_for_call(qual, self.contract, args)
        if c is not None and c is self.contract and qual not in self.contract.inline:
            pass  # recursion through the function's own contract is fine (modular)
        if c is not None:
            if c.model is not None:
                self.used_contracts.add(c.qual)
                return c.model(self, args, kwargs, line)
            return self.apply_contract(c, f, args, kwargs, line)
        if not self.ctx.may_inline(qual, self.contract):
            raise Unsupported(f"call of {qual} at L{line}: no contract and not declared inline")
        return self.inline_call(f, args, kwargs, line)

    def bind_params(self, node, args, kwargs, line, closure=None):
        a = node.args
        params = [p.arg for p in a.posonlyargs + a.args]
        env = {}
        if closure is not None:
            env["__closure__"] = closure
        defaults = a.defaults
        ndef = len(defaults)
        if len(args) > len(params) and a.vararg is None:
            raise Unsupported(f"too many positional args at L{line}")
        for i, p in enumerate(params):
            if i < len(args):
                env[p] = args[i]
            elif p in kwargs:
                env[p] = kwargs[p]
            else:
                di = i - (len(params) - ndef)
                if di < 0:
                    raise Unsupported(f"missing argument {p} at L{line}")
                env[p] = self.eval(defaults[di], {})
        if a.vararg is not None:
            env[a.vararg.arg] = tuple(args[len(params):])
        for p, d in zip(a.kwonlyargs, a.kw_defaults):
            env[p.arg] = kwargs[p.arg] if p.arg in kwargs else self.eval(d, {})
        return env

    def inline_call(self, f, args, kwargs, line=0):
        self.inlined.add(self.ctx.qual_of(f))
        if isinstance(f.node, ast.Lambda):
            env = self.bind_params(f.node, args, kwargs, line, f.closure)
            return self.eval(f.node.body, env)
        env = self.bind_params(f.node, args, kwargs, line, f.closure)
        if f.cls and args:
            env["__class__"] = f.cls
            env["__self__"] = args[0]
        saved_fi = self.finfo
        if f.mod != self.finfo.mod:
            self.finfo = _ModShim(f.mod, saved_fi)
        depth = getattr(self, "_depth", 0)
        if depth > 12:
            raise Unsupported("inline depth")
        self._depth = depth + 1
        try:
            if _is_generator(f.node):
                raise Unsupported(f"inline of generator {f.name}")
            self.exec_block(f.node.body, env)
        except _Return as r:
            return r.value
        finally:
            self._depth = depth
            self.finfo = saved_fi
        return None

    def apply_contract(self, c, f, args, kwargs, line):
        """Modular call: check pre, fork on exceptional cases, havoc result, assume post."""
        node = f.node if f is not None else c.finfo.node
        env = self.bind_params(node, args, kwargs, line)
        env.pop("__closure__", None)
        self.used_contracts.add(c.key)
        cenv = dict(env)
        for g in c.ghost_params:  # ghost parameters are bound by name from the caller's scope
            scope = getattr(self, "cur_env", None)
            val = NotImplemented
            while scope is not None:
                if g in scope:
                    val = scope[g]
                    break
                scope = scope.get("__closure__")
            if val is NotImplemented and g in getattr(self, "entry_env", {}):
                val = self.entry_env[g]
            if val is NotImplemented:
                raise Unsupported(f"call of {c.key} at L{line}: ghost parameter {g} not in scope")
            cenv[g] = val
        for i, pre in enumerate(c.requires):
            self.oblige(f"call@L{line}:{c.short}/pre{i}", self.spec_bool(pre, cenv, c.hints, c), "call-pre", line)
        for exc_cls, cond in c.raises.items():
            if cond is None:
                continue
            t = self.spec_bool(cond, cenv, (), c)
            if self.decide(t, f"{c.short} raises {exc_cls}"):
                raise PyRaise(VExc(exc_cls, (), f"L{line}:{c.short}"))
        for exc_cls in c.may_raise:
            b = z3.Bool(fresh_name(f"raises_{exc_cls}"))
            if self.decide(b, f"{c.short} may raise {exc_cls}"):
                raise PyRaise(VExc(exc_cls, (), f"L{line}:{c.short}"))
        res = self.fresh(c.result_kind, f"{c.short}_res") if c.result_kind != "none" else None
        cenv["result"] = res
        if c.effects is not None:
            c.effects(self, cenv)
        for post in c.ensures:
            self.assume(self.spec_bool(post, cenv, c.hints, c))
        return res

    # ================================================================ spec expressions
    def spec_eval(self, expr, env, contract=None):
        """Evaluate a contract expression (Python syntax) over symbolic values."""
        if callable(expr):
            return expr(self, env)
        tree = self.ctx.parse_spec(expr)
        senv = _SpecEnv(self, env, contract or self.contract)
        saved = self.in_spec
        self.in_spec = True
        try:
            return self.eval(tree, senv)
        finally:
            self.in_spec = saved

    def spec_bool(self, expr, env, hints=(), contract=None):
        v = self.spec_eval(expr, env, contract)
        t = v if z3.is_expr(v) else self.truth(v)
        if isinstance(t, bool):
            t = z3.BoolVal(t)
        for h in hints or ():
            self.add_hint(h, env, contract)
        return t

    def spec_int(self, expr, env):
        return as_int_term(self.spec_eval(expr, env))

    def add_hint(self, h, env, contract=None):
        key = (h, id(env))
        t = self.ctx.hint_term(self, h, env, contract or self.contract)
        if t is not None:
            for x in (t if isinstance(t, list) else [t]):
                if not any(x.eq(y) for y in self.hints):
                    self.hints.append(x)

    # ================================================================ heap for symbolic references
    def heap_load(self, ref, fld):
        arr = self.heap_array(ref.cls, fld)
        return self.ctx.field_value(ref.cls, fld, z3.Select(arr, ref.t))

    def heap_store(self, ref, fld, v):
        key = (self.ctx.field_owner(ref.cls, fld), fld)
        arr = self.heap_array(ref.cls, fld)
        self.extra_roots["heap"][key] = z3.Store(arr, ref.t, self.ctx.field_term(ref.cls, fld, v))

    def heap_array(self, cls, fld):
        key = (self.ctx.field_owner(cls, fld), fld)
        h = self.extra_roots["heap"]
        if key not in h:
            h[key] = z3.Const(f"H_{key[0]}_{fld}", z3.ArraySort(RefS, self.ctx.field_sort(cls, fld)))
        return h[key]

    # ================================================================ driver
    def finish_path(self, how):
        self.obligations.extend(self.path_obls)
        self.path_log.append((how, len(self.path_obls)))
        self.path_obls = []

    def run(self):
        """Explore all paths; returns the list of obligations."""
        from . import regex as RX
        c = self.contract
        RX.ASCII_MODE[0] = bool(c.ascii_strings)
        try:
            while True:
                try:
                    self._run_all()
                    break
                except Restart:
                    continue
        finally:
            RX.ASCII_MODE[0] = False
        return self.obligations

    def _run_all(self):
        self.obligations = []
        self.path_log = []
        self.pending = [[]]
        self.paths = 0
        self.inlined = set()
        self.used_contracts = set()
        self.exits = {"return": 0, "raise": {}, "cut": 0}
        while self.pending:
            script = self.pending.pop()
            self.paths += 1
            if self.paths > self.MAX_PATHS:
                raise Unsupported(f"more than {self.MAX_PATHS} paths")
            self.reset_path(script)
            self.extra_roots = {"heap": {}}
            self.in_spec = False
            self.trivial = 0
            try:
                self.run_path()
            except PathEnd:
                self.obligations.extend(self.path_obls)
                self.path_obls = []

    def run_path(self):
        c = self.contract
        env = c.make_entry_env(self)
        self.entry_env = dict(env)
        self.entry_heap = dict(self.extra_roots["heap"])
        self.cur_inputs = dict(env)
        for pre in c.requires:
            self.assume(self.spec_bool(pre, env))
        if c.ascii_strings and self.paths == 1:
            asc = z3.Star(z3.Range(z3.StringVal(chr(0)), z3.StringVal(chr(127))))
            hs = []
            for h in c.ascii_hints:
                t = self.ctx.hint_term(self, h, env, c)
                hs += t if isinstance(t, list) else [t]
            for p in c.ascii_strings:
                self.path_obls.append(Obligation(f"ascii-input/{p}", list(self.pc) + list(self.hints) + hs,
                                                 z3.InRe(lift(env[p]), asc), "pre-derived", 0))
        if self.paths == 1:
            # vacuity guard: the precondition (plus an optional witness hint that only narrows it) is satisfiable
            hint = [self.spec_bool(h, env) for h in c.cover_hints]
            self.path_obls.append(Obligation("cover/requires-satisfiable", list(self.pc) + hint, None, "cover", 0, None, "sat"))
        for h in c.hints:
            self.add_hint(h, env)
        body_env = dict(env)
        node = self.finfo.node
        try:
            if _is_generator(node):
                if c.yield_view is not None:
                    body_env["__yielded__"] = c.yield_view(self)
                elif c.yield_grid:
                    from . import grid as G
                    body_env["__yielded__"] = G.SGrid.empty(c.yield_grid)
                else:
                    body_env["__yielded__"] = PList([])
                self.gen_list = body_env["__yielded__"]
            self.exec_block(node.body, body_env)
            result = None
        except _Return as r:
            result = r.value
        except PyRaise as pr:
            self.exit_raise(pr.exc, env, body_env)
            return
        except (_Break, _Continue):
            raise Unsupported("break/continue outside loop")
        if _is_generator(node):
            result = body_env["__yielded__"]
        self.exit_normal(result, env, body_env)

    def post_env(self, env, body_env, result=None):
        e = dict(env)  # parameters keep their entry values in postconditions
        e["result"] = result
        e["__final__"] = body_env
        return e

    def exit_normal(self, result, env, body_env):
        c = self.contract
        self.exits["return"] += 1
        e = self.post_env(env, body_env, result)
        for exc_cls, cond in c.raises.items():
            if cond is None:
                continue
            self.oblige(f"raises-iff/{exc_cls}/returned-normally", z3.Not(self.spec_bool(cond, e)), "exc-post",
                        self.cur_line)
        for i, st in enumerate(c.steps):
            try:
                g = self.spec_bool(st, e, c.post_hints)
            except StepSkip:
                continue  # the step talks about something that does not exist on this path
            self.oblige(f"step{i}", g, "proof-step", self.cur_line, {"text": st})
        for i, post in enumerate(c.ensures):
            self.oblige(f"post{i}", self.spec_bool(post, e, c.post_hints), "post", self.cur_line,
                        {"text": post if isinstance(post, str) else getattr(post, "__name__", "fn")})
        for i, can in enumerate(c.canaries):
            self.path_obls.append(Obligation(f"canary{i}", self.pc + self.hints, self.spec_bool(can, e, c.post_hints),
                                             "canary", self.cur_line, {"text": can}, "sat"))
        self.finish_path("return")

    def exit_raise(self, exc, env, body_env):
        c = self.contract
        self.exits["raise"][exc.cls] = self.exits["raise"].get(exc.cls, 0) + 1
        e = self.post_env(env, body_env, None)
        allowed = None
        for exc_cls, cond in c.raises.items():
            if exc_isa(exc.cls, exc_cls):
                allowed = (exc_cls, cond)
                break
        if allowed is None and any(exc_isa(exc.cls, m) for m in c.may_raise):
            self.oblige(f"exit-allowed/{exc.cls}@{exc.origin}", z3.BoolVal(True), "exc-escape", self.cur_line)
            self.finish_path("raise-allowed")
            return
        if allowed is None:
            self.oblige(f"no-escape/{exc.cls}@{exc.origin}", z3.BoolVal(False), "exc-escape", self.cur_line,
                        {"exception": exc.cls, "origin": exc.origin})
        elif allowed[1] is not None:
            self.oblige(f"raises-only-if/{allowed[0]}@{exc.origin}", self.spec_bool(allowed[1], e), "exc-post",
                        self.cur_line)
        else:
            self.oblige(f"exit-allowed/{exc.cls}@{exc.origin}", z3.BoolVal(True), "exc-escape", self.cur_line)
        for i, post in enumerate(c.exc_ensures):
            self.oblige(f"excpost{i}@{exc.origin}", self.spec_bool(post, e), "exc-post", self.cur_line)
        self.finish_path("raise")


class _MergeAbort(Exception):
    pass


class _Super:
    def __init__(self, obj, cls):
        self.obj, self.cls = obj, cls


class _BoundFunc:
    def __init__(self, func, obj):
        self.func, self.obj = func, obj


class _ModShim:
    def __init__(self, mod, base):
        self.mod = mod
        self.node = base.node
        self.qual = base.qual


def _is_generator(node):
    for n in ast.walk(node):
        if isinstance(n, (ast.Yield, ast.YieldFrom)):
            # ignore nested defs
            return True
    return False


def _load(t):
    import copy
    t2 = copy.copy(t)
    t2.ctx = ast.Load()
    return t2


def sort_of(kind):
    if kind in ("int", "nat"):
        return Int
    if kind == "bool":
        return Bool
    if kind == "str":
        return Str
    if isinstance(kind, str) and kind.startswith("ref:"):
        return RefS
    raise Unsupported(f"sort of {kind}")


_CONC_OPS = {
    ast.Add: lambda a, b: a + b, ast.Sub: lambda a, b: a - b, ast.Mult: lambda a, b: a * b,
    ast.FloorDiv: lambda a, b: a // b, ast.Mod: lambda a, b: a % b, ast.Pow: lambda a, b: a ** b,
    ast.BitAnd: lambda a, b: a & b, ast.BitOr: lambda a, b: a | b, ast.BitXor: lambda a, b: a ^ b,
    ast.LShift: lambda a, b: a << b, ast.RShift: lambda a, b: a >> b, ast.Div: lambda a, b: a / b,
}


# ---- lazily-evaluated iterables
class _Range:
    def __init__(self, start, stop, step):
        self.start, self.stop, self.step = start, stop, step
        self.start_t, self.stop_t, self.step_t = as_int_term(start), as_int_term(stop), as_int_term(step)

    def concrete(self):
        return all(isinstance(x, int) for x in (self.start, self.stop, self.step))

    def length(self):
        if not (isinstance(self.step, int) and self.step == 1):
            raise Unsupported("symbolic range with step != 1")
        d = self.stop_t - self.start_t
        return z3.If(d > 0, d, z3.IntVal(0))


class _Enumerate:
    def __init__(self, inner, start=0):
        self.inner, self.start = inner, start


class _Reversed:
    def __init__(self, inner):
        self.inner = inner


class _Zip:
    def __init__(self, inners):
        self.inners = inners


class _DictItems:
    def __init__(self, d):
        self.d = d


class _DictValues:
    def __init__(self, d):
        self.d = d


class _Module:
    def __init__(self, name, attrs):
        self.name, self.attrs = name, attrs

    def attr(self, name, ex):
        if name in self.attrs:
            return self.attrs[name]
        raise Unsupported(f"{self.name}.{name}")


class Custom:
    """Contract-provided ghost view of a container (abstract state + the operations the code may use).
    Any other operation is UNSUPPORTED."""

    def truth(self, ex):
        raise Unsupported(f"truth of {type(self).__name__}")

    def length(self, ex):
        raise Unsupported(f"len of {type(self).__name__}")

    def getitem(self, ex, idx, line):
        raise Unsupported(f"subscript of {type(self).__name__}")

    def method(self, ex, name, args, kwargs, line):
        raise Unsupported(f"{type(self).__name__}.{name}")

    def delslice(self, ex, lo, hi, line):
        raise Unsupported(f"del on {type(self).__name__}")

    def join(self, ex, sep, line):
        raise Unsupported(f"join of {type(self).__name__}")


class _SDictLike:
    """Interface for contract-provided symbolic maps."""


class _ObjDict(Custom):
    """obj.__dict__ of a record object: item access is raw field access"""

    def __init__(self, obj):
        self.obj = obj

    def getitem(self, ex, idx, line):
        if not isinstance(idx, str):
            raise Unsupported("__dict__ with a symbolic key")
        if idx not in self.obj.fields:
            ex.safety(False, "KeyError", "instance-dict-key", line)
            raise PathEnd()
        return self.obj.fields[idx]

    def setitem(self, ex, idx, v, line):
        if not isinstance(idx, str):
            raise Unsupported("__dict__ with a symbolic key")
        self.obj.fields[idx] = v


class _Sliceable:
    """Interface for contract-provided byte memories."""


class _SpecCallable:
    def __init__(self, fn):
        self.fn = fn

    def call(self, ex, args, kwargs, line):
        return self.fn(ex, *args, **kwargs)


class _SpecEnv(dict):
    """Environment for contract expressions: program variables + spec vocabulary."""

    def __init__(self, ex, env, contract):
        super().__init__(env)
        self["__closure__"] = None
        self.ex = ex
        voc = ex.ctx.spec_vocab(ex, env, contract)
        for k, v in voc.items():
            self.setdefault(k, v)

"""Locate the *real* functions in /repo's working tree and hand their AST to the verifier.

Nothing is copied into /verif: every run re-reads the file, finds the function by qualified
name and records the sha256 of its source segment.  What is dropped is listed per function
(docstrings, annotations, logging calls) and reported in the evidence.
"""
from __future__ import annotations

import ast
import hashlib
import os
import subprocess

REPO = os.environ.get("PYVC_REPO", "/repo")
SRC = os.path.join(REPO, "src", "numbers_parser")

_cache: dict = {}


class ExtractError(Exception):
    pass


def module_path(mod: str) -> str:
    return os.path.join(os.environ.get("PYVC_SRC", SRC), mod + ".py")


def load_module(mod: str):
    key = (module_path(mod),)
    if key not in _cache:
        p = module_path(mod)
        with open(p, encoding="utf-8") as f:
            text = f.read()
        _cache[key] = (text, ast.parse(text, filename=p))
    return _cache[key]


class FuncInfo:
    def __init__(self, qual, mod, node, text, cls=None, decorators=()):
        self.qual = qual
        self.mod = mod
        self.node = node
        self.cls = cls
        self.lineno = node.lineno
        seg = ast.get_source_segment(text, node) or ""
        self.sha256 = hashlib.sha256(seg.encode()).hexdigest()
        self.nlines = seg.count("\n") + 1
        self.decorators = [ast.unparse(d) for d in node.decorator_list]
        self.params = [a.arg for a in node.args.posonlyargs + node.args.args]
        self.dropped = dropped_constructs(node)

    def describe(self):
        return {
            "name": self.qual,
            "file": os.path.relpath(module_path(self.mod), REPO),
            "line": self.lineno,
            "lines": self.nlines,
            "sha256": self.sha256,
            "decorators": self.decorators,
            "dropped": self.dropped,
        }


def dropped_constructs(node) -> list:
    d = []
    if ast.get_docstring(node) is not None:
        d.append("docstring")
    if node.returns is not None or any(
        a.annotation is not None for a in node.args.args + node.args.kwonlyargs
    ):
        d.append("type annotations")
    for n in ast.walk(node):
        if isinstance(n, ast.Call):
            f = n.func
            name = f.id if isinstance(f, ast.Name) else (f.attr if isinstance(f, ast.Attribute) else "")
            if name in ("debug", "warn") and name not in d:
                d.append(f"{name}(...) calls (no-op)")
    return d


def find_function(qualname: str) -> FuncInfo:
    """qualname = 'module:Class.method' | 'module:func' | 'module:func.nested'."""
    mod, _, path = qualname.partition(":")
    text, tree = load_module(mod)
    parts = path.split(".")
    body = tree.body
    node = None
    cls = None
    for i, p in enumerate(parts):
        found = None
        for n in body:
            if isinstance(n, (ast.FunctionDef, ast.ClassDef)) and n.name == p:
                found = n
                # properties: prefer the getter unless '@x.setter' is requested
                if isinstance(n, ast.FunctionDef) and any(
                    isinstance(d, ast.Attribute) and d.attr == "setter" for d in n.decorator_list
                ):
                    continue
                break
        if found is None and p.endswith("@setter"):
            base = p[: -len("@setter")]
            for n in body:
                if isinstance(n, ast.FunctionDef) and n.name == base and any(
                    isinstance(d, ast.Attribute) and d.attr == "setter" for d in n.decorator_list
                ):
                    found = n
                    break
        if found is None:
            raise ExtractError(f"{qualname}: '{p}' not found in {module_path(mod)}")
        if isinstance(found, ast.ClassDef):
            cls = found
            body = found.body
        else:
            # nested function: search the whole subtree, not only direct statements
            body = [n for n in ast.walk(found) if isinstance(n, (ast.FunctionDef, ast.ClassDef)) and n is not found]
        node = found
    if not isinstance(node, ast.FunctionDef):
        raise ExtractError(f"{qualname}: not a function")
    return FuncInfo(qualname, mod, node, text, cls)


def find_class(mod: str, name: str):
    _, tree = load_module(mod)
    for n in tree.body:
        if isinstance(n, ast.ClassDef) and n.name == name:
            return n
    raise ExtractError(f"{mod}:{name}: class not found")


def module_assign(mod: str, name: str):
    """AST of the value assigned to a module-level name (last assignment wins)."""
    _, tree = load_module(mod)
    val = None
    for n in tree.body:
        if isinstance(n, ast.Assign):
            for t in n.targets:
                if isinstance(t, ast.Name) and t.id == name:
                    val = n.value
        elif isinstance(n, ast.AnnAssign) and isinstance(n.target, ast.Name) and n.target.id == name:
            val = n.value
    if val is None:
        raise ExtractError(f"{mod}:{name}: module-level assignment not found")
    return val


def class_assign(mod: str, cls: str, name: str):
    c = find_class(mod, cls)
    for n in c.body:
        if isinstance(n, ast.Assign):
            for t in n.targets:
                if isinstance(t, ast.Name) and t.id == name:
                    return n.value
        elif isinstance(n, ast.AnnAssign) and isinstance(n.target, ast.Name) and n.target.id == name:
            return n.value
    raise ExtractError(f"{mod}:{cls}.{name}: class-level assignment not found")


def const_eval(node, env=None):
    """A tiny constant folder for module-level tables (literals, dict.fromkeys, ord, arithmetic)."""
    env = env or {}
    try:
        return ast.literal_eval(node)
    except Exception:
        pass
    if isinstance(node, ast.Name) and node.id in env:
        return env[node.id]
    if isinstance(node, ast.BinOp):
        l, r = const_eval(node.left, env), const_eval(node.right, env)
        ops = {ast.Add: lambda a, b: a + b, ast.Sub: lambda a, b: a - b, ast.Mult: lambda a, b: a * b,
               ast.Pow: lambda a, b: a ** b, ast.FloorDiv: lambda a, b: a // b, ast.BitOr: lambda a, b: a | b,
               ast.LShift: lambda a, b: a << b, ast.Div: lambda a, b: a / b}
        return ops[type(node.op)](l, r)
    if isinstance(node, ast.UnaryOp) and isinstance(node.op, ast.USub):
        return -const_eval(node.operand, env)
    if isinstance(node, (ast.List, ast.Tuple, ast.Set)):
        vals = [const_eval(e, env) for e in node.elts]
        return {ast.List: list, ast.Tuple: tuple, ast.Set: set}[type(node)](vals)
    if isinstance(node, ast.Dict):
        return {const_eval(k, env): const_eval(v, env) for k, v in zip(node.keys, node.values)}
    if isinstance(node, ast.Call):
        fn = ast.unparse(node.func)
        args = [const_eval(a, env) for a in node.args]
        if fn == "dict.fromkeys":
            return dict.fromkeys(*args)
        if fn in ("ord", "chr", "len", "frozenset", "set", "tuple", "list", "str", "int", "float", "max", "min"):
            return {"ord": ord, "chr": chr, "len": len, "frozenset": frozenset, "set": set, "tuple": tuple,
                    "list": list, "str": str, "int": int, "float": float, "max": max, "min": min}[fn](*args)
        if fn in ("re.compile",):
            return ("re.compile", args[0], args[1:] )
    raise ExtractError(f"cannot fold constant: {ast.unparse(node)[:80]}")


def module_const(mod: str, name: str, env=None):
    return const_eval(module_assign(mod, name), env)


def git_blob(mod: str) -> str:
    try:
        return subprocess.run(["git", "-C", REPO, "hash-object", module_path(mod)], capture_output=True,
                              text=True, timeout=20).stdout.strip()
    except Exception:
        return "?"

"""Semantics of the Python built-ins and methods the verified functions use."""
from __future__ import annotations

import z3

from .sym import (Custom, SInt, SBool, SStr, SFloat, SOpt, PList, SList, PDict, PObj, SRef, VExc, Func, BoundMethod,
                  Builtin, ClassRef, ReMatch, RePattern, Unsupported, PyRaise, PathEnd, lift, wrap, is_sym,
                  is_intlike, as_int_term, fresh_name, py_str_of_int, py_int, py_lower, py_upper, f2i, i2f,
                  _Range, _Enumerate, _Reversed, _Zip, _DictItems, _DictValues, _SDictLike, _Sliceable, exc_isa,
                  Int, Str)
from . import regex as RX

BUILTIN_NAMES = {
    "len", "range", "enumerate", "reversed", "zip", "ord", "chr", "str", "int", "bool", "float", "abs", "min", "max",
    "isinstance", "type", "sum", "sorted", "list", "tuple", "dict", "bytearray", "bytes", "any", "all", "repr",
    "getattr", "setattr", "hasattr", "bin", "next", "iter", "print", "round", "divmod", "set", "id", "callable",
    "pack", "unpack", "struct.pack", "struct.unpack",
}

TYPE_NAMES = {"int", "str", "bool", "float", "list", "tuple", "dict", "bytes", "bytearray", "NoneType"}


def call_builtin(ex, name, args, kwargs, line):
    fn = _B.get(name)
    if fn is None:
        raise Unsupported(f"builtin {name} at L{line}")
    return fn(ex, args, kwargs, line)


def b_len(ex, args, kwargs, line):
    (v,) = args
    if isinstance(v, SOpt):
        v = ex.unopt(v, line, "len-arg")
    from . import grid as G
    if isinstance(v, G.GRID_TYPES):
        return wrap(G.length(ex, v))
    if isinstance(v, SStr):
        return wrap(z3.Length(v.t))
    if isinstance(v, PList):
        return len(v.items)
    if isinstance(v, SList):
        return wrap(v.ln)
    if isinstance(v, PDict):
        return len(v.d)
    if isinstance(v, (str, tuple, bytes, list, dict)):
        return len(v)
    if isinstance(v, (_Sliceable, _SDictLike, Custom)):
        return wrap(v.length(ex))
    if isinstance(v, PObj):
        return ex.call_value(BoundMethod(v, "__len__"), [], {}, line)
    if v is None:
        ex.safety(False, "TypeError", "len-of-None", line)
        raise PathEnd()
    raise Unsupported(f"len of {type(v).__name__}")


def b_range(ex, args, kwargs, line):
    if len(args) == 1:
        return _Range(0, args[0], 1)
    if len(args) == 2:
        return _Range(args[0], args[1], 1)
    return _Range(*args)


def b_enumerate(ex, args, kwargs, line):
    start = kwargs.get("start", args[1] if len(args) > 1 else 0)
    return _Enumerate(args[0], start)


def b_reversed(ex, args, kwargs, line):
    return _Reversed(args[0])


def b_zip(ex, args, kwargs, line):
    return _Zip(args)


def b_ord(ex, args, kwargs, line):
    (c,) = args
    if isinstance(c, str):
        return ord(c)
    ex.safety(z3.Length(c.t) == 1, "TypeError", "ord-of-single-char", line)
    return wrap(z3.StrToCode(c.t))


def b_chr(ex, args, kwargs, line):
    (n,) = args
    if isinstance(n, int):
        return chr(n)
    t = as_int_term(n)
    ex.safety(z3.And(t >= 0, t <= 0x10FFFF), "ValueError", "chr-in-range", line)
    ex.notes.add("chr(): code points above z3's character range are not modelled")
    return wrap(z3.StrFromCode(t))


def b_str(ex, args, kwargs, line):
    if not args:
        return ""
    return ex.to_str(args[0], line)


def b_repr(ex, args, kwargs, line):
    v = args[0]
    if is_intlike(v) and not isinstance(v, (bool, SBool)):
        return ex.to_str(v, line)
    raise Unsupported("repr")


def b_int(ex, args, kwargs, line):
    if not args:
        return 0
    v = args[0]
    if isinstance(v, SOpt):
        v = ex.unopt(v, line, "int-arg")
    if isinstance(v, bool):
        return int(v)
    if isinstance(v, int):
        return v
    if isinstance(v, (SInt, SBool)):
        return wrap(as_int_term(v))
    if isinstance(v, str):
        try:
            return int(v, *args[1:])
        except ValueError:
            raise PyRaise(VExc("ValueError", (), f"L{line}:int()"))
    if isinstance(v, SStr):
        if len(args) > 1:
            raise Unsupported("int(str, base)")
        ok = ex.ctx.int_literal_ok(ex, v.t)
        ex.safety(ok, "ValueError", "int-literal", line)
        ex.hints.append(ex.ctx.py_int_axiom(v.t))
        return wrap(py_int(v.t))
    if isinstance(v, SFloat):
        ex.notes.add("int(float): uninterpreted truncation f2i")
        hook = getattr(ex.ctx, "int_of_float", None)
        if hook is not None:
            hook(ex, v.t)  # a contract may attach a (listed) fact about this particular truncation
        return wrap(f2i(v.t))
    if isinstance(v, float):
        return int(v)
    raise Unsupported(f"int() of {type(v).__name__}")


def b_bool(ex, args, kwargs, line):
    if not args:
        return False
    t = ex.truth(args[0])
    return t if isinstance(t, bool) else wrap(t)


def b_float(ex, args, kwargs, line):
    v = args[0]
    if isinstance(v, (int, float)) and not is_sym(v):
        return float(v)
    if isinstance(v, (SInt, SBool)):
        return SFloat(i2f(as_int_term(v)))
    if isinstance(v, SFloat):
        return v
    if isinstance(v, (str, SStr)):
        return ex.ctx.float_of_str(ex, v, line)
    raise Unsupported(f"float() of {type(v).__name__}")


def b_abs(ex, args, kwargs, line):
    v = args[0]
    if isinstance(v, (int, float)):
        return abs(v)
    t = as_int_term(v)
    return wrap(z3.If(t >= 0, t, -t))


def b_round(ex, args, kwargs, line):
    v = args[0]
    if len(args) == 1 and not kwargs:
        if isinstance(v, (int, float)) and not isinstance(v, bool):
            return round(v)
        if isinstance(v, (SInt, SBool)):
            return wrap(as_int_term(v))  # round(int) is the int itself
    hook = getattr(ex.ctx, "round_hook", None)
    if hook is not None:
        return hook(ex, args, kwargs, line)
    raise Unsupported(f"round() of {type(v).__name__} at L{line}")


def _minmax(ismax):
    def f(ex, args, kwargs, line):
        items = args if len(args) > 1 else ex.iter_concrete(args[0])
        if not items:
            if "default" in kwargs:
                return kwargs["default"]
            raise PyRaise(VExc("ValueError", (), f"L{line}:{'max' if ismax else 'min'}-empty"))
        if all(isinstance(x, (int, float)) and not is_sym(x) for x in items):
            return max(items) if ismax else min(items)
        acc = as_int_term(items[0])
        for x in items[1:]:
            t = as_int_term(x)
            acc = z3.If(t > acc, t, acc) if ismax else z3.If(t < acc, t, acc)
        return wrap(acc)

    return f


def b_isinstance(ex, args, kwargs, line):
    v, t = args
    types = t if isinstance(t, tuple) else (t,)
    res = False
    for ty in types:
        r = _isinstance1(ex, v, ty)
        if r is True:
            return True
        if r is not False:
            res = r if res is False else z3.Or(res, r)
    return res if isinstance(res, bool) else wrap(res)


def _isinstance1(ex, v, ty):
    name = ty.name if isinstance(ty, (ClassRef, Builtin)) else str(ty)
    if isinstance(v, SOpt):
        if name == "NoneType":
            return v.isnone
        inner = _isinstance1(ex, v.val, ty)
        if inner is False:
            return False
        return z3.And(z3.Not(v.isnone), z3.BoolVal(True) if inner is True else inner)
    if name == "int":
        return isinstance(v, (int, SInt, SBool))  # bool is a subclass of int
    if name == "bool":
        return isinstance(v, (bool, SBool))
    if name == "str":
        return isinstance(v, (str, SStr))
    if name == "float":
        return isinstance(v, (float, SFloat))
    if name in ("list",):
        return isinstance(v, (PList, SList)) and getattr(v, "kind", "list") == "list"
    if name in ("bytearray", "bytes"):
        return isinstance(v, bytes) or (isinstance(v, PList) and v.kind == "bytearray")
    if name == "tuple":
        return isinstance(v, tuple)
    if name == "dict":
        return isinstance(v, (PDict, dict))
    if isinstance(v, PObj):
        return ex.ctx.is_subclass(v.cls, name)
    if isinstance(v, SRef):
        return ex.ctx.is_subclass(v.cls, name)
    if isinstance(v, VExc):
        return exc_isa(v.cls, name)
    if v is None or isinstance(v, (int, str, float, bool, SInt, SStr, SBool, SFloat, tuple, PList, PDict)):
        return False
    raise Unsupported(f"isinstance({type(v).__name__}, {name})")


def b_type(ex, args, kwargs, line):
    v = args[0]
    if isinstance(v, PObj):
        return ClassRef(v.cls)
    for py, nm in ((bool, "bool"), (SBool, "bool"), (int, "int"), (SInt, "int"), (str, "str"), (SStr, "str"),
                   (float, "float"), (SFloat, "float")):
        if isinstance(v, py):
            return ClassRef(nm)
    raise Unsupported("type()")


def b_list(ex, args, kwargs, line):
    if not args:
        return PList([])
    v = args[0]
    if isinstance(v, SList):
        return SList(v.ln, v.at, v.ekind)
    return PList(ex.iter_concrete(v))


def b_tuple(ex, args, kwargs, line):
    if not args:
        return ()
    from . import grid as G
    if isinstance(args[0], G.SRowVal):
        return args[0]
    if isinstance(args[0], G.SRowRef):
        return G.SRowVal(z3.Select(args[0].grid.rl, args[0].r), z3.Select(args[0].grid.at, args[0].r), args[0].grid.cls)
    return tuple(ex.iter_concrete(args[0]))


def b_dict(ex, args, kwargs, line):
    d = PDict()
    if args:
        src = args[0]
        if isinstance(src, PDict):
            d.d.update(src.d)
        else:
            for k, v in ex.iter_concrete(src):
                d.d[k] = v
    d.d.update(kwargs)
    return d


def b_super(ex, args, kwargs, line):
    raise Unsupported("super() outside a method")


def b_bytearray(ex, args, kwargs, line):
    if ex.ctx.bytearray_as_mem:
        from .bytemem import ByteMem, ZeroBytes
        if not args:
            return ByteMem.zeros(0)
        v = args[0]
        if isinstance(v, int):
            return ByteMem.zeros(v)
        if isinstance(v, SInt):
            return ZeroBytes(v.t)
        raise Unsupported("bytearray(...) in byte-memory mode")
    if not args:
        return PList([], "bytearray")
    v = args[0]
    if isinstance(v, int):
        return PList([0] * v, "bytearray")
    return PList(ex.iter_concrete(v), "bytearray")


def b_any(ex, args, kwargs, line):
    items = ex.iter_concrete(args[0])
    ts = [ex.truth(x) for x in items]
    if any(t is True for t in ts):
        return True
    ts = [t for t in ts if t is not False]
    return False if not ts else wrap(z3.Or(*ts))


def b_all(ex, args, kwargs, line):
    items = ex.iter_concrete(args[0])
    ts = [ex.truth(x) for x in items]
    if any(t is False for t in ts):
        return False
    ts = [t for t in ts if t is not True]
    return True if not ts else wrap(z3.And(*ts))


def b_sum(ex, args, kwargs, line):
    items = ex.iter_concrete(args[0])
    acc = args[1] if len(args) > 1 else 0
    import ast
    for x in items:
        acc = ex.binop(ast.Add(), acc, x, line)
    return acc


def b_getattr(ex, args, kwargs, line):
    obj, name = args[0], args[1]
    if not isinstance(name, str):
        raise Unsupported("getattr with symbolic name")
    try:
        return ex.get_attr(obj, name, line)
    except Unsupported:
        if len(args) > 2:
            return args[2]
        raise


def b_setattr(ex, args, kwargs, line):
    obj, name, v = args
    if not isinstance(name, str):
        raise Unsupported("setattr with symbolic name")
    ex.set_attr(obj, name, v, line)


def b_hasattr(ex, args, kwargs, line):
    obj, name = args
    if isinstance(obj, (str, int, SStr, SInt, SBool, bool, float, SFloat)):
        return hasattr("" if isinstance(obj, (str, SStr)) else 0, name)
    if isinstance(obj, PObj):
        return name in obj.fields or ex.ctx.find_method(obj.cls, name) is not None or (obj.cls, name) in getattr(ex.ctx, "method_models", {})
    raise Unsupported("hasattr")


def b_bin(ex, args, kwargs, line):
    return _BinStr(args[0])


class _BinStr:
    """bin(x): only `.count("1")` is supported (population count)."""

    def __init__(self, v):
        self.v = v


def b_sorted(ex, args, kwargs, line):
    items = ex.iter_concrete(args[0])
    if all(not is_sym(x) for x in items) and not kwargs:
        return PList(sorted(items))
    raise Unsupported("sorted of symbolic items")


def b_print(ex, args, kwargs, line):
    return None


def b_struct_pack(ex, args, kwargs, line):
    return ex.ctx.struct_pack(ex, args, line)


def b_struct_unpack(ex, args, kwargs, line):
    return ex.ctx.struct_unpack(ex, args, line)


_B = {
    "round": b_round,
    "len": b_len, "range": b_range, "enumerate": b_enumerate, "reversed": b_reversed, "zip": b_zip, "ord": b_ord,
    "chr": b_chr, "str": b_str, "int": b_int, "bool": b_bool, "float": b_float, "abs": b_abs,
    "min": _minmax(False), "max": _minmax(True), "isinstance": b_isinstance, "type": b_type, "list": b_list,
    "tuple": b_tuple, "dict": b_dict, "bytearray": b_bytearray, "bytes": b_bytearray, "any": b_any, "all": b_all,
    "sum": b_sum, "getattr": b_getattr, "setattr": b_setattr, "hasattr": b_hasattr, "bin": b_bin, "repr": b_repr,
    "sorted": b_sorted, "print": b_print, "pack": b_struct_pack, "unpack": b_struct_unpack,
}


# ------------------------------------------------------------------ methods

def call_method(ex, obj, name, args, kwargs, line):
    if isinstance(obj, SOpt):
        obj = ex.unopt(obj, line, "receiver")
    from . import grid as G
    if isinstance(obj, G.GRID_TYPES):
        if name == "append":
            return G.append(ex, obj, args[0], line)
        raise Unsupported(f"grid method .{name}")
    if isinstance(obj, PObj):
        return ex.ctx.call_obj_method(ex, obj, name, args, kwargs, line)
    if isinstance(obj, SRef):
        return ex.ctx.call_ref_method(ex, obj, name, args, kwargs, line)
    if isinstance(obj, (str, SStr)):
        return str_method(ex, obj, name, args, kwargs, line)
    if isinstance(obj, PList):
        return plist_method(ex, obj, name, args, kwargs, line)
    if isinstance(obj, SList):
        return slist_method(ex, obj, name, args, kwargs, line)
    if isinstance(obj, PDict):
        return pdict_method(ex, obj, name, args, kwargs, line)
    if isinstance(obj, dict):
        return pdict_method(ex, PDict(obj), name, args, kwargs, line)
    if isinstance(obj, (_SDictLike, _Sliceable, Custom)):
        return obj.method(ex, name, args, kwargs, line)
    if isinstance(obj, RePattern):
        return RX.pattern_method(ex, obj, name, args, kwargs, line)
    if isinstance(obj, ReMatch):
        return RX.match_method(ex, obj, name, args, kwargs, line)
    if isinstance(obj, _BinStr) and name == "count" and args == ["1"]:
        return popcount(ex, obj.v)
    if isinstance(obj, tuple) and name == "count":
        cs = [ex.equals(x, args[0]) for x in obj]
        return wrap(z3.Sum([z3.If(c if not isinstance(c, bool) else z3.BoolVal(c), 1, 0) for c in cs])) if cs else 0
    if isinstance(obj, (ClassRef, Builtin)) and obj.name == "dict" and name == "fromkeys":
        d = PDict()
        for k in ex.iter_concrete(args[0]):
            d.d[k] = args[1] if len(args) > 1 else None
        return d
    if isinstance(obj, ClassRef):
        return ex.ctx.call_static(ex, obj.name, name, args, kwargs, line)
    raise Unsupported(f"method .{name} on {type(obj).__name__} at L{line}")


def popcount(ex, v):
    if isinstance(v, int):
        return bin(v).count("1")
    # only for band(x, mask) shapes: the value is a sum of bit_k * 2^k terms; count bits by re-deriving
    from .sym import bit, bits_of
    t = as_int_term(v)
    d = bits_of(t)
    if d is not None:
        bs = [z3.If(b, 1, 0) for b in d.values()]
        return wrap(z3.Sum(bs) if len(bs) > 1 else bs[0]) if bs else 0
    info = ex.band_terms.get(t.get_id())
    if info is None:
        raise Unsupported("popcount of a general symbolic int")
    x, mask = info
    bits = [bit(x, k) for k in range(mask.bit_length()) if mask >> k & 1]
    return wrap(z3.Sum(bits) if len(bits) > 1 else bits[0])


def str_method(ex, s, name, args, kwargs, line):
    conc = isinstance(s, str) and all(not is_sym(a) and not isinstance(a, (PList,)) for a in args)
    if conc and name not in ("join",):
        try:
            r = getattr(s, name)(*args, **kwargs)
        except (ValueError, IndexError) as e:
            raise PyRaise(VExc(type(e).__name__, (), f"L{line}:str.{name}"))
        if isinstance(r, list):
            return PList(r)
        return r
    t = lift(s)
    if name == "join" and isinstance(args[0], Custom):
        return args[0].join(ex, s, line)
    if name == "join":
        items = ex.iter_concrete(args[0]) if not isinstance(args[0], SList) else None
        if items is None:
            return ex.ctx.join_slist(ex, s, args[0], line)
        parts = []
        for i, x in enumerate(items):
            if i:
                parts.append(s)
            if not isinstance(x, (str, SStr)):
                raise Unsupported("join of non-str")
            parts.append(x)
        return ex.concat_strs(parts) if parts else ""
    if name == "startswith":
        a = args[0]
        if isinstance(a, tuple):
            return wrap(z3.Or(*[z3.PrefixOf(lift(x), t) for x in a]))
        return wrap(z3.PrefixOf(lift(a), t))
    if name in ("removeprefix", "removesuffix"):
        a = lift(args[0])
        if name == "removeprefix":
            return wrap(z3.If(z3.PrefixOf(a, t), z3.SubString(t, z3.Length(a), z3.Length(t) - z3.Length(a)), t))
        return wrap(z3.If(z3.SuffixOf(a, t), z3.SubString(t, 0, z3.Length(t) - z3.Length(a)), t))
    if name == "endswith":
        a = args[0]
        if isinstance(a, tuple):
            return wrap(z3.Or(*[z3.SuffixOf(lift(x), t) for x in a]))
        return wrap(z3.SuffixOf(lift(a), t))
    if name in ("lower", "upper"):
        mapped = _map_literal_leaves(t, (lambda x: x.lower()) if name == "lower" else (lambda x: x.upper()))
        if mapped is not None:
            return wrap(mapped)
        ex.hints.extend(ex.ctx.case_axioms(t))
        return wrap(py_lower(t) if name == "lower" else py_upper(t))
    if name == "replace":
        if len(args) == 2:
            return wrap(z3.StringVal("") if False else _replace_all(lift(s), lift(args[0]), lift(args[1])))
        raise Unsupported("replace with count")
    if name == "isalpha" or name == "isnumeric" or name == "isdigit":
        return wrap(ex.ctx.str_pred(name, t))
    if name == "find" or name == "index":
        r = z3.IndexOf(t, lift(args[0]), as_int_term(args[1]) if len(args) > 1 else z3.IntVal(0))
        if name == "index":
            ex.safety(r >= 0, "ValueError", "substring-found", line)
        return wrap(r)
    if name == "count":
        raise Unsupported("str.count symbolic")
    if name in ("strip", "lstrip", "rstrip", "split", "format", "zfill", "rjust", "ljust"):
        raise Unsupported(f"str.{name} on symbolic string")
    raise Unsupported(f"str.{name}")


def _map_literal_leaves(t, fn):
    """fn applied to an if-then-else tree whose leaves are string literals (e.g. str(bool).upper())"""
    if z3.is_string_value(t):
        try:
            return z3.StringVal(fn(t.as_string()))
        except Exception:
            return None
    if z3.is_app(t) and t.decl().kind() == z3.Z3_OP_ITE:
        a, b = _map_literal_leaves(t.arg(1), fn), _map_literal_leaves(t.arg(2), fn)
        if a is None or b is None:
            return None
        return z3.If(t.arg(0), a, b)
    return None


def _replace_all(s, a, b):
    # z3 has str.replace_all
    return z3.Function("str.replace_all", Str, Str, Str, Str)(s, a, b) if False else _mk_replace_all(s, a, b)


def _mk_replace_all(s, a, b):
    # build (str.replace_all s a b) via the low-level API
    return z3.SeqRef(z3.Z3_mk_seq_replace_all(s.ctx_ref(), s.as_ast(), a.as_ast(), b.as_ast()), s.ctx) \
        if hasattr(z3, "Z3_mk_seq_replace_all") else z3.Replace(s, a, b)


def plist_method(ex, lst, name, args, kwargs, line):
    if name == "append":
        lst.items.append(args[0])
        return None
    if name == "extend":
        lst.items.extend(ex.iter_concrete(args[0]))
        return None
    if name == "pop":
        if not lst.items:
            ex.safety(False, "IndexError", "pop-nonempty", line)
            raise PathEnd()
        if args:
            if not isinstance(args[0], int):
                raise Unsupported("pop(symbolic)")
            return lst.items.pop(args[0])
        return lst.items.pop()
    if name == "insert":
        if not isinstance(args[0], int):
            raise Unsupported("insert(symbolic)")
        lst.items.insert(args[0], args[1])
        return None
    if name == "copy":
        return PList(lst.items, lst.kind)
    if name == "clear":
        lst.items.clear()
        return None
    if name == "count":
        cs = [ex.equals(x, args[0]) for x in lst.items]
        if all(isinstance(c, bool) for c in cs):
            return sum(cs)
        return wrap(z3.Sum([z3.If(c if not isinstance(c, bool) else z3.BoolVal(c), 1, 0) for c in cs]))
    if name == "index":
        for i, x in enumerate(lst.items):
            c = ex.equals(x, args[0])
            if ex.decide(c if not isinstance(c, bool) else z3.BoolVal(c), "list.index"):
                return i
        raise PyRaise(VExc("ValueError", (), f"L{line}:list.index"))
    if name == "reverse":
        lst.items.reverse()
        return None
    raise Unsupported(f"list.{name}")


def slist_method(ex, lst, name, args, kwargs, line):
    if name == "append":
        lst.at = z3.Store(lst.at, lst.ln, ex.ctx.elem_term(lst.ekind, args[0]))
        lst.ln = z3.simplify(lst.ln + 1)
        return None
    if name == "pop" and not args:
        ex.safety(lst.ln > 0, "IndexError", "pop-nonempty", line)
        lst.ln = z3.simplify(lst.ln - 1)
        return ex.list_elem(lst, lst.ln)
    if name == "copy":
        return SList(lst.ln, lst.at, lst.ekind)
    raise Unsupported(f"symbolic list.{name}")


def pdict_method(ex, d, name, args, kwargs, line):
    if name == "get":
        k = args[0]
        default = args[1] if len(args) > 1 else None
        if not is_sym(k):
            return d.d.get(k, default)
        for kk, v in d.d.items():
            c = ex.equals(kk, k)
            if c is False:
                continue
            if ex.decide(c if not isinstance(c, bool) else z3.BoolVal(c), f"get=={kk!r}"):
                return v
        return default
    if name == "items":
        return _DictItems(d)
    if name == "values":
        return _DictValues(d)
    if name == "keys":
        return PList(list(d.d.keys()))
    if name == "pop":
        if is_sym(args[0]):
            raise Unsupported("dict.pop symbolic")
        if args[0] in d.d:
            return d.d.pop(args[0])
        if len(args) > 1:
            return args[1]
        raise PyRaise(VExc("KeyError", (), f"L{line}:dict.pop"))
    if name == "update":
        d.d.update(args[0].d if isinstance(args[0], PDict) else args[0])
        return None
    if name == "setdefault":
        return d.d.setdefault(args[0], args[1] if len(args) > 1 else None)
    if name == "copy":
        return PDict(d.d)
    raise Unsupported(f"dict.{name}")

"""A verification plan for one property: targets (functions under contract), lemmas, stand-ins."""
from __future__ import annotations

import z3

from .sym import Obligation


class Lemma:
    """A lemma about spec functions, proved as its own obligations (base/step with explicit IH instances)
    and usable as a hint (`lemma NAME(args)`) in function VCs."""

    def __init__(self, name, statement, proofs, instance=None, doc="", order=("z3", "cvc5"), timeout=None,
                 assumed=False):
        self.name = name
        self.statement = statement  # text for the evidence
        self.proofs = proofs  # list of (label, [hypotheses], goal)
        self.instance = instance  # callable(*terms) -> z3 Bool, the lemma instantiated
        self.doc = doc
        self.order = order
        self.timeout = timeout
        self.assumed = assumed

    def obligations(self, prop):
        out = []
        for label, hyps, goal in self.proofs:
            ob = Obligation(label, hyps, goal, "lemma")
            ob.fn = f"lemma:{self.name}"
            ob.order = self.order
            ob.timeout = self.timeout
            out.append(ob)
            if hyps:
                cov = Obligation(f"{label}/hypotheses-satisfiable", hyps, None, "cover", expect="sat")
                cov.fn = f"lemma:{self.name}"
                cov.order = self.order
                out.append(cov)
        return out


class Plan:
    def __init__(self, prop, ctx):
        self.prop = prop
        self.ctx = ctx
        self.targets = []  # Contract objects to be verified
        self.lemmas = []
        self.assumptions = []  # strings
        self.trusted = []
        self.replayers = {}  # qual -> callable(model, obligation, info) -> native job dict
        self.bounded = []  # list of BoundedStandIn
        self.native_module = None  # path of the *_native.py module with NATIVE dict
        self.ground = []  # (name, callable()->(ok, detail)) finite complete checks done by evaluation
        self.call_site_checks = []
        self.probes = []  # (name, callable()->(ok, detail, count)): bounded native probes of *assumptions* (never proof)
        self.notes = []
        self.extra_obligations = []  # callables(plan) -> [Obligation]

    def target(self, c):
        self.ctx.add(c)
        self.targets.append(c)
        return c

    def import_targets(self, other, keep):
        """Re-target contracts of another property's plan (verified here again, in their own context and with their own
        native replay module): `keep(contract) -> bool` selects them."""
        got = []
        for c in other.targets:
            if keep(c):
                c.ctx = other.ctx
                c.home = other
                self.targets.append(c)
                got.append(c)
        self.imported = getattr(self, "imported", []) + [other]
        if got:  # the imported contracts rest on their own plan's assumptions: report them here too
            for a in other.assumptions:
                tagged = f"[{other.prop}] {a}"
                if tagged not in self.assumptions:
                    self.assumptions.append(tagged)
        return got

    def callee(self, c):
        """A contract used at call sites only (assumed or verified under another property)."""
        self.ctx.add(c)
        return c

    def lemma(self, lem):
        self.lemmas.append(lem)
        self.ctx.lemmas[lem.name] = lem
        return lem


class BoundedStandIn:
    def __init__(self, name, script, args, bound, functions, thorough_args=None, timeout=1800):
        self.name, self.script, self.args, self.bound, self.functions = name, script, args, bound, functions
        self.thorough_args = thorough_args or args
        self.timeout = timeout

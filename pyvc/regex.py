"""Translation of the regular expressions found in the source text to SMT regular expressions.

A successful `match` is modelled existentially, one fresh string per top-level item of the
pattern (`s == p1 ++ ... ++ pn ++ rest`, `pi in L(item_i)`), plus maximality of a trailing
greedy repetition over a character class.  That over-approximates CPython's backtracking
choice (the real match is one such decomposition), which is sound for proving
postconditions.  `None` is returned exactly when no prefix of the string is in the language
(completeness of backtracking for these patterns is a trusted fact about `re`).
"""
from __future__ import annotations

import re
import unicodedata
import sys

import z3

try:
    import re._parser as sre_parse  # py311+
    import re._constants as sre_c
except ImportError:  # pragma: no cover
    import sre_parse
    import sre_constants as sre_c

from .sym import (SStr, SInt, ReMatch, RePattern, Unsupported, PyRaise, VExc, lift, wrap, as_int_term, fresh_name, Str)

MAXCHAR = 0x2FFFF  # z3's character range; code points above are outside the model (stated assumption)

_digit_ranges = None


def unicode_ranges(pred):
    out = []
    start = None
    for cp in range(MAXCHAR + 1):
        if pred(chr(cp)):
            if start is None:
                start = cp
        elif start is not None:
            out.append((start, cp - 1))
            start = None
    if start is not None:
        out.append((start, MAXCHAR))
    return out


def digit_ranges():
    global _digit_ranges
    if _digit_ranges is None:
        _digit_ranges = unicode_ranges(lambda c: unicodedata.category(c) == "Nd")
    return _digit_ranges


_space_ranges = None


def space_ranges():
    global _space_ranges
    if _space_ranges is None:
        _space_ranges = unicode_ranges(lambda c: c.isspace())
    return _space_ranges


def ch(cp):
    return z3.StringVal(chr(cp))


def rng(lo, hi):
    if lo == hi:
        return z3.Re(ch(lo))
    return z3.Range(ch(lo), ch(hi))


def union(rs):
    rs = list(rs)
    if not rs:
        return z3.Empty(z3.ReSort(Str))
    return rs[0] if len(rs) == 1 else z3.Union(*rs)


ANYCHAR = z3.AllChar(z3.ReSort(Str))
FULL = z3.Full(z3.ReSort(Str))


def class_re(items, ascii_digits=False):
    neg = False
    rs = []
    for op, av in items:
        if op is sre_c.NEGATE:
            neg = True
        elif op is sre_c.LITERAL:
            rs.append(rng(av, av))
        elif op is sre_c.RANGE:
            rs.append(rng(av[0], av[1]))
        elif op is sre_c.CATEGORY:
            rs.append(category_re(av))
        else:
            raise Unsupported(f"regex class item {op}")
    r = union(rs)
    if neg:
        r = z3.Intersect(ANYCHAR, z3.Complement(r))
    return r


FLAGS = [0]  # re flags of the pattern being translated (IGNORECASE etc. handled by brute-force class extraction)
_class_cache = {}


def class_by_probe(pat_text, flags):
    """Exact single-character class of `pat_text` under `flags`, by asking CPython's re for every code point
    of the model's character range (no reasoning about case folding is trusted)."""
    key = (pat_text, flags, ASCII_MODE[0])
    if key not in _class_cache:
        rx = re.compile(pat_text, flags)
        hi = 127 if ASCII_MODE[0] else MAXCHAR
        _class_cache[key] = unicode_ranges_upto(lambda c: rx.fullmatch(c) is not None, hi)
    return union(rng(a, b) for a, b in _class_cache[key])


def unicode_ranges_upto(pred, hi):
    out, start = [], None
    for cp in range(hi + 1):
        if pred(chr(cp)):
            if start is None:
                start = cp
        elif start is not None:
            out.append((start, cp - 1))
            start = None
    if start is not None:
        out.append((start, hi))
    return out


def class_text(items):
    parts = []
    for op, av in items:
        if op is sre_c.NEGATE:
            parts.insert(0, "^")
        elif op is sre_c.LITERAL:
            parts.append(re.escape(chr(av)))
        elif op is sre_c.RANGE:
            parts.append(re.escape(chr(av[0])) + "-" + re.escape(chr(av[1])))
        elif op is sre_c.CATEGORY:
            parts.append({sre_c.CATEGORY_DIGIT: "\\d", sre_c.CATEGORY_SPACE: "\\s", sre_c.CATEGORY_WORD: "\\w",
                          sre_c.CATEGORY_NOT_DIGIT: "\\D", sre_c.CATEGORY_NOT_SPACE: "\\S",
                          sre_c.CATEGORY_NOT_WORD: "\\W"}[av])
        else:
            raise Unsupported(f"regex class item {op}")
    return "[" + "".join(parts) + "]"


ASCII_MODE = [False]  # set by the executor while translating for a contract whose strings are proved ASCII


def category_re(av):
    if av is sre_c.CATEGORY_DIGIT:
        if ASCII_MODE[0]:
            return z3.Range("0", "9")
        return union(rng(a, b) for a, b in digit_ranges())
    if av is sre_c.CATEGORY_SPACE:
        if ASCII_MODE[0]:
            return union(rng(a, b) for a, b in space_ranges() if b < 128)
        return union(rng(a, b) for a, b in space_ranges())
    if av is sre_c.CATEGORY_NOT_SPACE:
        return z3.Intersect(ANYCHAR, z3.Complement(category_re(sre_c.CATEGORY_SPACE)))
    raise Unsupported(f"regex category {av}")


def seq_re(items):
    rs = [item_re(it) for it in items]
    rs = [r for r in rs if r is not None]
    if not rs:
        return z3.Re(z3.StringVal(""))
    return rs[0] if len(rs) == 1 else z3.Concat(*rs)


def item_re(item):
    op, av = item
    if FLAGS[0] and op in (sre_c.LITERAL, sre_c.NOT_LITERAL, sre_c.IN, sre_c.ANY):
        text = {sre_c.LITERAL: lambda: re.escape(chr(av)), sre_c.NOT_LITERAL: lambda: "[^" + re.escape(chr(av)) + "]",
                sre_c.IN: lambda: class_text(av), sre_c.ANY: lambda: "."}[op]()
        return class_by_probe(text, FLAGS[0])
    if op is sre_c.LITERAL:
        return rng(av, av)
    if op is sre_c.NOT_LITERAL:
        return z3.Intersect(ANYCHAR, z3.Complement(rng(av, av)))
    if op is sre_c.ANY:
        # '.' without DOTALL: any char except newline
        return z3.Intersect(ANYCHAR, z3.Complement(rng(10, 10)))
    if op is sre_c.IN:
        return class_re(av)
    if op in (sre_c.MAX_REPEAT, sre_c.MIN_REPEAT):
        lo, hi, sub = av
        r = seq_re(list(sub))
        if hi is sre_c.MAXREPEAT:
            if lo == 0:
                return z3.Star(r)
            if lo == 1:
                return z3.Plus(r)
            return z3.Concat(z3.Loop(r, lo, lo), z3.Star(r))
        if lo == 0 and hi == 1:
            return z3.Option(r)
        return z3.Loop(r, lo, hi)
    if op is sre_c.SUBPATTERN:
        return seq_re(list(av[3]))
    if op is sre_c.BRANCH:
        return union(seq_re(list(alt)) for alt in av[1])
    if op is sre_c.ASSERT_NOT or op is sre_c.ASSERT or op is sre_c.AT:
        raise Unsupported(f"regex assertion {op} inside an item")
    raise Unsupported(f"regex op {op}")


def parse(pattern):
    return list(sre_parse.parse(pattern))


class Compiled:
    """Top-level view of a pattern: items (each a z3 regex), group -> item index, trailing look-ahead."""

    def __init__(self, pattern, flags=0):
        self.pattern = pattern
        self.flags = flags
        if flags & ~(re.IGNORECASE | re.DOTALL | re.ASCII | re.UNICODE):
            raise Unsupported(f"regex flags {flags}")
        FLAGS[0] = flags
        try:
            self._build(pattern)
        finally:
            FLAGS[0] = 0

    def _build(self, pattern):
        items = parse(pattern)
        self.neg_lookahead = None
        self.at_end = False
        self.at_begin = False
        if items and items[-1][0] is sre_c.ASSERT_NOT:
            direction, sub = items[-1][1]
            if direction != 1:
                raise Unsupported("look-behind")
            self.neg_lookahead = seq_re(list(sub))
            items = items[:-1]
        if items and items[-1][0] is sre_c.AT and items[-1][1] is sre_c.AT_END:
            self.at_end = True
            items = items[:-1]
        if items and items[0][0] is sre_c.AT and items[0][1] in (sre_c.AT_BEGINNING, sre_c.AT_BEGINNING_STRING):
            self.at_begin = True
            items = items[1:]
        self.items = items
        self.res = [item_re(it) for it in items]
        self.groups = {}
        self.groups_ok = True  # groups other than 0 are only available when every capture group is a top-level item
        for i, (op, av) in enumerate(items):
            if op is sre_c.SUBPATTERN and av[0] is not None:
                self.groups[av[0]] = i
                for op2, _ in _walk(av[3]):
                    if op2 is sre_c.SUBPATTERN and _[0] is not None:
                        self.groups_ok = False
            else:
                for op2, av2 in _walk([(op, av)]):
                    if op2 is sre_c.SUBPATTERN and av2[0] is not None:
                        self.groups_ok = False
        self.whole = seq_re(items)
        # trailing greedy repetition over a single-character class: maximal
        self.tail_class = None
        self.tail_max = None
        if items:
            op, av = items[-1]
            inner = av[3] if op is sre_c.SUBPATTERN else [(op, av)]
            inner = list(inner)
            if len(inner) == 1 and inner[0][0] is sre_c.MAX_REPEAT:
                lo, hi, sub = inner[0][1]
                sub = list(sub)
                if len(sub) == 1 and sub[0][0] in (sre_c.IN, sre_c.LITERAL, sre_c.NOT_LITERAL, sre_c.ANY):
                    self.tail_class = item_re(sub[0])
                    self.tail_max = None if hi is sre_c.MAXREPEAT else hi


def _walk(items):
    for op, av in items:
        yield op, av
        if op in (sre_c.MAX_REPEAT, sre_c.MIN_REPEAT):
            yield from _walk(av[2])
        elif op is sre_c.SUBPATTERN:
            yield from _walk(av[3])
        elif op is sre_c.BRANCH:
            for alt in av[1]:
                yield from _walk(alt)


_compiled = {}


def compiled(pattern, flags=0):
    key = (pattern, flags, ASCII_MODE[0])
    if key not in _compiled:
        _compiled[key] = Compiled(pattern, flags)
    return _compiled[key]


def do_match(ex, pattern, s, line, mode="match", flags=0):
    """re.match / fullmatch of `pattern` against value s; returns ReMatch or None (forks)."""
    if isinstance(s, str):
        m = {"match": re.match, "fullmatch": re.fullmatch, "search": re.search}[mode](pattern, s, flags)
        if m is None:
            return None
        return ReMatch([m.group(0)] + list(m.groups()), m.group(0))
    if mode == "search":
        raise Unsupported("re.search on a symbolic string")
    cp = compiled(pattern, flags)
    st = s.t
    lang = cp.whole
    if cp.neg_lookahead is not None:
        # (?!x) at the end: the remainder must not start with x
        accept = z3.InRe(st, z3.Concat(lang, z3.Complement(z3.Concat(cp.neg_lookahead, FULL))))
    elif mode == "fullmatch" or cp.at_end:
        accept = z3.InRe(st, lang)
    else:
        accept = z3.InRe(st, z3.Concat(lang, FULL))
    if not ex.decide(accept, f"re.{mode}@L{line}"):
        return None
    pieces = [z3.String(fresh_name(f"g{i}")) for i in range(len(cp.res))]
    rest = z3.String(fresh_name("rest"))
    whole = z3.Concat(*pieces) if len(pieces) > 1 else (pieces[0] if pieces else z3.StringVal(""))
    ex.assume(st == z3.Concat(whole, rest))
    for p, r in zip(pieces, cp.res):
        ex.assume(z3.InRe(p, r))
    if mode == "fullmatch" or cp.at_end:
        ex.assume(rest == z3.StringVal(""))
    if cp.neg_lookahead is not None:
        ex.assume(z3.Not(z3.InRe(rest, z3.Concat(cp.neg_lookahead, FULL))))
    if cp.tail_class is not None and cp.neg_lookahead is None:
        nomore = z3.Not(z3.InRe(rest, z3.Concat(cp.tail_class, FULL)))
        if cp.tail_max is not None:
            nomore = z3.Or(z3.Length(pieces[-1]) == cp.tail_max, nomore)
        ex.assume(nomore)
    groups = [SStr(whole)]
    ng = max(cp.groups) if cp.groups else 0
    if cp.groups_ok:
        for g in range(1, ng + 1):
            groups.append(SStr(pieces[cp.groups[g]]))
    m = ReMatch(groups, SStr(whole))
    m.pieces, m.rest = pieces, rest
    return m


def pattern_method(ex, pat, name, args, kwargs, line):
    if name in ("match", "fullmatch", "search"):
        return do_match(ex, pat.pattern, args[0], line, name, pat.flags)
    raise Unsupported(f"Pattern.{name}")


def match_method(ex, m, name, args, kwargs, line):
    if name == "group":
        idx = args[0] if args else 0
        if not isinstance(idx, int):
            raise Unsupported("group(name)")
        if idx >= len(m.groups):
            raise Unsupported("capture group below top level")
        return m.groups[idx]
    if name == "groups":
        return tuple(m.groups[1:])
    if name == "end":
        w = m.groups[0]
        return len(w) if isinstance(w, str) else wrap(z3.Length(w.t))
    if name == "start":
        return 0
    raise Unsupported(f"Match.{name}")

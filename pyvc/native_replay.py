"""Runs under /venv/bin/python: call the real function natively and evaluate the contract natively.

stdin: one JSON job; stdout (last line): JSON verdict {"violated": bool, "detail": ...}.
Job forms: single call {"module","path","args","ghost","requires","ensures","raises"}, or a search
{"search": {...}} evaluated by the native module's `search` function.
"""
import importlib
import importlib.util
import json
import re
import sys


def load_native(path):
    if not path:
        return {}
    spec = importlib.util.spec_from_file_location("native_specs", path)
    m = importlib.util.module_from_spec(spec)
    spec.loader.exec_module(m)
    return m


BASE = {
    "implies": lambda a, b: (not a) or bool(b),
    "iff": lambda a, b: bool(a) == bool(b),
    "ite": lambda c, a, b: a if c else b,
    "inre": lambda s, p: re.fullmatch(p, s) is not None,
    "inre_prefix": lambda s, p: re.match(p, s) is not None,
    "isnone": lambda v: v is None,
    "val": lambda v: v,
    "div": lambda a, b: a // b,
    "true": True, "false": False,
}


def resolve(module, path):
    obj = importlib.import_module(module)
    parts = path.split(".")
    for i, p in enumerate(parts):
        if hasattr(obj, p):
            obj = getattr(obj, p)
        else:
            return None
    return obj


def check_call(job, native):
    env = dict(BASE)
    env.update(getattr(native, "NATIVE", {}))
    args = job.get("args", {})
    env.update(job.get("ghost", {}))
    env.update(args)
    for k, v in args.items():
        env["old_" + k] = v
    for r in job.get("requires", []):
        try:
            if not eval(r, env):
                return {"violated": False, "detail": f"precondition false natively: {r}", "spurious": True}
        except Exception as e:
            return {"violated": False, "detail": f"precondition not evaluable natively: {r}: {e!r}", "spurious": True}
    fn = resolve(job["module"], job["path"])
    if fn is None:
        return {"violated": False, "detail": "function not reachable natively (nested); no native replay", "spurious": True}
    exc = None
    result = None
    try:
        result = fn(**args)
    except BaseException as e:  # noqa: BLE001
        exc = e
    env["result"] = result
    raises = job.get("raises", {})
    if exc is not None:
        names = [c.__name__ for c in type(exc).__mro__]
        for cls, cond in raises.items():
            if cls.split(".")[-1] in names:
                if cond is None or eval(cond, env):
                    return {"violated": False, "detail": f"raised {type(exc).__name__} as allowed"}
                return {"violated": True, "detail": f"raised {type(exc).__name__}({exc}) although not ({cond})",
                        "args": args}
        if any(m.split(".")[-1] in names for m in job.get("may_raise", [])):
            return {"violated": False, "detail": "raised an allowed exception"}
        return {"violated": True, "detail": f"unexpected exception {type(exc).__name__}: {exc}", "args": args}
    for cls, cond in raises.items():
        if cond is not None and eval(cond, env):
            return {"violated": True, "detail": f"returned {result!r} although ({cond}) demands {cls}", "args": args}
    for e in job.get("ensures", []):
        try:
            ok = eval(e, env)
        except Exception as ex:
            return {"violated": False, "detail": f"postcondition not evaluable natively: {e}: {ex!r}", "spurious": True}
        if not ok:
            return {"violated": True, "detail": f"postcondition false: {e}; result={result!r}", "args": args}
    return {"violated": False, "detail": f"contract holds natively; result={result!r}"}


SAMPLES = {
    "int": [-1, 0, 1, 2, 9, 25, 26, 27, 51, 52, 701, 702, 703, 18277, 18278, 65535, 1000000, -7],
    "nat": [0, 1, 2, 9, 25, 26, 27, 51, 52, 701, 702, 703, 18277, 99],
    "bool": [False, True],
    "str": ["", "A", "A1", "$A$1", "AA10", "ZZ99", "a1", "1", "$", "AAA1", "XFD1048576", "\u00e91", "A0", "Z", "AZ", "BA", "ZZZ", "$B", "A1:B2", " A1", "A-1", "$$A1"],
}


def grid_search(job, native):
    """a contract written over plain parameters, checked natively over a grid of sample arguments (used when the function can no
    longer be brought under its contract symbolically): parameters defined by a precondition `p == <expr>` are computed from it"""
    import itertools
    import random
    env0 = dict(BASE)
    env0.update(getattr(native, "NATIVE", {}))
    params, ghost = job["params"], job.get("ghost_kinds", {})
    defined = {}
    for r in job.get("requires", []):
        m = re.match(r"^(\w+) == (.+)$", r)
        if m and m.group(1) in params and params[m.group(1)] == "str":
            defined[m.group(1)] = m.group(2)
    free = [(n, k, False) for n, k in params.items() if n not in defined] + [(n, k, True) for n, k in ghost.items()]
    spaces = [SAMPLES.get(k if isinstance(k, str) else "int", [0, 1]) for _, k, _ in free]
    combos = list(itertools.product(*spaces)) if spaces else [()]
    if len(combos) > 4000:
        random.Random(5).shuffle(combos)
        combos = combos[:4000]
    tried = 0
    for combo in combos:
        args = {n: v for (n, _, g), v in zip(free, combo) if not g}
        gh = {n: v for (n, _, g), v in zip(free, combo) if g}
        env = dict(env0)
        env.update(gh)
        env.update(args)
        try:
            for n, expr in defined.items():
                args[n] = eval(expr, env)
                env[n] = args[n]
        except Exception:  # noqa: BLE001
            continue
        j = dict(job, args=args, ghost=gh)
        r = check_call(j, native)
        if r.get("spurious"):
            continue
        tried += 1
        if r.get("violated"):
            r["job"] = {k: v for k, v in j.items() if k not in ("grid", "params", "ghost_kinds")}
            r["tried"] = tried
            return r
    return {"violated": False, "tried": tried}


def main():
    job = json.load(sys.stdin)
    native = load_native(job.get("native_module"))
    try:
        if "custom" in job:
            res = getattr(native, job["custom"])(job)
        elif job.get("grid"):
            res = grid_search(job, native)
        elif "batch" in job:
            res = {"results": []}
            for j in job["batch"]:
                j.setdefault("native_module", job.get("native_module"))
                try:
                    res["results"].append(check_call(j, native))
                except Exception as e:  # noqa: BLE001
                    res["results"].append({"error": repr(e)})
        elif "calls" in job:
            # plain calls for the cross-check: return repr of result / exception class
            out = []
            fn = resolve(job["module"], job["path"])
            for a in job["calls"]:
                try:
                    out.append({"result": fn(**a)})
                except BaseException as e:  # noqa: BLE001
                    out.append({"exc": type(e).__name__})
            res = {"outs": out}
        else:
            res = check_call(job, native)
    except Exception as e:  # noqa: BLE001
        import traceback
        res = {"violated": False, "error": repr(e), "trace": traceback.format_exc()[-1500:]}
    print(json.dumps(res, default=repr))


if __name__ == "__main__":
    main()

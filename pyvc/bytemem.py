"""Typed-word memory for byte buffers that are only accessed through struct.pack/unpack of slices
(DESIGN section 7 C04).  A buffer is (ln, b8, w32, f64, d128): a length, individually addressed bytes, and
one array per word width keyed by *byte offset*.  Any access that is not a single byte or a whole packed
word raises Unsupported - the soundness condition of the encoding is enforced, not assumed."""
from __future__ import annotations

import z3

from .sym import (SInt, SFloat, SBool, PList, Unsupported, PyRaise, PathEnd, VExc, wrap, lift, as_int_term,
                  fresh_name, is_intlike, _Sliceable, Int, FloatS)

SIZES = {"<i": 4, "<I": 4, "<d": 8, "<H": 2, "<h": 2, "d128": 16}


class Packed:
    """Result of struct.pack(fmt, v) (or of _pack_decimal128): one typed word."""

    def __init__(self, fmt, value):
        self.fmt, self.value, self.size = fmt, value, SIZES[fmt]


class ZeroBytes:
    def __init__(self, n):
        self.n = n  # Int term


class MemView:
    def __init__(self, mem, lo, hi):
        self.mem, self.lo, self.hi = mem, lo, hi


class ByteMem(_Sliceable):
    def __init__(self, ln, b8=None, w32=None, f64=None, d128=None, tag="buf"):
        self.ln = ln
        A = z3.ArraySort
        self.b8 = b8 if b8 is not None else z3.Const(fresh_name(tag + "_b8"), A(Int, Int))
        self.w32 = w32 if w32 is not None else z3.Const(fresh_name(tag + "_w32"), A(Int, Int))
        self.f64 = f64 if f64 is not None else z3.Const(fresh_name(tag + "_f64"), A(Int, FloatS))
        self.d128 = d128 if d128 is not None else z3.Const(fresh_name(tag + "_d128"), A(Int, FloatS))
        self.known32 = {}  # concrete byte offset -> the exact term stored there (keeps bit-structured flag words)

    @staticmethod
    def zeros(n):
        return ByteMem(z3.IntVal(n) if isinstance(n, int) else n, b8=z3.K(Int, z3.IntVal(0)))

    def length(self, ex):
        return self.ln

    def index(self, ex, idx, line):
        i = as_int_term(idx)
        i = z3.simplify(i)
        if z3.is_int_value(i) and i.as_long() < 0:
            raise Unsupported("negative byte index")
        ex.safety(z3.And(i >= 0, i < self.ln), "IndexError", "byte-index-in-range", line)
        return wrap(z3.Select(self.b8, i))

    def slice(self, ex, lo, hi, line):
        if z3.is_int_value(lo) and lo.as_long() == 0:
            # prefix: a buffer of its own (Python clamps the upper bound)
            ex.safety(hi >= 0, "ValueError", "slice-upper-nonneg(negative wraps: unsupported)", line)
            m = ByteMem(z3.simplify(z3.If(hi < self.ln, hi, self.ln)), self.b8, self.w32, self.f64, self.d128)
            m.known32 = dict(self.known32)
            return m
        return MemView(self, lo, hi)

    def setitem(self, ex, idx, v, line):
        i = as_int_term(idx)
        ex.safety(z3.And(i >= 0, i < self.ln), "IndexError", "byte-index-in-range", line)
        t = as_int_term(v)
        ex.safety(z3.And(t >= 0, t <= 255), "ValueError", "byte-in-range", line)
        self.b8 = z3.Store(self.b8, i, t)

    def store_word(self, off, p):
        if p.fmt in ("<i", "<I"):
            self.w32 = z3.Store(self.w32, off, as_int_term(p.value))
            o = z3.simplify(off)
            if z3.is_int_value(o):
                self.known32[o.as_long()] = as_int_term(p.value)
            else:
                self.known32 = {}
        elif p.fmt == "<d":
            self.f64 = z3.Store(self.f64, off, lift(p.value))
        elif p.fmt == "d128":
            self.d128 = z3.Store(self.d128, off, lift(p.value))
        else:
            raise Unsupported(f"store of {p.fmt}")

    def append(self, ex, v, line):
        if isinstance(v, Packed):
            self.store_word(self.ln, v)
            self.ln = z3.simplify(self.ln + v.size)
        elif isinstance(v, bytes) and len(v) == 0:
            pass
        elif isinstance(v, ZeroBytes):
            ex.safety(v.n >= 0, "ValueError", "bytearray-size-nonneg", line)
            self.ln = z3.simplify(self.ln + v.n)
        elif v is None:
            ex.safety(False, "TypeError", "append-None", line)
        else:
            raise Unsupported(f"append of {type(v).__name__} to byte memory")

    def method(self, ex, name, args, kwargs, line):
        raise Unsupported(f"bytearray.{name}")


def set_slice(ex, mem, lo, hi, v, line):
    if not isinstance(v, Packed):
        raise Unsupported("slice assignment of a non-packed value")
    lo, hi = z3.simplify(lo), z3.simplify(hi)
    ex.safety(z3.And(hi - lo == v.size, hi <= mem.ln, lo >= 0), "ValueError", "slice-assign-same-size", line)
    mem.store_word(lo, v)


def struct_pack(ex, args, line):
    fmt, v = args[0], args[1]
    if len(args) != 2 or fmt not in SIZES:
        raise Unsupported(f"pack{fmt!r}")
    if fmt in ("<i",):
        if v is None:
            ex.safety(False, "struct.error", "pack-arg-int", line)
            raise PathEnd()
        v = ex.unopt(v, line, "pack-arg")
        t = as_int_term(v)
        ex.safety(z3.And(t >= -2 ** 31, t < 2 ** 31), "struct.error", "pack-int32-range", line)
    elif fmt == "<d":
        if not isinstance(v, (SFloat, float)):
            raise Unsupported("pack <d of non-float")
        if isinstance(v, float):
            raise Unsupported("pack <d of concrete float")
    return Packed(fmt, v)


def struct_unpack(ex, args, line):
    fmt, view = args
    if not isinstance(view, MemView) or fmt not in SIZES:
        raise Unsupported(f"unpack{fmt!r} of {type(view).__name__}")
    mem = view.mem
    size = SIZES[fmt]
    # the slice buffer[lo:hi] has been clamped by Python; unpack demands exactly `size` bytes
    ex.safety(z3.And(view.hi - view.lo == size, view.lo >= 0, view.hi <= mem.ln), "struct.error", f"unpack{size}-in-bounds", line)
    off = view.lo
    if fmt in ("<i", "<I"):
        o = z3.simplify(off)
        if z3.is_int_value(o) and o.as_long() in mem.known32:
            return (wrap(mem.known32[o.as_long()]),)
        return (wrap(z3.Select(mem.w32, off)),)
    if fmt == "<d":
        return (SFloat(z3.Select(mem.f64, off)),)
    if fmt in ("<H",):
        return (wrap(z3.Select(mem.b8, off) + 256 * z3.Select(mem.b8, off + 1)),)
    raise Unsupported(f"unpack {fmt}")

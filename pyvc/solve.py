"""Discharging obligations: SMT-LIB2 text, solved by z3 and cvc5 as sandboxed subprocesses."""
from __future__ import annotations

import concurrent.futures
import os
import re
import resource
import shutil
import subprocess
import tempfile
import time

import z3

Z3_BIN = shutil.which("z3-new") or shutil.which("z3")
CVC5_BIN = "/usr/bin/cvc5" if os.path.exists("/usr/bin/cvc5") else shutil.which("cvc5")
MEM_MB = 6000


class Result:
    def __init__(self, status, backend, secs, model=None, raw="", tried=None):
        self.status, self.backend, self.secs, self.model, self.raw = status, backend, secs, model, raw
        self.tried = tried or []

    def __repr__(self):
        return f"{self.status}/{self.backend}/{self.secs:.2f}s"


def to_smt2(assertions, want_model=True, logic="ALL"):
    s = z3.Solver()
    for a in assertions:
        s.add(a)
    text = s.to_smt2()
    text = text.replace("(check-sat)", "")
    head = f"(set-logic {logic})\n"
    tail = "(check-sat)\n" + ("(get-model)\n" if want_model else "")
    return head + text + tail


def _limits():
    resource.setrlimit(resource.RLIMIT_AS, (MEM_MB * 1024 * 1024, MEM_MB * 1024 * 1024))


def run_solver(cmd, text, timeout):
    t0 = time.time()
    try:
        p = subprocess.run(cmd, input=text, capture_output=True, text=True, timeout=timeout + 5, preexec_fn=_limits)
        out = p.stdout.strip()
        err = p.stderr.strip()
    except subprocess.TimeoutExpired:
        return "timeout", "", time.time() - t0
    first = out.split("\n", 1)[0].strip() if out else ""
    if first in ("sat", "unsat", "unknown"):
        return first, out, time.time() - t0
    if "timeout" in out or "timeout" in err or "interrupted" in err:
        return "timeout", out + err, time.time() - t0
    return "error", (out + "\n" + err)[:2000], time.time() - t0


def solve_text(text, timeout=10, order=("z3", "cvc5"), both=False, seeds=(7, 23)):
    tried = []
    final = None
    for be in order:
        if be == "z3":
            cmd = [Z3_BIN, f"-T:{int(timeout)}", f"-memory:{MEM_MB}", "-in"]
            t = text
        else:
            cmd = [CVC5_BIN, "--strings-exp", f"--tlimit={int(timeout * 1000)}", "--produce-models", "--lang=smt2", "-"]
            t = text
        st, out, secs = run_solver(cmd, t, timeout)
        tried.append((be, st, round(secs, 3)))
        if st in ("sat", "unsat"):
            r = Result(st, be, secs, parse_model(out) if st == "sat" else None, out[:4000], tried)
            if not both:
                return r
            if final is None:
                final = r
            elif final.status != st:
                return Result("disagree", f"{final.backend}:{final.status}/{be}:{st}", secs, None, out[:2000], tried)
    if final is not None:
        final.tried = tried
        return final
    # undecided: retry z3 with other random seeds (same budget) before giving up - verdicts must not flip on
    # incidental search order
    if "z3" in order:
        for seed in seeds:
            cmd = [Z3_BIN, f"-T:{int(timeout)}", f"-memory:{MEM_MB}", f"smt.random_seed={seed}", f"sat.random_seed={seed}", "-in"]
            st, out, secs = run_solver(cmd, text, timeout)
            tried.append((f"z3/seed{seed}", st, round(secs, 3)))
            if st in ("sat", "unsat"):
                return Result(st, "z3", secs, parse_model(out) if st == "sat" else None, out[:4000], tried)
    return Result("unknown", "-", sum(x[2] for x in tried), None, "", tried)


def solve_obligation(ob, timeout=10, both=False, order=("z3", "cvc5")):
    f = ob.formula()
    if ob.expect == "unsat":
        g = z3.simplify(ob.goal)
        if z3.is_true(g):
            return Result("unsat", "trivial", 0.0)
    text = to_smt2(f)
    return solve_text(text, timeout, order, both)


def solve_all(obls, timeout=10, both=False, workers=None, order=("z3", "cvc5")):
    workers = workers or min(16, os.cpu_count() or 4)
    texts = []
    for ob in obls:
        if ob.expect == "unsat" and z3.is_true(z3.simplify(ob.goal)):
            texts.append(None)
        else:
            texts.append(to_smt2(ob.formula()))
    results = [None] * len(obls)

    def job(i):
        if texts[i] is None:
            return i, Result("unsat", "trivial", 0.0)
        return i, solve_text(texts[i], timeout, order, both)

    with concurrent.futures.ThreadPoolExecutor(max_workers=workers) as pool:
        for i, r in pool.map(job, range(len(obls))):
            results[i] = r
    return results


# ---------------------------------------------------------------- models

_tok = re.compile(r'"(?:[^"]|"")*"|[()]|[^\s()]+')


def _sexprs(text):
    toks = _tok.findall(text)
    pos = 0

    def rd():
        nonlocal pos
        t = toks[pos]
        pos += 1
        if t == "(":
            out = []
            while toks[pos] != ")":
                out.append(rd())
            pos += 1
            return out
        return t

    out = []
    while pos < len(toks):
        try:
            out.append(rd())
        except IndexError:
            break
    return out


def _unescape(s):
    s = s[1:-1].replace('""', '"')

    def rep(m):
        return chr(int(m.group(1), 16))

    s = re.sub(r"\\u\{([0-9a-fA-F]+)\}", rep, s)
    s = re.sub(r"\\u([0-9a-fA-F]{4})", rep, s)
    s = re.sub(r"\\x([0-9a-fA-F]{2})", rep, s)
    return s


def _val(v):
    if isinstance(v, str):
        if v.startswith('"'):
            return _unescape(v)
        if v in ("true", "false"):
            return v == "true"
        try:
            return int(v)
        except ValueError:
            return v
    if isinstance(v, list) and len(v) == 2 and v[0] == "-":
        x = _val(v[1])
        return -x if isinstance(x, int) else v
    return v


def parse_model(out):
    body = out.split("\n", 1)[1] if "\n" in out else ""
    model = {}
    try:
        for top in _sexprs(body):
            items = top if isinstance(top, list) else []
            if items and items[0] == "model":
                items = items[1:]
            for it in items:
                if isinstance(it, list) and len(it) >= 5 and it[0] == "define-fun" and it[2] == []:
                    model[it[1].strip("|")] = _val(it[4])
    except Exception:
        pass
    return model

"""Driver: ./check <Cxx> --tier quick|thorough  ->  generate VCs from /repo's current source, discharge them,
replay counter-models natively, write evidence, print VIOLATION / KNOWN-FINDING lines, set the exit code.

exit 0: every obligation discharged (or matched by a listed known finding); 1: violation; 2: undecided;
3: checker error.
"""
from __future__ import annotations

import argparse
import importlib
import json
import os
import subprocess
import sys
import time
import traceback

import z3

HERE = os.path.dirname(os.path.dirname(os.path.abspath(__file__)))
sys.path.insert(0, HERE)

from pyvc import extract, solve  # noqa: E402
from pyvc.sym import Executor, Unsupported, Obligation, SInt, SBool, SStr, SOpt, PList, SFloat  # noqa: E402
from pyvc.ctx import AnchorLost  # noqa: E402

NATIVE_PY = "/venv/bin/python"
EVID = os.path.join(HERE, "evidence")
REPLAYS = os.path.join(HERE, "replays")
LEDGER = os.path.join(HERE, "baseline", "obligations.json")
KNOWN = os.path.join(HERE, "known_findings.json")


class FnReport:
    def __init__(self, c):
        self.c = c
        self.key = c.key
        self.status = "ok"
        self.detail = ""
        self.obls = []
        self.paths = 0
        self.info = None
        self.inlined = []
        self.used = []
        self.notes = []
        self.exits = {}


def gen_function(ctx, c, case=None):
    """Generate the obligations of one target contract (optionally restricted to one case of a split)."""
    rep = FnReport(c)
    import itertools
    from pyvc import sym as _sym
    _sym._fresh = itertools.count()  # names depend on the function only: the VC text is a function of the source
    try:
        finfo = extract.find_function(c.qual)
        c.finfo = finfo
        rep.info = finfo.describe()
        cc = c
        if case is not None:
            import copy
            cc = copy.copy(c)
            cc.requires = list(c.requires) + [case]
            cc._loop_index = None
        ex = Executor(ctx, finfo, cc)
        obls = ex.run()
        rep.paths = ex.paths
        rep.inlined = sorted(ex.inlined)
        rep.used = sorted(ex.used_contracts)
        rep.notes = sorted(ex.notes)
        rep.exits = ex.exits
        for ob in obls:
            ob.fn = c.key + (f"{{{case}}}" if case else "")
            ob.contract = c
        rep.obls = obls
    except (Unsupported, AnchorLost, extract.ExtractError) as e:
        rep.status = "unsupported"
        rep.detail = f"{type(e).__name__}: {e}"
    except RecursionError as e:
        rep.status = "unsupported"
        rep.detail = f"RecursionError: {e}"
    except (z3.Z3Exception, KeyError, AttributeError, TypeError, IndexError) as e:
        # a contract clause no longer fits the shape of the values the code produces (e.g. an int where the
        # contract speaks of a float): the function cannot be brought under its contract on this tree
        import traceback
        tb = traceback.extract_tb(e.__traceback__)[-1]
        rep.status = "unsupported"
        rep.detail = f"contract does not fit the code's values: {type(e).__name__}: {e} ({os.path.basename(tb.filename)}:{tb.lineno})"
    return rep


def group_name(ob):
    return f"{ob.fn}/{ob.name}"


def lkey(name):
    """Ledger key: obligation group name with source line numbers removed (robust to shifted lines)."""
    import re
    return re.sub(r"L\d+", "L", name)


def load_json(p, default):
    try:
        with open(p) as f:
            return json.load(f)
    except FileNotFoundError:
        return default


def model_inputs(ob, model):
    """Concrete argument values from a counter-model, via the entry-environment symbols."""
    ins = ob.extra.get("inputs") or {}
    out = {}
    for name, v in ins.items():
        out[name] = value_from_model(v, model)
    return out


def eval_term(t, model):
    """Substitute the model's values for the free constants of t (ints, bools, strings)."""
    subs = []
    seen = set()

    def walk(e):
        if e.get_id() in seen:
            return
        seen.add(e.get_id())
        if z3.is_const(e) and e.decl().kind() == z3.Z3_OP_UNINTERPRETED:
            nm = e.decl().name()
            val = model.get(nm)
            if val is None:
                val = 0 if z3.is_int(e) else False if z3.is_bool(e) else "" if z3.is_string(e) else None
            if isinstance(val, bool) and z3.is_bool(e):
                subs.append((e, z3.BoolVal(val)))
            elif isinstance(val, int) and not isinstance(val, bool) and z3.is_int(e):
                subs.append((e, z3.IntVal(val)))
            elif isinstance(val, str) and z3.is_string(e):
                subs.append((e, z3.StringVal(val)))
            return
        for ch in e.children():
            walk(ch)

    try:
        walk(t)
        return z3.substitute(t, *subs) if subs else t
    except Exception:
        return t


def value_from_model(v, model):
    def const(t):
        t = z3.simplify(eval_term(t, model))
        if z3.is_int_value(t):
            return t.as_long()
        if z3.is_true(t):
            return True
        if z3.is_false(t):
            return False
        if z3.is_string_value(t):
            return solve._unescape('"' + t.as_string().replace('"', '""') + '"')
        nm = t.decl().name() if t.num_args() == 0 else None
        if nm is not None and nm in model:
            return model[nm]
        if nm is not None:
            # unconstrained in the model: any value works
            if z3.is_int(t):
                return 0
            if z3.is_bool(t):
                return False
            if z3.is_string(t):
                return ""
        return {"term": str(t)}

    if isinstance(v, (SInt, SBool, SStr)):
        return const(v.t)
    if isinstance(v, SOpt):
        isn = const(v.isnone)
        return None if isn is True else value_from_model(v.val, model)
    if isinstance(v, (int, str, bool)) or v is None:
        return v
    if isinstance(v, tuple):
        return [value_from_model(x, model) for x in v]
    if isinstance(v, PList):
        return [value_from_model(x, model) for x in v.items]
    return {"unsupported": type(v).__name__}


def native_call(job, timeout=600):
    p = subprocess.run([NATIVE_PY, os.path.join(HERE, "pyvc", "native_replay.py")], input=json.dumps(job, default=str),
                       capture_output=True, text=True, timeout=timeout,
                       env={**os.environ, "PYTHONPATH": os.path.join(extract.REPO, "src")})
    try:
        return json.loads(p.stdout.strip().splitlines()[-1])
    except Exception:
        return {"error": (p.stdout + p.stderr)[-2000:]}


def default_job(plan, c, inputs):
    mod, _, path = c.qual.partition(":")
    params = [p for p in c.finfo.params]
    return {
        "module": f"numbers_parser.{mod}", "path": path, "args": {p: inputs.get(p) for p in params if p in inputs},
        "ghost": {g: inputs.get(g) for g in c.ghost_params}, "native_module": plan.native_module,
        "requires": [r for r in c.requires if isinstance(r, str)],
        "ensures": [e for e in c.ensures if isinstance(e, str)],
        "raises": {k: v for k, v in c.raises.items() if v is None or isinstance(v, str)},
        "unevaluable": [getattr(e, "__name__", "fn") for e in list(c.ensures) + list(c.raises.values()) if callable(e)],
        "may_raise": list(c.may_raise),
    }


def main(argv=None):
    ap = argparse.ArgumentParser()
    ap.add_argument("prop")
    ap.add_argument("--tier", default=os.environ.get("VERIF_TIER", "quick"))
    ap.add_argument("--replay")
    ap.add_argument("--write-ledger", action="store_true")
    ap.add_argument("--only")
    ap.add_argument("--verbose", "-v", action="store_true")
    ap.add_argument("--no-bounded", action="store_true")
    args = ap.parse_args(argv)
    seed = int(os.environ.get("VERIF_SEED", "0") or 0)
    prop = args.prop
    t0 = time.time()
    try:
        if args.replay:
            return do_replay(prop, args.replay)
        return run_check(prop, args.tier, seed, args, t0)
    except SystemExit:
        raise
    except Exception:
        traceback.print_exc()
        print(f"CHECKER-ERROR property={prop}")
        return 3


def do_replay(prop, path):
    with open(path) as f:
        r = json.load(f)
    print(json.dumps(r.get("obligation"), indent=1))
    if r.get("bounded_script"):
        cmd = [NATIVE_PY, os.path.join(HERE, "bounded", r["bounded_script"])] + r.get("bounded_args", [])
        p = subprocess.run(cmd, capture_output=True, text=True, timeout=900,
                           env={**os.environ, "PYTHONPATH": os.path.join(extract.REPO, "src") + ":" + HERE,
                                "BOUNDED_CASE": json.dumps(r["failure"]["case"])})
        res = json.loads(p.stdout.strip().splitlines()[-1])
        print("bounded replay:", json.dumps(res.get("failures"))[:1500])
        return 1 if res.get("n_failures") else 0
    job = r.get("native_job")
    if job:
        res = native_call(job)
        print("native replay:", json.dumps(res))
        return 1 if res.get("violated") else 0
    print("no native job recorded (no-failing-input-found)")
    return 1


def run_check(prop, tier, seed, args, t0):
    mod = importlib.import_module(f"contracts.{prop}")
    plan = mod.build()
    ctx = plan.ctx
    thorough = tier == "thorough"
    budget = 60 if thorough else 30
    reports = []
    obls = []
    for c in plan.targets:
        if args.only and args.only not in c.key:
            continue
        cases = c.split_cases or [None]
        for case in cases:
            rep = gen_function(getattr(c, "ctx", None) or ctx, c, case)
            reports.append(rep)
            obls.extend(rep.obls)
    for lem in plan.lemmas:
        if args.only and args.only not in ("lemma:" + lem.name):
            continue
        if not lem.assumed:
            obls.extend(lem.obligations(prop))
    for extra in plan.extra_obligations:
        try:
            obls.extend(extra(plan))
        except (Unsupported, extract.ExtractError, AnchorLost) as e:
            # the code no longer has the shape these obligations are read from: same treatment as a function that cannot be generated
            c_ = getattr(extra, "contract", None)
            if c_ is None:
                raise
            rep = FnReport(c_)
            rep.status, rep.detail = "unsupported", f"{type(e).__name__}: {e}"
            reports.append(rep)
    gen_s = time.time() - t0
    # ---- solve
    ts = time.time()
    results = solve_many(obls, budget, thorough)
    solve_wall = time.time() - ts
    # ---- classify
    groups = {}
    for ob, r in zip(obls, results):
        g = groups.setdefault(group_name(ob), {"obls": [], "kind": ob.kind, "expect": ob.expect})
        g["obls"].append((ob, r))
    ledger = load_json(LEDGER, {}).get(prop, {})
    ledger_set = {lkey(g) for g in ledger.get("discharged", [])}
    known = [k for k in load_json(KNOWN, {"findings": []})["findings"] if k["property"] == prop]
    n_obl = n_dis = 0
    by_backend = {}
    solver_time = 0.0
    violations, undecided, known_hits, errors = [], [], [], []
    samples = []
    canary_ok = {}
    for gname, g in sorted(groups.items()):
        if g["expect"] == "sat":
            # cover / canary: at least one instance must be satisfiable
            ok = any(r.status == "sat" for _, r in g["obls"])
            canary_ok[gname] = ok
            if not ok:
                errors.append(f"vacuity guard failed: {gname} (expected a satisfiable instance, got "
                              f"{[r.status for _, r in g['obls']]})")
            continue
        for ob, r in g["obls"]:
            n_obl += 1
            solver_time += r.secs
            if r.status == "unsat":
                n_dis += 1
                by_backend[r.backend] = by_backend.get(r.backend, 0) + 1
            elif r.status == "sat":
                v = handle_refutation(plan, prop, ob, r, known)
                (known_hits if v["class"] == "known" else violations if v["class"] in ("violation", "nofail") else undecided).append(v)
            elif r.status == "disagree":
                errors.append(f"solvers disagree on {gname}: {r.backend}")
            else:
                undecided.append({"class": "undecided", "obligation": gname, "tried": r.tried})
        if len(samples) < 12:
            ob, r = g["obls"][0]
            samples.append({"obligation": gname, "kind": g["kind"], "instances": len(g["obls"]), "verdict": r.status,
                            "backend": r.backend, "secs": round(r.secs, 3)})
    # functions that could not be brought under contract on this tree
    undecided_final = []
    for rep in reports:
        if rep.status != "ok":
            lost = [g for g in ledger_set if g.startswith(rep.key + "/") or g.startswith(rep.key + "{")]
            if lost:
                note = f"{len(lost)} obligations discharged on the baseline can no longer be generated: {rep.detail}"
                u = {"class": "undecided", "obligation": f"{rep.key}/<generation>", "tried": [],
                     "payload": {"property": prop, "obligation": {"name": f"{rep.key}/<generation>"}, "verifier_output": rep.detail, "note": note}}
                nv = try_native_search(plan, prop, u, known)
                (known_hits if nv["class"] == "known" else violations if nv["class"] in ("violation", "nofail") else undecided_final).append(nv)
            else:
                errors.append(f"{rep.key}: {rep.detail}")
    # undecided obligations that were discharged on the baseline -> violation without input
    still_undecided = []
    for u in undecided:
        if lkey(u["obligation"]) in ledger_set:
            nv = try_native_search(plan, prop, u)
            violations.append(nv)
        else:
            still_undecided.append(u)
    undecided = still_undecided + undecided_final
    # obligations in the ledger that vanished altogether (e.g. a raise statement removed)
    # are not a violation by themselves: fewer exits means fewer obligations.
    # ---- ground checks and bounded stand-ins
    ground_results = []
    for name, fn in plan.ground:
        ok, detail, count = fn()
        ground_results.append({"name": name, "ok": ok, "cases": count, "detail": detail})
        n_obl += 1
        if ok:
            n_dis += 1
            by_backend["ground"] = by_backend.get("ground", 0) + 1
        else:
            violations.append(ground_violation(prop, name, detail, known))
    probe_results = []
    for name, fn in plan.probes:
        ok, detail, count = fn()
        probe_results.append({"assumption": name, "ok": ok, "cases": count, "detail": detail, "label": "bounded probe of an assumption"})
        if not ok:
            errors.append(f"assumption probe failed: {name}: {detail}")
    violations = [v for v in violations if v is not None]
    known_hits += [v for v in violations if v["class"] == "known"]
    violations = [v for v in violations if v["class"] != "known"]
    bounded_results = []
    if not args.no_bounded:
        for b in plan.bounded:
            br = run_bounded(plan, prop, b, thorough, seed, known)
            bounded_results.append(br["summary"])
            violations += br["violations"]
            known_hits += br["known"]
            if br.get("error"):
                errors.append(br["error"])
    cross = run_crosscheck(plan, reports, thorough, seed)
    if cross.get("errors"):
        errors += cross["errors"]
    wall = time.time() - t0
    # ---- report
    for k in known_hits:
        print(f"KNOWN-FINDING: property={prop} {k['what']}")
    seen_r = set()
    uniq = []
    for v in violations:
        if v["replay"] not in seen_r:
            seen_r.add(v["replay"])
            uniq.append(v)
    violations = uniq
    for v in violations:
        tail = " no-failing-input-found" if v["class"] == "nofail" else ""
        print(f"VIOLATION property={prop} replay={v['replay']}{tail}")
    for u in undecided:
        print(f"UNDECIDED property={prop} obligation={u['obligation']} tried={u.get('tried')}")
    for e in errors:
        print(f"CHECKER-ERROR property={prop} {e}")
    fns = []
    for rep in reports:
        d = dict(rep.info or {"name": rep.key})
        d.update({"contract": rep.key, "status": rep.status, "paths": rep.paths, "obligations": len(rep.obls),
                  "inlined_callees": rep.inlined, "callee_contracts_used": rep.used, "notes": rep.notes,
                  "exits": rep.exits})
        if rep.detail:
            d["detail"] = rep.detail
        if rep.c.assumed:
            d["assumed"] = True
        fns.append(d)
    level = getattr(plan, "level", "proof")
    ev = {
        "property_id": prop, "tier": tier, "seed": seed, "level": level,
        "coverage": {
            "obligations": n_obl, "discharged": n_dis,
            "checker_cmd": f"./check {prop} --tier {tier}",
            "trusted_base": plan.trusted,
            "explanation": getattr(plan, "explanation", ""),
            "obligation_groups": len([g for g in groups.values() if g["expect"] == "unsat"]),
            "by_backend": by_backend, "solver_time_s": round(solver_time, 2), "solve_wall_s": round(solve_wall, 2),
            "vcgen_s": round(gen_s, 2),
            "functions_under_contract": fns,
            "lemmas": [{"name": l.name, "statement": l.statement, "assumed": l.assumed} for l in plan.lemmas],
            "vacuity_guards": canary_ok,
            "ground_checks": ground_results,
            "assumption_probes": probe_results,
            "bounded_standins": bounded_results,
            "crosscheck": cross.get("summary"),
            "undecided": [u["obligation"] for u in undecided],
            "known_findings": [k["what"] for k in known_hits],
            "samples": samples,
            "evaluations": sum(b.get("evaluations", 0) for b in bounded_results) + cross.get("evaluations", 0),
            "distinct_nontrivial": sum(b.get("distinct_nontrivial", 0) for b in bounded_results) + cross.get("distinct", 0),
            "rule": "evaluations = native executions by bounded stand-ins and the CPython cross-check of the "
                    "translator; obligations/discharged count solver queries (VC instances) and complete ground checks",
            "source_blobs": {m: extract.git_blob(m) for m in sorted({(r.info or {}).get('file', '').split('/')[-1][:-3] for r in reports if r.info})},
        },
        "assumptions": plan.assumptions + [f"assumed contract: {c.qual} - {c.note}" for c in ctx.contracts.values() if c.assumed]
        + [f"assumed lemma: {l.name}" for l in plan.lemmas if l.assumed],
        "wall_s": round(wall, 2),
        "violations": len(violations),
    }
    os.makedirs(EVID, exist_ok=True)
    with open(os.path.join(EVID, f"{prop}.json"), "w") as f:
        json.dump(ev, f, indent=1, default=str)
    print(f"{prop} [{tier}] obligations={n_obl} discharged={n_dis} groups={ev['coverage']['obligation_groups']} "
          f"violations={len(violations)} known={len(known_hits)} undecided={len(undecided)} errors={len(errors)} "
          f"wall={wall:.1f}s")
    if args.verbose:
        for gname, g in sorted(groups.items()):
            print("  ", gname, [(r.status, r.backend, round(r.secs, 2)) for _, r in g["obls"]][:6])
        for rep in reports:
            print("  fn", rep.key, rep.status, rep.detail, "paths", rep.paths, "obls", len(rep.obls))
    if args.write_ledger:
        if violations or undecided or errors:
            print("ledger NOT written: run is not clean")
        else:
            led = load_json(LEDGER, {})
            led[prop] = {"discharged": sorted(g for g, v in groups.items() if v["expect"] == "unsat"
                                              and all(r.status == "unsat" for _, r in v["obls"]))}
            os.makedirs(os.path.dirname(LEDGER), exist_ok=True)
            with open(LEDGER, "w") as f:
                json.dump(led, f, indent=1, sort_keys=True)
            print(f"ledger written: {len(led[prop]['discharged'])} groups")
    if violations:
        return 1  # a replayed or refuted obligation stands whatever else went wrong in the run
    if errors:
        return 3
    if undecided:
        return 2
    return 0


def solve_many(obls, budget, thorough):
    import concurrent.futures
    texts = []
    for ob in obls:
        if ob.expect == "unsat" and z3.is_true(z3.simplify(ob.goal)):
            texts.append(None)
        else:
            texts.append(solve.to_smt2(ob.formula()))
    out = [None] * len(obls)

    def job(i):
        if texts[i] is None:
            return i, solve.Result("unsat", "trivial", 0.0)
        ob = obls[i]
        order = getattr(ob, "order", None) or getattr(getattr(ob, "contract", None), "order", None) or ("z3", "cvc5")
        to = getattr(ob, "timeout", None) or getattr(getattr(ob, "contract", None), "timeout", None) or budget
        both = thorough and ob.expect == "unsat" and len(order) > 1
        if ob.expect == "sat" and i not in second_pass:
            to = min(to, 8)  # vacuity guards: one satisfiable instance per group is enough; the full budget only if none is found
        return i, solve.solve_text(texts[i], to, order, both)

    second_pass = set()
    with concurrent.futures.ThreadPoolExecutor(max_workers=min(16, os.cpu_count() or 4)) as pool:
        for i, r in pool.map(job, range(len(obls))):
            out[i] = r
        sat_groups = {}
        for i, ob in enumerate(obls):
            if ob.expect == "sat":
                sat_groups.setdefault(group_name(ob), []).append(i)
        redo = [i for g, idxs in sat_groups.items() if not any(out[i].status == "sat" for i in idxs) for i in idxs]
        second_pass.update(redo)
        for i, r in pool.map(job, redo):
            out[i] = r
    # load robustness: the solvers' budgets are wall-clock; on a busy machine an obligation that normally takes a second can run out of
    # time.  Obligations left without a verdict are solved again, few at a time, with several times the budget, before anything is
    # concluded from them (a timeout is never a refutation).
    late = [i for i, ob in enumerate(obls) if ob.expect == "unsat" and texts[i] is not None and out[i].status not in ("unsat", "sat", "disagree")]
    if late and len(late) <= 24:
        def job2(i):
            ob = obls[i]
            order = getattr(ob, "order", None) or getattr(getattr(ob, "contract", None), "order", None) or ("z3", "cvc5")
            to = (getattr(ob, "timeout", None) or getattr(getattr(ob, "contract", None), "timeout", None) or budget) * 5
            r = solve.solve_text(texts[i], to, order, False, seeds=())
            r.tried = list(out[i].tried) + [("retry-x5",) + tuple(t) for t in r.tried]
            return i, r
        with concurrent.futures.ThreadPoolExecutor(max_workers=4) as pool2:
            for i, r in pool2.map(job2, late):
                out[i] = r
    dump = os.environ.get("PYVC_DUMP")
    if dump:
        os.makedirs(dump, exist_ok=True)
        for i, (ob, r) in enumerate(zip(obls, out)):
            if texts[i] is not None and ((ob.expect == "unsat" and r.status != "unsat") or os.environ.get("PYVC_DUMP_ALL")):
                safe = "".join(ch if ch.isalnum() or ch in "-_." else "_" for ch in group_name(ob))[:120]
                with open(os.path.join(dump, f"{i:04d}_{safe}_{r.status}.smt2"), "w") as f:
                    f.write(texts[i])
    return out


def write_replay(prop, name, payload):
    d = os.path.join(REPLAYS, prop)
    os.makedirs(d, exist_ok=True)
    safe = "".join(ch if ch.isalnum() or ch in "-_." else "_" for ch in name)[:150]
    p = os.path.join(d, safe + ".json")
    with open(p, "w") as f:
        json.dump(payload, f, indent=1, default=str)
    return p


def match_known(known, obligation, witness_text):
    for k in known:
        if k.get("status", "open") != "open":
            continue
        if k["obligation"] in obligation and all(w in witness_text for w in k.get("witness_contains", [])):
            return k
    return None


def handle_refutation(plan, prop, ob, r, known):
    gname = group_name(ob)
    c = getattr(ob, "contract", None)
    payload = {"property": prop, "obligation": {"name": gname, "kind": ob.kind, "line": ob.line, "extra": {k: v for k, v in ob.extra.items() if k != "inputs"}},
               "solver": {"status": r.status, "backend": r.backend, "secs": r.secs, "tried": r.tried, "model": r.model}}
    if c is None:
        # a lemma was refuted: spec-level problem, never a code violation
        payload["note"] = "lemma refuted"
        p = write_replay(prop, gname, payload)
        return {"class": "undecided", "obligation": gname, "replay": p, "tried": r.tried}
    inputs = model_inputs(ob, r.model or {})
    payload["inputs"] = inputs
    job = None
    res = None
    if c.replay is not None:
        job = c.replay(getattr(c, "home", plan), c, inputs, ob)
    elif not any(callable(e) for e in list(c.ensures) + list(c.raises.values()) + list(c.requires)) and c.entry is None:
        job = default_job(plan, c, inputs)
    if job is not None:
        res = native_call(job)
        payload["native_job"] = job
        payload["native_result"] = res
    if res and res.get("violated"):
        wt = json.dumps({"inputs": inputs, "detail": res.get("detail")}, default=str)
        k = match_known(known, gname, wt)
        p = write_replay(prop, gname, payload)
        if k:
            return {"class": "known", "what": f"{k['id']}: {k['what']} [{gname}]", "replay": p}
        return {"class": "violation", "obligation": gname, "replay": p}
    # not reproduced: try the contract's native search
    u = {"class": "undecided", "obligation": gname, "tried": r.tried, "payload": payload}
    return try_native_search(plan, prop, u, known, refuted=True)


def try_native_search(plan, prop, u, known=(), refuted=False):
    gname = u["obligation"]
    payload = u.get("payload") or {"property": prop, "obligation": {"name": gname}, "solver": {"tried": u.get("tried")}}
    fnkey = gname.split("/")[0].split("{")[0]
    c = plan.ctx.contracts.get(fnkey) or next((t for t in plan.targets if t.key == fnkey), None)
    if c is None:  # labels may contain '/': the contract whose key is the longest prefix of the obligation's name
        cands = [t for t in plan.targets if gname.startswith(t.key + "/") or gname.startswith(t.key + "{")]
        c = max(cands, key=lambda t: len(t.key)) if cands else None
    job = None
    if c is not None and c.search is not None:
        job = c.search(getattr(c, "home", plan), c)
    elif c is not None and c.entry is None and c.params and all(isinstance(k, str) for k in c.params.values()) and \
            not any(callable(e) for e in list(c.ensures) + list(c.raises.values()) + list(c.requires)):
        # a contract over plain parameters: its clauses are evaluated natively over a grid of sample arguments
        job = default_job(getattr(c, "home", plan), c, {})
        job.update({"grid": True, "params": dict(c.params), "ghost_kinds": {g: k for g, k in c.ghost_params.items() if isinstance(k, str)}})
    if job is not None:
        res = native_call(job, timeout=600)
        payload["native_search"] = {"job": {k: v for k, v in job.items() if k != "inputs"}, "result": res}
        if res.get("violated"):
            payload["native_job"] = res.get("job")
            wt = json.dumps(res, default=str)
            k = match_known(known, gname, wt)
            p = write_replay(prop, gname, payload)
            if k:
                return {"class": "known", "what": f"{k['id']}: {k['what']} [{gname}]", "replay": p}
            return {"class": "violation", "obligation": gname, "replay": p}
    ledger = load_json(LEDGER, {}).get(prop, {})
    k = match_known(known, gname, "no-failing-input-found")
    if k:
        p = write_replay(prop, gname, payload)
        return {"class": "known", "what": f"{k['id']}: {k['what']} [{gname}]", "replay": p}
    if gname.endswith("/<generation>"):
        # the function has left the verifier's subset (or no longer has the shape its contract speaks about) and no failing input was
        # found natively: this is "cannot decide", not a refuted obligation - a harmless rewrite must not raise an alarm
        p = write_replay(prop, gname, payload)
        return {"class": "undecided", "obligation": gname, "replay": p, "tried": [("generation", payload.get("verifier_output", "")[:160])]}
    if lkey(gname) in {lkey(g) for g in ledger.get("discharged", [])}:
        payload["note"] = "obligation was discharged on the baseline tree and now fails; no failing input found"
        p = write_replay(prop, gname, payload)
        return {"class": "nofail", "obligation": gname, "replay": p}
    return {"class": "undecided", "obligation": gname, "tried": u.get("tried")}


def no_input_violation(prop, name, detail, note):
    p = write_replay(prop, name, {"property": prop, "obligation": {"name": name}, "verifier_output": detail, "note": note})
    return {"class": "nofail", "obligation": name, "replay": p}


def ground_violation(prop, name, detail, known):
    wt = json.dumps(detail, default=str)
    k = match_known(known, "ground:" + name, wt)
    p = write_replay(prop, "ground_" + name, {"property": prop, "obligation": {"name": "ground:" + name}, "detail": detail})
    if k:
        return {"class": "known", "what": f"{k['id']}: {k['what']} [ground:{name}]", "replay": p}
    return {"class": "violation", "obligation": "ground:" + name, "replay": p}


def run_bounded(plan, prop, b, thorough, seed, known):
    args = b.thorough_args if thorough else b.args
    cmd = [NATIVE_PY, os.path.join(HERE, "bounded", b.script)] + [str(a) for a in args] + ["--seed", str(seed)]
    t0 = time.time()
    out = {"summary": {"name": b.name, "bound": b.bound, "functions": b.functions, "label": "bounded (never counted as proved)"},
           "violations": [], "known": []}
    try:
        p = subprocess.run(cmd, capture_output=True, text=True, timeout=b.timeout,
                           env={**os.environ, "PYTHONPATH": os.path.join(extract.REPO, "src") + ":" + HERE})
        res = json.loads(p.stdout.strip().splitlines()[-1])
    except Exception as e:
        out["error"] = f"bounded stand-in {b.name} crashed: {type(e).__name__}: {str(e)[:300]} {locals().get('p') and (p.stdout[-600:] + p.stderr[-1500:])}"
        return out
    out["summary"].update({"failures": res.get("n_failures", 0), "evaluations": res.get("evaluations", 0), "distinct_nontrivial": res.get("distinct_nontrivial", 0),
                           "secs": round(time.time() - t0, 1), "samples": res.get("samples", [])[:3]})
    for f in res.get("failures", []):
        wt = json.dumps(f, default=str)
        if len(out["violations"]) >= 3 and match_known(known, "bounded:" + b.name, wt) is None:
            continue  # enough distinct violations reported for this stand-in
        k = match_known(known, "bounded:" + b.name, wt)
        pth = write_replay(prop, f"bounded_{b.name}_{f.get('id', len(out['violations']))}",
                           {"property": prop, "obligation": {"name": "bounded:" + b.name}, "failure": f,
                            "bounded_script": b.script, "bounded_args": [str(a) for a in args]})
        if k:
            what = f"{k['id']}: {k['what']} [bounded:{b.name}]"
            if not any(x["what"] == what for x in out["known"]):
                out["known"].append({"class": "known", "what": what, "replay": pth})
        else:
            out["violations"].append({"class": "violation", "obligation": "bounded:" + b.name, "replay": pth})
    return out


def run_crosscheck(plan, reports, thorough, seed):
    """CPython cross-check of the translator: concrete inputs through the real function natively and through
    the symbolic semantics; results must agree (a disagreement is a checker error, never a verdict)."""
    from pyvc import crosscheck
    try:
        return crosscheck.run(plan, reports, 200 if thorough else 40, seed)
    except Exception as e:  # pragma: no cover
        return {"errors": [f"cross-check crashed: {type(e).__name__}: {e}"], "summary": None}


if __name__ == "__main__":
    sys.exit(main())

"""State cloning and if-join merging for the symbolic executor.

Joins are merged algebraically: when both branch values are base+k1 / base+k2 the merged
value is base + ite(c,k1,k2) (see DESIGN section 2.2 - this is what keeps the C04 decoder VCs
linear instead of a 2^18-path product).
"""
from __future__ import annotations

import z3

from .sym import (SInt, SBool, SStr, SFloat, SOpt, PList, SList, PDict, PObj, SRef, Unsupported, Restart, lift, wrap,
                  is_intlike, as_int_term, Func, Builtin, ClassRef)
from .bytemem import ByteMem
from .grid import SGrid


def clone_state(root):
    memo = {}

    def cl(v):
        if isinstance(v, (PList, PDict, PObj, SList, ByteMem, SGrid)) or (isinstance(v, dict)):
            k = id(v)
            if k in memo:
                return memo[k][1]
            if isinstance(v, PList):
                n = PList([], v.kind)
                memo[k] = (v, n)
                n.items = [cl(x) for x in v.items]
            elif isinstance(v, PDict):
                n = PDict()
                memo[k] = (v, n)
                n.d = {kk: cl(x) for kk, x in v.d.items()}
                n.sym = dict(v.sym) if v.sym is not None else None
                n.symtok = (v.symtok[0], cl(v.symtok[1])) if v.symtok is not None else None
            elif isinstance(v, PObj):
                n = PObj(v.cls)
                memo[k] = (v, n)
                n.fields = {kk: cl(x) for kk, x in v.fields.items()}
            elif isinstance(v, SList):
                n = SList(v.ln, v.at, v.ekind)
                memo[k] = (v, n)
            elif isinstance(v, SGrid):
                n = v.copy()
                memo[k] = (v, n)
            elif isinstance(v, ByteMem):
                n = ByteMem(v.ln, v.b8, v.w32, v.f64, v.d128)
                n.known32 = dict(v.known32)
                memo[k] = (v, n)
            else:
                n = {}
                memo[k] = (v, n)
                for kk, x in v.items():
                    n[kk] = x if kk == "__closure__" else cl(x)
            return n
        if isinstance(v, tuple):
            return tuple(cl(x) for x in v)
        return v

    return cl(root), memo


def merge_into(ex, c, st1, st2_roots, env):
    """After `if c: A else: B`: st1 is a clone of the state after A; the live state (env, extra
    roots) is the state after B.  Merge A's values into the live state under condition c."""
    seen = set()

    def mv(a, b, where):
        # a: then-value, b: else-value (live)
        if a is b:
            return b
        if isinstance(b, SGrid) and isinstance(a, SGrid):
            if id(b) in seen:
                return b
            seen.add(id(b))
            b.nr = ite_int(c, a.nr, b.nr)
            b.rl = b.rl if a.rl.eq(b.rl) else z3.If(c, a.rl, b.rl)
            b.at = b.at if a.at.eq(b.at) else z3.If(c, a.at, b.at)
            return b
        if isinstance(b, ByteMem) and isinstance(a, ByteMem):
            if id(b) in seen:
                return b
            seen.add(id(b))
            b.ln = ite_int(c, a.ln, b.ln)
            for fld in ("b8", "w32", "f64", "d128"):
                x, y = getattr(a, fld), getattr(b, fld)
                setattr(b, fld, y if x.eq(y) else z3.If(c, x, y))
            b.known32 = {o: t for o, t in b.known32.items() if o in a.known32 and a.known32[o].eq(t)}
            return b
        if isinstance(b, (PList, PDict, PObj, SList)) or isinstance(a, (PList, PDict, PObj, SList)):
            if type(a) is not type(b):
                raise _abort(where)
            if id(b) in seen:
                return b
            seen.add(id(b))
            if isinstance(b, PObj):
                if a.cls != b.cls:
                    raise _abort(where)
                for k in set(a.fields) | set(b.fields):
                    if k not in a.fields or k not in b.fields:
                        raise _abort(where + "." + k)
                    b.fields[k] = mv(a.fields[k], b.fields[k], where + "." + k)
                return b
            if isinstance(b, PList):
                if len(a.items) != len(b.items):
                    raise _abort(where + " (list lengths differ)")
                b.items = [mv(x, y, where + "[]") for x, y in zip(a.items, b.items)]
                return b
            if isinstance(b, PDict):
                if set(a.d) != set(b.d) or (a.sym is None) != (b.sym is None) or (a.symtok is None) != (b.symtok is None):
                    raise _abort(where)
                if b.sym is not None:
                    for fld in ("dom", "val"):
                        x, y = a.sym[fld], b.sym[fld]
                        b.sym[fld] = y if x.eq(y) else z3.If(c, x, y)
                if b.symtok is not None:
                    b.symtok = (b.symtok[0], mv(a.symtok[1], b.symtok[1], where + "[tok]"))
                for k in b.d:
                    b.d[k] = mv(a.d[k], b.d[k], f"{where}[{k!r}]")
                return b
            if isinstance(b, SList):
                if a.ekind != b.ekind:
                    raise _abort(where)
                b.ln = ite_int(c, a.ln, b.ln)
                b.at = a.at if a.at.eq(b.at) else z3.If(c, a.at, b.at)
                return b
        if isinstance(a, tuple) and isinstance(b, tuple) and len(a) == len(b):
            return tuple(mv(x, y, where) for x, y in zip(a, b))
        if isinstance(a, (Func, Builtin, ClassRef)) or isinstance(b, (Func, Builtin, ClassRef)):
            if a is b:
                return b
            raise _abort(where)
        return merge_scalar(c, a, b, where)

    live_env = env
    env1 = st1["env"]
    for k in list(live_env.keys()):
        if k == "__closure__":
            continue
        if k not in env1:
            # defined only in the else branch: unusable afterwards unless re-assigned
            del live_env[k]
            continue
        live_env[k] = mv(env1[k], live_env[k], k)
    h1 = st1["extra"]["heap"]
    h2 = ex.extra_roots["heap"]
    for k in set(h1) | set(h2):
        a, b = h1.get(k), h2.get(k)
        if a is None or b is None:
            base = z3.Const(f"H_{k[0]}_{k[1]}", (a if a is not None else b).sort())
            a = base if a is None else a
            b = base if b is None else b
        h2[k] = b if a.eq(b) else z3.If(c, a, b)


def _abort(where):
    return Unsupported(f"cannot merge branch states at {where}")


def ite_int(c, x, y):
    from .sym import bits_of, mk_bits
    if x.eq(y):
        return x
    dx, dy = bits_of(x), bits_of(y)
    from .sym import BITS
    if dx is not None and dy is not None and (x.get_id() in BITS or y.get_id() in BITS or _flagish(x, y)):
        F = z3.BoolVal(False)
        return mk_bits({k: z3.If(c, dx.get(k, F), dy.get(k, F)) for k in set(dx) | set(dy)})
    x, y = z3.simplify(x), z3.simplify(y)
    if x.eq(y):
        return x
    # additive form: x = y + k  or  both = base + const
    d = z3.simplify(x - y)
    if z3.is_int_value(d):
        return z3.simplify(y + z3.If(c, d, z3.IntVal(0)))
    return z3.If(c, x, y)


def _flagish(x, y):
    """two concrete ints that differ in exactly one bit (x == y | bit): the `flags |= m` idiom"""
    if z3.is_int_value(x) and z3.is_int_value(y):
        a, b = x.as_long(), y.as_long()
        # exact either way (the bit form denotes ite(c, x, y)); chosen when one value's bits contain the other's
        return a >= 0 and b >= 0 and a != b and (a | b) in (a, b)
    return False


def merge_scalar(c, a, b, where):
    if a is None and b is None:
        return None
    if isinstance(a, SOpt) or isinstance(b, SOpt) or a is None or b is None:
        ao = a if isinstance(a, SOpt) else (SOpt(z3.BoolVal(True), None) if a is None else SOpt(z3.BoolVal(False), a))
        bo = b if isinstance(b, SOpt) else (SOpt(z3.BoolVal(True), None) if b is None else SOpt(z3.BoolVal(False), b))
        if ao.val is None and bo.val is None:
            return None
        if ao.val is None:
            inner = bo.val
        elif bo.val is None:
            inner = ao.val
        else:
            inner = merge_scalar(c, ao.val, bo.val, where)
        isn = z3.simplify(z3.If(c, ao.isnone, bo.isnone))
        return SOpt(isn, inner)
    if isinstance(a, (bool, SBool)) and isinstance(b, (bool, SBool)):
        return wrap(z3.If(c, lift(a), lift(b)))
    if is_intlike(a) and is_intlike(b):
        return wrap(ite_int(c, as_int_term(a), as_int_term(b)))
    if isinstance(a, (str, SStr)) and isinstance(b, (str, SStr)):
        x, y = lift(a), lift(b)
        return wrap(x if x.eq(y) else z3.If(c, x, y))
    if isinstance(a, SFloat) and isinstance(b, SFloat):
        return SFloat(a.t if a.t.eq(b.t) else z3.If(c, a.t, b.t))
    if isinstance(a, SRef) and isinstance(b, SRef) and a.cls == b.cls:
        return SRef(z3.If(c, a.t, b.t), a.cls)
    if type(a) is type(b) and not isinstance(a, (SInt, SStr, SBool)) and a == b:
        return b
    raise _abort(f"{where}: {type(a).__name__} vs {type(b).__name__}")

"""CPython cross-check of the translator (DESIGN section 4): the symbolic semantics specialised to concrete
inputs must agree with the real function run natively."""
from __future__ import annotations

import json
import os
import random
import subprocess

from . import extract
from .sym import Executor, Unsupported, PyRaise, PList, SInt, SStr, SBool, is_sym

HERE = os.path.dirname(os.path.dirname(os.path.abspath(__file__)))
NATIVE_PY = "/venv/bin/python"


def gen_value(kind, rnd):
    if kind == "int":
        return rnd.choice([0, 1, -1, 25, 26, 27, 701, 702, 703, 18277, 18278, rnd.randrange(-50, 20000), rnd.randrange(0, 2 ** 19)])
    if kind == "nat":
        return rnd.choice([0, 1, 25, 26, 701, 702, 18277, rnd.randrange(0, 20000)])
    if kind == "bool":
        return rnd.random() < 0.5
    if kind == "str":
        alphabet = "AZB$09a :"
        return "".join(rnd.choice(alphabet) for _ in range(rnd.randrange(0, 6)))
    if isinstance(kind, str) and kind.startswith("opt"):
        return None if rnd.random() < 0.3 else gen_value(kind[3:], rnd)
    raise Unsupported(f"cross-check generator for {kind}")


def to_py(v):
    if isinstance(v, PList):
        return [to_py(x) for x in v.items]
    if isinstance(v, tuple):
        return [to_py(x) for x in v]
    if is_sym(v):
        raise Unsupported("symbolic result on concrete input")
    return v


def run(plan, reports, n, seed):
    rnd = random.Random(seed)
    summary = []
    errors = []
    total = 0
    distinct = 0
    seen_fns = set()
    for rep in reports:
        c = rep.c
        if rep.status != "ok" or c.qual in seen_fns:
            continue
        seen_fns.add(c.qual)
        gen = c.gen
        mod, _, path = c.qual.partition(":")
        if gen is None and (any(not isinstance(k, str) for k in c.params.values()) or c.entry is not None or not c.params):
            continue
        if "." in path and gen is None:
            continue  # methods / nested functions need a custom generator
        inputs = []
        for _ in range(n):
            try:
                inputs.append(gen(rnd) if gen else {p: gen_value(k, rnd) for p, k in c.params.items()})
            except Unsupported:
                inputs = []
                break
        if not inputs:
            continue
        job = {"module": f"numbers_parser.{mod}", "path": path, "calls": inputs}
        p = subprocess.run([NATIVE_PY, os.path.join(HERE, "pyvc", "native_replay.py")], input=json.dumps(job),
                           capture_output=True, text=True, timeout=300,
                           env={**os.environ, "PYTHONPATH": os.path.join(extract.REPO, "src")})
        try:
            outs = json.loads(p.stdout.strip().splitlines()[-1])["outs"]
        except Exception:
            errors.append(f"cross-check native run failed for {c.qual}: {p.stderr[-300:]}")
            continue
        agree = 0
        skipped = 0
        keys = set()
        for a, o in zip(inputs, outs):
            sym = concrete_run(plan.ctx, c, a)
            if sym is None:
                skipped += 1
                continue
            total += 1
            keys.add(json.dumps(a, sort_keys=True, default=str))
            exp = o.get("result") if "result" in o else None
            if "exc" in o:
                ok = sym.get("exc") == o["exc"] or (sym.get("exc") or "").split(".")[-1] == o["exc"]
            else:
                ok = "exc" not in sym and json.dumps(to_jsonable(sym.get("result"))) == json.dumps(to_jsonable(exp))
            if ok:
                agree += 1
            else:
                errors.append(f"translator disagrees with CPython on {c.qual}{a}: native={o} symbolic={sym}")
        distinct += len(keys)
        summary.append({"function": c.qual, "inputs": len(inputs), "agree": agree, "outside_model": skipped})
    return {"summary": summary, "errors": errors[:5], "evaluations": total, "distinct": distinct}


def to_jsonable(v):
    if isinstance(v, tuple):
        return [to_jsonable(x) for x in v]
    if isinstance(v, list):
        return [to_jsonable(x) for x in v]
    return v


class _ConcContract:
    pass


def concrete_run(ctx, c, args):
    """Run the executor with concrete inputs; returns {'result':..} / {'exc':..} / None if outside the model."""
    import copy
    cc = copy.copy(c)
    cc.requires, cc.ensures, cc.raises, cc.canaries, cc.hints = [], [], {"BaseException": None}, [], []
    cc.loops, cc.safety_mode, cc.merge = {}, "fork", False
    cc.inline, cc.steps, cc.ascii_strings, cc.ghost_params, cc.split_cases = {"*"}, [], [], {}, []
    cc.entry = lambda ex: dict(args)
    cc._loop_index = None
    cc.max_unroll = 64
    ex = Executor(ctx, c.finfo, cc)
    out = {}

    def exit_normal(result, env, body_env):
        out["result"] = to_py(result)

    def exit_raise(exc, env, body_env):
        out["exc"] = exc.cls

    ex.exit_normal, ex.exit_raise = exit_normal, exit_raise
    try:
        ex.run()
    except Unsupported:
        return None
    if ex.paths != 1:
        return None
    return out or None

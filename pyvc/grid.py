"""Lists of lists of references (the table grid): (nr, rl, at) with rl: row -> length, at: row -> (col -> ref).

Rows are treated as values owned by the grid (no two grid slots alias the same row object - part of the
table invariant, stated in the contracts).  Handles (`SRowRef`) write through to the grid."""
from __future__ import annotations

import z3

from .sym import (SInt, SRef, Unsupported, PathEnd, wrap, lift, as_int_term, fresh_name, Int, _Sliceable, PList)

RowArr = z3.ArraySort(Int, Int)
GridArr = z3.ArraySort(Int, RowArr)


class SRowVal:
    """An immutable sequence of references of symbolic length (a tuple/list value)."""

    def __init__(self, ln, arr, cls="Cell"):
        self.ln, self.arr, self.cls = ln, arr, cls


class SGrid:
    def __init__(self, nr, rl, at, cls="Cell"):
        self.nr, self.rl, self.at, self.cls = nr, rl, at, cls

    @staticmethod
    def fresh(ex, tag="grid", cls="Cell"):
        nr = z3.Int(fresh_name(tag + "_nr"))
        ex.assume(nr >= 0)
        return SGrid(nr, z3.Const(fresh_name(tag + "_rl"), RowArr), z3.Const(fresh_name(tag + "_at"), GridArr), cls)

    @staticmethod
    def empty(cls="Cell"):
        return SGrid(z3.IntVal(0), z3.K(Int, z3.IntVal(0)), z3.K(Int, z3.K(Int, z3.IntVal(0))), cls)

    def cell(self, r, c):
        return z3.Select(z3.Select(self.at, r), c)

    def copy(self):
        return SGrid(self.nr, self.rl, self.at, self.cls)


class SRowRef:
    def __init__(self, grid, r):
        self.grid, self.r = grid, r


class SGridView:
    """grid[lo:hi] used read-only (bounds already clamped)."""

    def __init__(self, grid, lo, hi):
        self.grid, self.lo, self.hi = grid, lo, hi


def clamp(t, n):
    """Python slice-bound normalisation of an int term against length n."""
    t = z3.simplify(t)
    if z3.is_int_value(t) and t.as_long() >= 0:
        return z3.If(t > n, n, t)
    return z3.If(t < 0, z3.If(t + n < 0, z3.IntVal(0), t + n), z3.If(t > n, n, t))


def slice_bounds(ex, sl, n, env):
    if sl.step is not None:
        raise Unsupported("slice step")
    lo = z3.IntVal(0) if sl.lower is None else clamp(as_int_term(ex.unopt(ex.eval(sl.lower, env), 0, "slice-bound")), n)
    hi = n if sl.upper is None else clamp(as_int_term(ex.unopt(ex.eval(sl.upper, env), 0, "slice-bound")), n)
    return z3.simplify(lo), z3.simplify(hi)


def get_item(ex, obj, sl, env, line):
    import ast
    if isinstance(obj, SGrid):
        if isinstance(sl, ast.Slice):
            lo, hi = slice_bounds(ex, sl, obj.nr, env)
            return SGridView(obj, lo, hi)
        i = ex.norm_index(as_int_term(ex.unopt(ex.eval(sl, env), line, "index")), obj.nr, line, "IndexError", "row-index")
        return SRowRef(obj, i)
    if isinstance(obj, SRowRef):
        g = obj.grid
        n = z3.Select(g.rl, obj.r)
        if isinstance(sl, ast.Slice):
            lo, hi = slice_bounds(ex, sl, n, env)
            return row_slice(ex, z3.Select(g.at, obj.r), lo, hi, g.cls)
        j = ex.norm_index(as_int_term(ex.unopt(ex.eval(sl, env), line, "index")), n, line, "IndexError", "col-index")
        return SRef(g.cell(obj.r, j), g.cls)
    if isinstance(obj, SRowVal):
        if isinstance(sl, ast.Slice):
            lo, hi = slice_bounds(ex, sl, obj.ln, env)
            return row_slice(ex, obj.arr, lo, hi, obj.cls)
        j = ex.norm_index(as_int_term(ex.eval(sl, env)), obj.ln, line, "IndexError", "index")
        return SRef(z3.Select(obj.arr, j), obj.cls)
    raise Unsupported(f"subscript of {type(obj).__name__}")


def row_slice(ex, arr, lo, hi, cls):
    n = z3.simplify(z3.If(hi > lo, hi - lo, z3.IntVal(0)))
    lo_s = z3.simplify(lo)
    if z3.is_int_value(lo_s) and lo_s.as_long() == 0:
        return SRowVal(n, arr, cls)
    k = z3.Int(fresh_name("sk"))
    new = z3.Const(fresh_name("rowslice"), RowArr)
    ex.pc.append(z3.ForAll([k], z3.Implies(z3.And(k >= 0, k < n), z3.Select(new, k) == z3.Select(arr, lo + k))))
    return SRowVal(n, new, cls)


def set_item(ex, obj, sl, v, env, line):
    import ast
    if isinstance(obj, SRowRef) and not isinstance(sl, ast.Slice):
        g = obj.grid
        j = ex.norm_index(as_int_term(ex.eval(sl, env)), z3.Select(g.rl, obj.r), line, "IndexError", "col-index")
        g.at = z3.Store(g.at, obj.r, z3.Store(z3.Select(g.at, obj.r), j, lift(v)))
        return
    if isinstance(obj, SRowRef) and isinstance(sl, ast.Slice):
        # row[s:s] = cols  (insertion only)
        g = obj.grid
        n = z3.Select(g.rl, obj.r)
        lo, hi = slice_bounds(ex, sl, n, env)
        if not isinstance(v, SRowVal):
            raise Unsupported("row slice assignment of a non-row value")
        new_row = splice(ex, z3.Select(g.at, obj.r), n, lo, hi, v.arr, v.ln)
        g.at = z3.Store(g.at, obj.r, new_row)
        g.rl = z3.Store(g.rl, obj.r, z3.simplify(n - z3.If(hi > lo, hi - lo, 0) + v.ln))
        return
    if isinstance(obj, SGrid) and isinstance(sl, ast.Slice):
        lo, hi = slice_bounds(ex, sl, obj.nr, env)
        if not isinstance(v, SGrid):
            raise Unsupported("grid slice assignment of a non-grid value")
        cut = z3.If(hi > lo, hi - lo, 0)
        i = z3.Int(fresh_name("gi"))
        new_at = z3.Const(fresh_name("grid_at"), GridArr)
        new_rl = z3.Const(fresh_name("grid_rl"), RowArr)
        nn = z3.simplify(obj.nr - cut + v.nr)
        for new, old, ins in ((new_at, obj.at, v.at), (new_rl, obj.rl, v.rl)):
            ex.pc.append(z3.ForAll([i], z3.Implies(z3.And(i >= 0, i < nn), z3.Select(new, i) == z3.If(
                i < lo, z3.Select(old, i), z3.If(i < lo + v.nr, z3.Select(ins, i - lo), z3.Select(old, i - v.nr + cut))))))
        obj.at, obj.rl, obj.nr = new_at, new_rl, nn
        return
    raise Unsupported(f"item assignment on {type(obj).__name__}")


def splice(ex, arr, n, lo, hi, ins, ins_n):
    """arr[lo:hi] = ins  on a row array; returns the new array (defined pointwise)."""
    cut = z3.If(hi > lo, hi - lo, 0)
    nn = n - cut + ins_n
    k = z3.Int(fresh_name("pk"))
    new = z3.Const(fresh_name("row_at"), RowArr)
    ex.pc.append(z3.ForAll([k], z3.Implies(z3.And(k >= 0, k < nn), z3.Select(new, k) == z3.If(
        k < lo, z3.Select(arr, k), z3.If(k < lo + ins_n, z3.Select(ins, k - lo), z3.Select(arr, k - ins_n + cut))))))
    return new


def del_item(ex, obj, sl, env, line):
    import ast
    if not isinstance(sl, ast.Slice):
        raise Unsupported("del of a single item")
    if isinstance(obj, SGrid):
        empty = SGrid.empty(obj.cls)
        return set_item(ex, obj, sl, empty, env, line)
    if isinstance(obj, SRowRef):
        return set_item(ex, obj, sl, SRowVal(z3.IntVal(0), z3.K(Int, z3.IntVal(0))), env, line)
    raise Unsupported(f"del on {type(obj).__name__}")


def length(ex, obj):
    if isinstance(obj, SGrid):
        return obj.nr
    if isinstance(obj, SRowRef):
        return z3.Select(obj.grid.rl, obj.r)
    if isinstance(obj, SRowVal):
        return obj.ln
    if isinstance(obj, SGridView):
        return z3.If(obj.hi > obj.lo, obj.hi - obj.lo, z3.IntVal(0))
    raise Unsupported("len")


def append(ex, obj, v, line):
    if isinstance(obj, SGrid):
        if isinstance(v, SRowVal):
            obj.at = z3.Store(obj.at, obj.nr, v.arr)
            obj.rl = z3.Store(obj.rl, obj.nr, v.ln)
            obj.nr = z3.simplify(obj.nr + 1)
            return
        if isinstance(v, PList) and not v.items:
            obj.at = z3.Store(obj.at, obj.nr, z3.K(Int, z3.IntVal(0)))
            obj.rl = z3.Store(obj.rl, obj.nr, z3.IntVal(0))
            obj.nr = z3.simplify(obj.nr + 1)
            return
    if isinstance(obj, SRowRef):
        g = obj.grid
        n = z3.Select(g.rl, obj.r)
        g.at = z3.Store(g.at, obj.r, z3.Store(z3.Select(g.at, obj.r), n, lift(v)))
        g.rl = z3.Store(g.rl, obj.r, z3.simplify(n + 1))
        return
    raise Unsupported(f"append on {type(obj).__name__}")


GRID_TYPES = (SGrid, SRowRef, SRowVal, SGridView)

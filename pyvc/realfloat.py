"""Floats as mathematical reals (stated assumption A-REAL): an optional mode a contract file installs on its VerifCtx.

Python floats stay terms of the uninterpreted sort PyFloat; `rv : PyFloat -> Real` gives each its value.  +, -, * and / are the real
operations (no rounding error, no overflow, no NaN/inf), comparisons compare values, round() is round-half-even to an integer,
math.floor / int() are floor / truncation.  What this assumes away is exactly the rounding of each machine operation: contracts proved in
this mode hold for the real-number semantics of the code, and say so in their assumptions."""
import ast

import z3

from .sym import FloatS, SFloat, SInt, SBool, Unsupported, fresh_name, wrap, as_int_term, is_intlike, i2f, f2i

RV = z3.Function("float_value", FloatS, z3.RealSort())


def fl(ex, real_term, tag="f"):
    """a float whose value is the given real term"""
    t = z3.Const(fresh_name(tag), FloatS)
    ex.assume(RV(t) == real_term)
    return SFloat(t)


def value(ex, v):
    """real value of an int / float / symbolic operand"""
    if isinstance(v, SFloat):
        return RV(v.t)
    if isinstance(v, bool):
        return z3.RealVal(int(v))
    if isinstance(v, (int, float)):
        return z3.RealVal(repr(v) if isinstance(v, float) else v)
    if is_intlike(v):
        return z3.ToReal(as_int_term(v))
    raise Unsupported(f"real value of {type(v).__name__}")


RHE = z3.Function("round_half_even", z3.RealSort(), z3.IntSort())
FLOOR = z3.Function("real_floor", z3.RealSort(), z3.IntSort())


def rhe_def(r):
    n = RHE(r)
    two_n = 2 * z3.ToReal(n)
    return z3.And(two_n - 1 <= 2 * r, 2 * r <= two_n + 1, z3.Implies(2 * r == two_n + 1, n % 2 == 0), z3.Implies(2 * r == two_n - 1, n % 2 == 0))


def floor_def(r):
    n = FLOOR(r)
    return z3.And(z3.ToReal(n) <= r, r < z3.ToReal(n) + 1)


def round_half_even(ex, r):
    """round(x) on a real: the function RHE with its defining property assumed at this argument"""
    ex.assume(rhe_def(r))
    return RHE(r)


def floor_int(ex, r):
    ex.assume(floor_def(r))
    return FLOOR(r)


def install(ctx):
    def binop(ex, op, a, b, line):
        x, y = value(ex, a), value(ex, b)
        if isinstance(op, ast.Add):
            return fl(ex, x + y, "sum")
        if isinstance(op, ast.Sub):
            return fl(ex, x - y, "diff")
        if isinstance(op, ast.Mult):
            return fl(ex, x * y, "prod")
        if isinstance(op, ast.Div):
            ex.safety(y != 0, "ZeroDivisionError", "float-div-nonzero", line)
            return fl(ex, x / y, "quot")
        raise Unsupported(f"float operator {type(op).__name__} at L{line}")

    def compare(ex, op, a, b, line):
        x, y = value(ex, a), value(ex, b)
        table = {ast.Lt: x < y, ast.LtE: x <= y, ast.Gt: x > y, ast.GtE: x >= y, ast.Eq: x == y, ast.NotEq: x != y}
        for k, v in table.items():
            if isinstance(op, k):
                return v
        raise Unsupported(f"float comparison {type(op).__name__} at L{line}")

    def unop(ex, op, a, line):
        return fl(ex, -RV(a.t), "neg")

    def round_hook(ex, args, kwargs, line):
        if len(args) != 1 or kwargs or not isinstance(args[0], SFloat):
            raise Unsupported(f"round() with digits at L{line}")
        return wrap(round_half_even(ex, RV(args[0].t)))

    def int_of_float(ex, t):
        r = RV(t)
        ex.hints.append(z3.If(r >= 0, z3.And(z3.ToReal(f2i(t)) <= r, r < z3.ToReal(f2i(t)) + 1), z3.And(z3.ToReal(f2i(t)) >= r, r > z3.ToReal(f2i(t)) - 1)))
    ctx.float_binop, ctx.float_compare, ctx.float_unop, ctx.round_hook, ctx.int_of_float = binop, compare, unop, round_hook, int_of_float
    ctx.real_floats = True
    return ctx


def floor_model(ex, args, kwargs, line):
    """math.floor(x)"""
    v = args[0]
    if isinstance(v, SFloat):
        return wrap(floor_int(ex, RV(v.t)))
    if is_intlike(v):
        return wrap(as_int_term(v))
    if isinstance(v, float):
        import math
        return math.floor(v)
    raise Unsupported(f"floor of {type(v).__name__}")

"""Native side of C13: small runs of the stand-in's cases to find a concrete (value, format) pair that breaks the relation."""
import os
import sys
import warnings

sys.path.insert(0, os.path.dirname(os.path.dirname(os.path.abspath(__file__))))


def search_numbers(job):
    from bounded import c13_numbers as N
    warnings.simplefilter("ignore")
    for kind in ("base", "currency", "fraction", "decimal", "percent", "scientific"):
        for seed in (1, 2):
            case = {"kind": kind, "seed": seed, "n": 800}
            r = N.run_case(case)
            if r and not r.get("ok"):
                return {"violated": True, "detail": r["detail"], "job": {"custom": "replay_case", "case": case}}
    return {"violated": False}


def replay_case(job):
    from bounded import c13_numbers as N
    r = N.dispatch(job["case"])
    return {"violated": bool(r and not r.get("ok")), "detail": (r or {}).get("detail", "")}


NATIVE = {}

"""Native side of C13: small runs of the stand-in's cases to find a concrete (value, format) pair that breaks the relation."""
import os
import sys
import warnings

sys.path.insert(0, os.path.dirname(os.path.dirname(os.path.abspath(__file__))))


def search_numbers(job):
    from bounded import c13_numbers as N
    warnings.simplefilter("ignore")
    for kind in ("base", "currency", "fraction", "decimal", "percent", "scientific"):
        for seed in (1, 2):
            case = {"kind": kind, "seed": seed, "n": 800}
            r = N.run_case(case)
            if r and not r.get("ok"):
                return {"violated": True, "detail": r["detail"], "job": {"custom": "replay_case", "case": case}}
    return {"violated": False}


def replay_case(job):
    from bounded import c13_numbers as N
    r = N.dispatch(job["case"])
    return {"violated": bool(r and not r.get("ok")), "detail": (r or {}).get("detail", "")}


def ground_twos_complement(job):
    """_twos_complement(v, base) for negative v: the numeral, read in its base, is 2**w + v where w = max(32, bits needed for |v| + sign) -
    checked on every v in [-70000, -1], and around every power of two up to 2**52 (sampled, bounded: labelled so in the evidence)"""
    from numbers_parser.cell import _twos_complement
    vals = list(range(-70000, 0))
    for k in range(8, 53):
        vals += [-(2 ** k) + d for d in (-2, -1, 0, 1, 2)] + [-(2 ** k + 2 ** (k - 1))]
    n = 0
    for v in vals:
        if v >= 0:
            continue
        need = (-v - 1).bit_length() + 1          # bits of the two's-complement representation of v
        for base in (2, 8, 16):
            n += 1
            try:
                text = _twos_complement(v, base)
                got = int(text, base)
            except Exception as e:  # noqa: BLE001
                return {"violated": True, "detail": f"_twos_complement({v}, {base}) raised {type(e).__name__}: {e}", "count": n}
            ok = any(got == 2 ** w + v for w in (max(32, need), max(32, need + 1)))  # one spare sign bit is still the same number
            if not ok:
                return {"violated": True, "detail": f"_twos_complement({v}, {base}) = {text!r}, which reads as {got}; two's complement of {v} in {max(32, need)} bits is {2 ** max(32, need) + v}", "count": n}
    return {"violated": False, "detail": f"{n} (value, base) pairs: every v in [-70000,-1] and 6 values around each power of two up to 2**52 (sampled)", "count": n}


NATIVE = {}

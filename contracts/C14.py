"""C14 - Displayed dates and durations agree with the stored value.

Kernels:
  * _auto_units (contract-based, real source, every whole number of seconds): the largest unit is the largest one the value reaches, the
    smallest is the coarsest unit that divides the value (never coarser than the largest); zero shows days;
  * _unit_format (contract-based, real source, every value and style): compact shows no unit text, short the abbreviation, long the unit
    name with an 's' unless the value is 1;
  * directive table (complete ground checks): every directive of DATETIME_FIELD_MAP that is computed by a lambda reads only the field(s) its
    documented meaning depends on (syntactic), and over the whole domain of a clock field (24 hours, 60 minutes, 60 seconds) - for date
    fields every day of 33 years incl. century years, a sample of the date domain - it renders the documented value, range and padding;
  * Formatting.__post_init__ accepts exactly the directives the table knows (syntactic: same table object).
The format parser (_decode_date_format) and _duration_format (float arithmetic) are exercised by the bounded stand-in with an independent
oracle: they are not brought under contract (string-state-machine induction / float division are outside the VC generator's reach).
"""
import ast
import os

import z3

from pyvc.ctx import VerifCtx, Contract, LoopSpec
from pyvc.plan import Plan, Lemma, BoundedStandIn
from pyvc.sym import (Int, Str, Bool, PObj, SInt, SStr, SBool, Unsupported, fresh_name, lift, wrap, as_int_term, is_intlike, ClassRef)
from pyvc import extract


def T(v):
    return as_int_term(v) if is_intlike(v) else lift(v)


UNITS = {"WEEK": 1, "DAY": 2, "HOUR": 4, "MINUTE": 8, "SECOND": 16, "MILLISECOND": 32}
SIZE = {1: 604800, 2: 86400, 4: 3600, 8: 60, 16: 1}


def build():
    ctx = VerifCtx()
    plan = Plan("C14", ctx)
    plan.native_module = os.path.join(os.path.dirname(__file__), "C14_native.py")
    srch = lambda name: (lambda plan_, c: {"custom": name, "native_module": plan_.native_module})
    ctx.extra_globals["DurationUnits"] = PObj("enum", dict(UNITS))
    ctx.extra_globals["DurationStyle"] = PObj("enum", {"COMPACT": 0, "SHORT": 1, "LONG": 2})
    cenv = {}
    for k, v in (("SECONDS_IN_HOUR", 3600), ("SECONDS_IN_DAY", 86400), ("SECONDS_IN_WEEK", 604800)):
        cenv[k] = extract.module_const("constants", k, cenv)
        if cenv[k] != v:
            raise extract.ExtractError(f"constants.{k} is {cenv[k]}, the contracts are written for {v}")
        ctx.extra_globals[k] = v

    # ------------------------------------------------------------------ _auto_units on whole seconds
    def au_entry(ex):
        v = ex.fresh("int", "seconds")
        ex.assume(v.t >= 0)
        nf = PObj("Format", {"duration_unit_largest": ex.fresh("int", "stored_largest"), "duration_unit_smallest": ex.fresh("int", "stored_smallest")})
        return {"cell_value": v, "number_format": nf}

    def au_post(ex, env):
        v = T(env["cell_value"])
        sm, lg = T(env["result"][0]), T(env["result"][1])
        want_lg = z3.If(v >= 604800, 1, z3.If(v >= 86400, 2, z3.If(v >= 3600, 4, z3.If(v >= 60, 8, 16))))
        divides = z3.If(v % 604800 == 0, 1, z3.If(v % 86400 == 0, 2, z3.If(v % 3600 == 0, 4, z3.If(v % 60 == 0, 8, 16))))
        want_sm = z3.If(divides >= want_lg, divides, want_lg)
        return z3.If(v == 0, z3.And(sm == 2, lg == 2), z3.And(lg == want_lg, sm == want_sm))
    au_post.__name__ = ("whole seconds v > 0: largest = the largest unit with size <= v; smallest = the coarsest unit whose size divides v, but not "
                        "coarser than the largest; v == 0: days")
    plan.target(Contract("cell:_auto_units", entry=au_entry, ensures=[au_post], safety="fork", search=srch("search_durations"),
                         opaque={"math.floor(cell_value)": lambda ex, env: env["cell_value"]},
                         canaries=[lambda ex, env: T(env["result"][0]) == T(env["result"][1])]))

    # ------------------------------------------------------------------ _unit_format
    def uf_entry(unit, abbrev):
        def entry(ex):
            st = ex.fresh("int", "style")
            ex.assume(z3.And(st.t >= 0, st.t <= 2))
            return {"unit": unit, "value": ex.fresh("int", "value"), "style": st, "abbrev": abbrev}
        return entry

    def uf_post(unit, abbrev):
        ab = abbrev if abbrev is not None else unit[0]

        def post(ex, env):
            st, v, r = T(env["style"]), T(env["value"]), lift(env["result"])
            return z3.And(z3.Implies(st == 0, r == z3.StringVal("")), z3.Implies(st == 1, r == z3.StringVal(ab)),
                          z3.Implies(st == 2, r == z3.If(v == 1, z3.StringVal(" " + unit), z3.StringVal(" " + unit + "s"))))
        post.__name__ = f"compact: '', short: {ab!r}, long: ' {unit}' for 1 and ' {unit}s' otherwise"
        return post
    for unit, abbrev in (("week", None), ("day", None), ("hour", None), ("minute", None), ("second", None), ("millisecond", "ms")):
        plan.target(Contract("cell:_unit_format", label=unit, entry=uf_entry(unit, abbrev), ensures=[uf_post(unit, abbrev)], safety="fork",
                             result="str", search=srch("search_durations")))

    # ------------------------------------------------------------------ the directive table
    DEPENDS = {"a": {"hour"}, "k": {"hour"}, "kk": {"hour"}, "K": {"hour"}, "KK": {"hour"}, "mm": {"minute"}, "m": {"minute"}, "s": {"second"},
               "S": {"microsecond"}, "SS": {"microsecond"}, "SSS": {"microsecond"}, "SSSS": {"microsecond"}, "SSSSS": {"microsecond"},
               "DDD": {"date"}, "DD": {"date"}, "D": {"date"}, "W": {"date"}, "F": {"date"}}
    STRF = {"%p": "hour", "%A": "date", "%a": "date", "%Y": "year", "%y": "year", "%B": "month", "%b": "month", "%m": "month", "%-m": "month",
            "%-d": "day", "%d": "day", "%H": "hour", "%-H": "hour", "%I": "hour", "%-I": "hour", "%S": "second", "%W": "date"}
    HELPERS = {"_day_of_year": "date", "_week_of_month": "date", "_days_occurred_in_month": "date"}
    DOC = {"EEEE": "date", "EEE": "date", "yyyy": "year", "yy": "year", "y": "year", "MMMM": "month", "MMM": "month", "MM": "month", "M": "month",
           "d": "day", "dd": "day", "HH": "hour", "H": "hour", "hh": "hour", "h": "hour", "ss": "second", "ww": "date"}

    def table_dependencies():
        node = extract.module_assign("constants", "DATETIME_FIELD_MAP")
        if not (isinstance(node, ast.Call) and node.args and isinstance(node.args[0], ast.List)):
            return False, "anchor lost: DATETIME_FIELD_MAP is not OrderedDict([...])", 0
        bad, n = [], 0
        for el in node.args[0].elts:
            key, val = el.elts[0].value, el.elts[1]
            n += 1
            if isinstance(val, ast.Constant):
                if key == "G":
                    continue
                got = {STRF.get(val.value, "?" + str(val.value))}
                want = {DOC.get(key, "?")}
            else:
                got = set()
                for sub in ast.walk(val):
                    if isinstance(sub, ast.Attribute) and isinstance(sub.value, ast.Name) and sub.value.id == "x":
                        if sub.attr == "strftime":
                            continue
                        got.add(sub.attr)
                    if isinstance(sub, ast.Call) and isinstance(sub.func, ast.Name) and sub.func.id in HELPERS:
                        got.add(HELPERS[sub.func.id])
                    if isinstance(sub, ast.Constant) and isinstance(sub.value, str) and sub.value.startswith("%"):
                        got.add(STRF.get(sub.value, "?" + sub.value))
                want = DEPENDS.get(key, {"?"})
            if not got <= want or not got:
                bad.append(f"{key}: reads {sorted(got)}, its documented meaning depends on {sorted(want)}")
        return (not bad), bad[:5], n
    plan.ground.append(("directives-read-only-their-field", table_dependencies))

    def native_ground(fn):
        def run():
            from pyvc.run import native_call
            res = native_call({"custom": fn, "native_module": plan.native_module})
            if "violated" not in res:
                return False, f"native ground check {fn} did not run: {str(res)[:300]}", 0
            return (not res["violated"]), res.get("detail", ""), res.get("count", 0)
        return run
    plan.ground.append(("every-directive-over-its-whole-field-domain", native_ground("ground_directives")))

    def post_init_uses_table():
        fi = extract.find_function("cell:Formatting.__post_init__")
        ok = any(isinstance(n, ast.Compare) and isinstance(n.ops[0], ast.NotIn) and ast.unparse(n.comparators[0]) == "DATETIME_FIELD_MAP"
                 for n in ast.walk(fi.node))
        return ok, "" if ok else "Formatting.__post_init__ no longer validates each alphabetic run of the format against DATETIME_FIELD_MAP", 1
    plan.ground.append(("format-validation-uses-the-directive-table", post_init_uses_table))

    plan.bounded.append(BoundedStandIn(
        "dates-and-durations", "c14_datetime.py", [], thorough_args=["--level", "2"],
        bound="every directive over its field domain (24 hours x 2 minutes, 60 minutes, 60 seconds, every day of 33 years incl. the century years "
              "1700..2400, year 1 and 9999, 12 sampled years, 17 sub-second values); 3200 (thorough 16000) random compositions of 1..7 parts (directives, literal punctuation/digits/non-ASCII, "
              "quoted text with escaped quotes) against the concatenation of the parts; durations: 3 styles x all 21 largest/smallest unit pairs + "
              "automatic units x 30 boundary values and 300+ (thorough 2000+) random values over 0..10 years at millisecond resolution, displayed "
              "text parsed back unit by unit and compared with the duration truncated to the smallest unit shown",
        functions=["_decode_date_format", "_decode_date_format_field", "DATETIME_FIELD_MAP", "Cell._duration_format", "_auto_units", "_unit_format"]))
    plan.assumptions += [
        "_auto_units is proved for whole numbers of seconds (Python ints); fractional values take the millisecond branch (stand-in)",
        "the documented meanings are those of docs/api/datetime.rst (y: the full year, as corrected by fix: e49d46d); strftime locale is C/English",
        "the format parser and _duration_format are not under contract (string induction / float division): bounded stand-in with an independent oracle",
    ]
    plan.trusted += ["pyvc AST->SMT translation (cross-checked against CPython)", "z3 5.1.0", "cvc5 1.0.3"]
    plan.level = "other"
    plan.explanation = ("Mixed: _auto_units (all whole seconds) and _unit_format (all values, styles) are proved; the directive table is checked "
                        "completely over each directive's field domain together with a syntactic proof that each lambda reads only that field; the "
                        "format parser and the float arithmetic of _duration_format are a bounded stand-in with an independent oracle.")
    return plan

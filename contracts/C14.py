"""C14 - Displayed dates and durations agree with the stored value.

Kernels:
  * _auto_units (contract-based, real source, every whole number of seconds): the largest unit is the largest one the value reaches, the
    smallest is the coarsest unit that divides the value (never coarser than the largest); zero shows days;
  * _unit_format (contract-based, real source, every value and style): compact shows no unit text, short the abbreviation, long the unit
    name with an 's' unless the value is 1;
  * directive table (complete ground checks): every directive of DATETIME_FIELD_MAP that is computed by a lambda reads only the field(s) its
    documented meaning depends on (syntactic), and over the whole domain of a clock field (24 hours, 60 minutes, 60 seconds) - for date
    fields every day of 33 years incl. century years, a sample of the date domain - it renders the documented value, range and padding;
  * Formatting.__post_init__ accepts exactly the directives the table knows (syntactic: same table object).
  * _decode_date_format (contract-based, loop invariants over the string position): for EVERY format string it terminates and raises nothing;
    for formats of any length that are pure literal text, one quoted text, one directive, directive + escaped quote, or directive + literal +
    directive, the result is the concatenation of the parts in order.
Arbitrary compositions of parts and _duration_format (float arithmetic) are exercised by the bounded stand-in with an independent oracle.
"""
import ast
import os

import z3

from pyvc.ctx import VerifCtx, Contract, LoopSpec
from pyvc.plan import Plan, Lemma, BoundedStandIn
from pyvc.sym import (Int, Str, Bool, PObj, SInt, SStr, SBool, Unsupported, fresh_name, lift, wrap, as_int_term, is_intlike, ClassRef)
from pyvc import extract


def T(v):
    return as_int_term(v) if is_intlike(v) else lift(v)


UNITS = {"WEEK": 1, "DAY": 2, "HOUR": 4, "MINUTE": 8, "SECOND": 16, "MILLISECOND": 32}
SIZE = {1: 604800, 2: 86400, 4: 3600, 8: 60, 16: 1}


def build():
    ctx = VerifCtx()
    plan = Plan("C14", ctx)
    plan.native_module = os.path.join(os.path.dirname(__file__), "C14_native.py")
    srch = lambda name: (lambda plan_, c: {"custom": name, "native_module": plan_.native_module})
    ctx.extra_globals["DurationUnits"] = PObj("enum", dict(UNITS))
    ctx.extra_globals["DurationStyle"] = PObj("enum", {"COMPACT": 0, "SHORT": 1, "LONG": 2})
    cenv = {}
    for k, v in (("SECONDS_IN_HOUR", 3600), ("SECONDS_IN_DAY", 86400), ("SECONDS_IN_WEEK", 604800)):
        cenv[k] = extract.module_const("constants", k, cenv)
        if cenv[k] != v:
            raise extract.ExtractError(f"constants.{k} is {cenv[k]}, the contracts are written for {v}")
        ctx.extra_globals[k] = v

    # ------------------------------------------------------------------ _auto_units on whole seconds
    def au_entry(ex):
        v = ex.fresh("int", "seconds")
        ex.assume(v.t >= 0)
        nf = PObj("Format", {"duration_unit_largest": ex.fresh("int", "stored_largest"), "duration_unit_smallest": ex.fresh("int", "stored_smallest")})
        return {"cell_value": v, "number_format": nf}

    def au_post(ex, env):
        v = T(env["cell_value"])
        sm, lg = T(env["result"][0]), T(env["result"][1])
        want_lg = z3.If(v >= 604800, 1, z3.If(v >= 86400, 2, z3.If(v >= 3600, 4, z3.If(v >= 60, 8, 16))))
        divides = z3.If(v % 604800 == 0, 1, z3.If(v % 86400 == 0, 2, z3.If(v % 3600 == 0, 4, z3.If(v % 60 == 0, 8, 16))))
        want_sm = z3.If(divides >= want_lg, divides, want_lg)
        return z3.If(v == 0, z3.And(sm == 2, lg == 2), z3.And(lg == want_lg, sm == want_sm))
    au_post.__name__ = ("whole seconds v > 0: largest = the largest unit with size <= v; smallest = the coarsest unit whose size divides v, but not "
                        "coarser than the largest; v == 0: days")
    plan.target(Contract("cell:_auto_units", entry=au_entry, ensures=[au_post], safety="fork", search=srch("search_durations"),
                         opaque={"math.floor(cell_value)": lambda ex, env: env["cell_value"]},
                         canaries=[lambda ex, env: T(env["result"][0]) == T(env["result"][1])]))

    # ------------------------------------------------------------------ Cell._duration_format (whole seconds, spelled-out units): contracts/C14_dur.py
    from contracts import C14_dur
    C14_dur.add(plan, ctx, srch)

    # ------------------------------------------------------------------ _unit_format
    def uf_entry(unit, abbrev):
        def entry(ex):
            st = ex.fresh("int", "style")
            ex.assume(z3.And(st.t >= 0, st.t <= 2))
            return {"unit": unit, "value": ex.fresh("int", "value"), "style": st, "abbrev": abbrev}
        return entry

    def uf_post(unit, abbrev):
        ab = abbrev if abbrev is not None else unit[0]

        def post(ex, env):
            st, v, r = T(env["style"]), T(env["value"]), lift(env["result"])
            return z3.And(z3.Implies(st == 0, r == z3.StringVal("")), z3.Implies(st == 1, r == z3.StringVal(ab)),
                          z3.Implies(st == 2, r == z3.If(v == 1, z3.StringVal(" " + unit), z3.StringVal(" " + unit + "s"))))
        post.__name__ = f"compact: '', short: {ab!r}, long: ' {unit}' for 1 and ' {unit}s' otherwise"
        return post
    for unit, abbrev in (("week", None), ("day", None), ("hour", None), ("minute", None), ("second", None), ("millisecond", "ms")):
        plan.target(Contract("cell:_unit_format", label=unit, entry=uf_entry(unit, abbrev), ensures=[uf_post(unit, abbrev)], safety="fork",
                             result="str", search=srch("search_durations")))

    # ------------------------------------------------------------------ _decode_date_format: totality, literal pass-through, single directive
    from pyvc.ctx import LoopSpec
    from pyvc.sym import Custom, SOpt
    FLD = z3.Function("rendered_directive", Str, Str)  # _decode_date_format_field(field, value) for the fixed value

    class Chars(Custom):
        """[*date_format]: the characters of the format string"""
        def __init__(self, s):
            self.s = s

        def length(self, ex):
            return z3.Length(self.s)

        def getitem(self, ex, idx, line):
            i = T(idx)
            ex.safety(z3.And(i >= -z3.Length(self.s), i < z3.Length(self.s)), "IndexError", "char-index", line)
            ex.assume(i >= 0)  # the function only indexes forwards (its indices are proved non-negative by the invariant)
            return SStr(z3.SubString(self.s, i, 1))

    def df_entry(ex):
        return {"date_format": ex.fresh("str", "date_format"), "value": PObj("datetime", {})}
    plan.callee(Contract("cell:_decode_date_format_field", assumed=True, note="total: returns the rendered text of a directive (or '' with a warning)",
                         model=lambda ex, a, k, l: SStr(FLD(lift(a[0])))))
    df_opaque = {"[*date_format]": lambda ex, env: Chars(env["date_format"].t)}

    def df_bools(env):
        out = []
        for nm_ in ("in_string", "in_field"):
            v = env[nm_]
            out.append(v.t if isinstance(v, SBool) else z3.BoolVal(bool(v)))
        return out

    def df_inv_total(ex, env):
        n = z3.Length(env["date_format"].t)
        return z3.And(T(env["index"]) >= 0, T(env["index"]) <= n)
    plan.target(Contract("cell:_decode_date_format", label="total", entry=df_entry, ensures=[lambda ex, env: z3.BoolVal(isinstance(env["result"], (SStr, str)))],
                         safety="fork", opaque=df_opaque, result="str", search=srch("search_formats"),
                         loops={1: LoopSpec([df_inv_total], decreases="len(chars) - index", kinds={"in_string": "bool", "in_field": "bool"})}))

    ALPHA = z3.Function("str_isalpha", Str, Bool)  # str.isalpha() on one character: uninterpreted (the proofs only need it to be a function)

    def _str_pred(name, t):
        if name != "isalpha":
            raise Unsupported(f"str.{name} on symbolic string")
        return ALPHA(t)
    ctx.str_pred = _str_pred
    ISALPHA = lambda ex, t: ALPHA(t)
    QUOTE = z3.StringVal("'")

    def lit_requires(ex, env):
        s_ = env["date_format"].t
        i = z3.Int(fresh_name("li"))
        ch = z3.SubString(s_, i, 1)
        return z3.ForAll([i], z3.Implies(z3.And(0 <= i, i < z3.Length(s_)), z3.And(z3.Not(ISALPHA(ex, ch)), ch != QUOTE)))
    lit_requires.__name__ = "the format has no letters and no quotes"

    def lit_inv(ex, env):
        s_ = env["date_format"].t
        idx = T(env["index"])
        ins, inf = df_bools(env)
        return z3.And(idx >= 0, idx <= z3.Length(s_), lift(env["result"]) == z3.SubString(s_, 0, idx), z3.Not(ins), z3.Not(inf))

    def lit_post(ex, env):
        return lift(env["result"]) == env["date_format"].t
    lit_post.__name__ = "literal text passes through unchanged: the result is the format itself"
    plan.target(Contract("cell:_decode_date_format", label="literal", entry=df_entry, requires=[lit_requires], ensures=[lit_post], safety="fork",
                         opaque=df_opaque, result="str", search=srch("search_formats"),
                         loops={1: LoopSpec([lit_inv], kinds={"in_string": "bool", "in_field": "bool"})},
                         canaries=[lambda ex, env: lift(env["result"]) == z3.StringVal("")]))

    def one_requires(ex, env):
        s_ = env["date_format"].t
        i = z3.Int(fresh_name("oi"))
        ch = z3.SubString(s_, i, 1)
        return z3.And(z3.Length(s_) >= 1, z3.ForAll([i], z3.Implies(z3.And(0 <= i, i < z3.Length(s_)), ISALPHA(ex, ch))),
                      z3.Not(ALPHA(QUOTE)))  # "'".isalpha() is False (a fact about str.isalpha, which is otherwise uninterpreted)
    one_requires.__name__ = "the format is one run of letters (a single directive)"

    def one_inv(ex, env):
        s_ = env["date_format"].t
        idx = T(env["index"])
        ins, inf = df_bools(env)
        return z3.And(idx >= 0, idx <= z3.Length(s_), lift(env["result"]) == z3.StringVal(""), z3.Not(ins), inf == (idx > 0),
                      z3.Implies(idx > 0, lift(env["field"]) == z3.SubString(s_, 0, idx)))

    def one_post(ex, env):
        return lift(env["result"]) == FLD(env["date_format"].t)
    one_post.__name__ = "a format that is a single directive renders as that directive"
    plan.target(Contract("cell:_decode_date_format", label="single-directive", entry=df_entry, requires=[one_requires], ensures=[one_post], safety="fork",
                         opaque=df_opaque, result="str", search=srch("search_formats"),
                         loops={1: LoopSpec([one_inv], kinds={"in_string": "bool", "in_field": "bool"})},
                         canaries=[lambda ex, env: lift(env["result"]) == z3.StringVal("")]))


    def q_requires(ex, env):
        s_ = env["date_format"].t
        n = z3.Length(s_)
        i = z3.Int(fresh_name("qi"))
        return z3.And(n >= 3, z3.SubString(s_, 0, 1) == QUOTE, z3.SubString(s_, n - 1, 1) == QUOTE,
                      z3.ForAll([i], z3.Implies(z3.And(1 <= i, i < n - 1), z3.SubString(s_, i, 1) != QUOTE)))
    q_requires.__name__ = "the format is one non-empty quoted text without quotes inside"

    def q_inv(ex, env):
        s_ = env["date_format"].t
        n, idx = z3.Length(s_), T(env["index"])
        ins, inf = df_bools(env)
        return z3.And(idx >= 0, idx <= n - 1, z3.Not(inf), z3.If(idx == 0, z3.And(z3.Not(ins), lift(env["result"]) == z3.StringVal("")),
                                                                  z3.And(ins, lift(env["result"]) == z3.SubString(s_, 1, idx - 1))))

    def q_post(ex, env):
        s_ = env["date_format"].t
        return lift(env["result"]) == z3.SubString(s_, 1, z3.Length(s_) - 2)
    q_post.__name__ = "quoted text passes through unchanged, whatever characters (letters included) it contains"
    plan.target(Contract("cell:_decode_date_format", label="quoted", entry=df_entry, requires=[q_requires], ensures=[q_post], safety="fork",
                         opaque=df_opaque, result="str", search=srch("search_formats"),
                         loops={1: LoopSpec([q_inv], kinds={"in_string": "bool", "in_field": "bool"})},
                         canaries=[lambda ex, env: lift(env["result"]) == z3.StringVal("")]))


    def dq_requires(ex, env):
        s_ = env["date_format"].t
        n = z3.Length(s_)
        i = z3.Int(fresh_name("di"))
        return z3.And(n >= 3, z3.SubString(s_, n - 2, 1) == QUOTE, z3.SubString(s_, n - 1, 1) == QUOTE, z3.Not(ALPHA(QUOTE)),
                      z3.ForAll([i], z3.Implies(z3.And(0 <= i, i < n - 2), ALPHA(z3.SubString(s_, i, 1)))))
    dq_requires.__name__ = "the format is one directive followed by an escaped quote ('')"

    def dq_inv(ex, env):
        s_ = env["date_format"].t
        n, idx = z3.Length(s_), T(env["index"])
        ins, inf = df_bools(env)
        a = z3.SubString(s_, 0, n - 2)
        return z3.And(idx >= 0, z3.Or(idx <= n - 2, idx == n), z3.Not(ins),
                      z3.If(idx <= n - 2, z3.And(lift(env["result"]) == z3.StringVal(""), inf == (idx > 0), z3.Implies(idx > 0, lift(env["field"]) == z3.SubString(s_, 0, idx))),
                            z3.And(z3.Not(inf), lift(env["result"]) == z3.Concat(FLD(a), QUOTE))))

    def dq_post(ex, env):
        s_ = env["date_format"].t
        return lift(env["result"]) == z3.Concat(FLD(z3.SubString(s_, 0, z3.Length(s_) - 2)), QUOTE)
    dq_post.__name__ = "the directive's text comes first, then the quote (a format is the concatenation of its parts)"
    plan.target(Contract("cell:_decode_date_format", label="directive-then-escaped-quote", entry=df_entry, requires=[dq_requires], ensures=[dq_post],
                         safety="fork", opaque=df_opaque, result="str", search=srch("search_formats"),
                         loops={1: LoopSpec([dq_inv], kinds={"in_string": "bool", "in_field": "bool"})}))


    def two_entry(ex):
        env = df_entry(ex)
        env["g_p"] = ex.fresh("int", "separator_position")
        return env

    def two_requires(ex, env):
        s_ = env["date_format"].t
        n, p = z3.Length(s_), env["g_p"].t
        i = z3.Int(fresh_name("ti"))
        c = z3.SubString(s_, p, 1)
        return z3.And(p >= 1, p + 1 < n, z3.Not(ALPHA(c)), c != QUOTE, z3.Not(ALPHA(QUOTE)),
                      z3.ForAll([i], z3.Implies(z3.And(0 <= i, i < n, i != p), ALPHA(z3.SubString(s_, i, 1)))))
    two_requires.__name__ = "the format is directive + one literal character (not a letter, not a quote) + directive"

    def two_inv(ex, env):
        s_ = env["date_format"].t
        n, p, idx = z3.Length(s_), env["g_p"].t, T(env["index"])
        ins, inf = df_bools(env)
        head = z3.Concat(FLD(z3.SubString(s_, 0, p)), z3.SubString(s_, p, 1))
        res, fld = lift(env["result"]), lift(env["field"])
        return z3.And(idx >= 0, idx <= n, z3.Not(ins),
                      z3.If(idx <= p, z3.And(res == z3.StringVal(""), inf == (idx > 0), z3.Implies(idx > 0, fld == z3.SubString(s_, 0, idx))),
                            z3.If(idx == p + 1, z3.And(res == head, z3.Not(inf)),
                                  z3.And(res == head, inf, fld == z3.SubString(s_, p + 1, idx - p - 1)))))

    def two_post(ex, env):
        s_ = env["date_format"].t
        n, p = z3.Length(s_), env["g_p"].t
        return lift(env["result"]) == z3.Concat(FLD(z3.SubString(s_, 0, p)), z3.SubString(s_, p, 1), FLD(z3.SubString(s_, p + 1, n - p - 1)))
    two_post.__name__ = "the result is directive text + the literal character + directive text, in that order"
    plan.target(Contract("cell:_decode_date_format", label="directive-literal-directive", entry=two_entry, requires=[two_requires], ensures=[two_post],
                         safety="fork", opaque=df_opaque, result="str", search=srch("search_formats"),
                         loops={1: LoopSpec([two_inv], kinds={"in_string": "bool", "in_field": "bool"})}))


    # ------------------------------------------------------------------ the directive table
    DEPENDS = {"a": {"hour"}, "k": {"hour"}, "kk": {"hour"}, "K": {"hour"}, "KK": {"hour"}, "mm": {"minute"}, "m": {"minute"}, "s": {"second"},
               "S": {"microsecond"}, "SS": {"microsecond"}, "SSS": {"microsecond"}, "SSSS": {"microsecond"}, "SSSSS": {"microsecond"},
               "DDD": {"date"}, "DD": {"date"}, "D": {"date"}, "W": {"date"}, "F": {"date"}}
    STRF = {"%p": "hour", "%A": "date", "%a": "date", "%Y": "year", "%y": "year", "%B": "month", "%b": "month", "%m": "month", "%-m": "month",
            "%-d": "day", "%d": "day", "%H": "hour", "%-H": "hour", "%I": "hour", "%-I": "hour", "%S": "second", "%W": "date"}
    HELPERS = {"_day_of_year": "date", "_week_of_month": "date", "_days_occurred_in_month": "date"}
    DOC = {"EEEE": "date", "EEE": "date", "yyyy": "year", "yy": "year", "y": "year", "MMMM": "month", "MMM": "month", "MM": "month", "M": "month",
           "d": "day", "dd": "day", "HH": "hour", "H": "hour", "hh": "hour", "h": "hour", "ss": "second", "ww": "date"}

    def table_dependencies():
        node = extract.module_assign("constants", "DATETIME_FIELD_MAP")
        if not (isinstance(node, ast.Call) and node.args and isinstance(node.args[0], ast.List)):
            return False, "anchor lost: DATETIME_FIELD_MAP is not OrderedDict([...])", 0
        bad, n = [], 0
        for el in node.args[0].elts:
            key, val = el.elts[0].value, el.elts[1]
            n += 1
            if isinstance(val, ast.Constant):
                if key == "G":
                    continue
                got = {STRF.get(val.value, "?" + str(val.value))}
                want = {DOC.get(key, "?")}
            else:
                got = set()
                for sub in ast.walk(val):
                    if isinstance(sub, ast.Attribute) and isinstance(sub.value, ast.Name) and sub.value.id == "x":
                        if sub.attr == "strftime":
                            continue
                        got.add(sub.attr)
                    if isinstance(sub, ast.Call) and isinstance(sub.func, ast.Name) and sub.func.id in HELPERS:
                        got.add(HELPERS[sub.func.id])
                    if isinstance(sub, ast.Constant) and isinstance(sub.value, str) and sub.value.startswith("%"):
                        got.add(STRF.get(sub.value, "?" + sub.value))
                want = DEPENDS.get(key, {"?"})
            if not got <= want or not got:
                bad.append(f"{key}: reads {sorted(got)}, its documented meaning depends on {sorted(want)}")
        return (not bad), bad[:5], n
    plan.ground.append(("directives-read-only-their-field", table_dependencies))

    def native_ground(fn):
        def run():
            from pyvc.run import native_call
            res = native_call({"custom": fn, "native_module": plan.native_module})
            if "violated" not in res:
                return False, f"native ground check {fn} did not run: {str(res)[:300]}", 0
            return (not res["violated"]), res.get("detail", ""), res.get("count", 0)
        return run
    plan.ground.append(("every-directive-over-its-whole-field-domain", native_ground("ground_directives")))

    def post_init_uses_table():
        fi = extract.find_function("cell:Formatting.__post_init__")
        ok = any(isinstance(n, ast.Compare) and isinstance(n.ops[0], ast.NotIn) and ast.unparse(n.comparators[0]) == "DATETIME_FIELD_MAP"
                 for n in ast.walk(fi.node))
        return ok, "" if ok else "Formatting.__post_init__ no longer validates each alphabetic run of the format against DATETIME_FIELD_MAP", 1
    plan.ground.append(("format-validation-uses-the-directive-table", post_init_uses_table))

    plan.bounded.append(BoundedStandIn(
        "dates-and-durations", "c14_datetime.py", [], thorough_args=["--level", "2"],
        bound="every directive over its field domain (24 hours x 2 minutes, 60 minutes, 60 seconds, every day of 33 years incl. the century years "
              "1700..2400, year 1 and 9999, 12 sampled years, 17 sub-second values); 3200 (thorough 16000) random compositions of 1..7 parts (directives, literal punctuation/digits/non-ASCII, "
              "quoted text with escaped quotes) against the concatenation of the parts; durations: 3 styles x all 21 largest/smallest unit pairs + "
              "automatic units x 30 boundary values and 300+ (thorough 2000+) random values over 0..10 years at millisecond resolution, displayed "
              "text parsed back unit by unit and compared with the duration truncated to the smallest unit shown",
        functions=["_decode_date_format", "_decode_date_format_field", "DATETIME_FIELD_MAP", "Cell._duration_format", "_auto_units", "_unit_format"]))
    plan.assumptions += [
        "_auto_units is proved for whole numbers of seconds (Python ints); fractional values take the millisecond branch (stand-in)",
        "A-REAL (fractional labels of _duration_format and _auto_units): floats as mathematical reals - + - * / exact, round() round-half-even, int() "
        "truncation, math.floor the real floor; the rounding error of each machine operation is assumed away (pyvc/realfloat.py)",
        "_duration_format is proved for whole numbers of seconds 0 <= d < 2**53 (a float holding a whole number is modelled as a Python int), explicit units, "
        "short and long style; lemma FDIV-TRUNC (int(a / b) == a // b for such integers) is assumed, with its argument; and, under A-REAL, for every duration >= 0 (milliseconds to the nearest); automatic "
        "units composed with _auto_units, the compact style and the effect of machine rounding on fractional durations: bounded stand-in",
        "the documented meanings are those of docs/api/datetime.rst (y: the full year, as corrected by fix: e49d46d); strftime locale is C/English",
        "the format parser and _duration_format are not under contract (string induction / float division): bounded stand-in with an independent oracle",
    ]
    plan.trusted += ["pyvc AST->SMT translation (cross-checked against CPython)", "z3 5.1.0", "cvc5 1.0.3"]
    plan.level = "other"
    plan.explanation = ("Mixed: _auto_units (all whole seconds) and _unit_format (all values, styles) are proved; the directive table is checked "
                        "completely over each directive's field domain together with a syntactic proof that each lambda reads only that field; the "
                        "format parser and the float arithmetic of _duration_format are a bounded stand-in with an independent oracle.")
    return plan

"""C16 - the readers of the stored sizes under contract (floats as reals: pyvc/realfloat.py, assumption A-REAL).

    row_height(table, row)  (nothing cached, no height passed) == floor(round_half_even(s) + b)
        where s = the stored size of the row's header record if there is one and it is not 0.0, else the table's default row height,
        and b = row_border_height(table, row); the result is cached for (table, row).   col_width likewise.

This is the "reader's formula" lemma GEOMETRY-STABLE is stated over: with it the chain  writer contract -> lemma -> reader contract  is
closed over the real code on both sides."""
import z3

from pyvc.ctx import Contract
from pyvc.sym import Custom, PObj, PDict, PList, SFloat, SInt, SBool, Unsupported, fresh_name, wrap, as_int_term, is_intlike, FloatS
from pyvc import realfloat as RF


def T(v):
    return as_int_term(v)


def add(plan, ctx, srch):
    RF.install(ctx)
    from pyvc.ctx import _SpecCallable
    ctx.extra_globals["floor"] = _SpecCallable(lambda ex_, v: RF.floor_model(ex_, [v], {}, 0))  # math.floor: greatest integer not above the real value

    class HeaderMap(Custom):
        """{x.index: x for x in buckets}: whether the line has a header record, and that record"""
        def __init__(self, has, size):
            self.has, self.size = has, size

        def contains(self, ex, key):
            return self.has.t

        def getitem(self, ex, idx, line):
            return PObj("HeaderV", {"size": self.size, "index": idx})

    class SizeCache(Custom):
        """self._row_heights / self._col_widths with nothing cached for this table yet"""
        def __init__(self):
            self.stored = None

        def contains(self, ex, key):
            return self.stored is not None

        def setitem(self, ex, key, v, line):
            if isinstance(v, PDict) and not v.d and v.sym is None:
                self.stored = {}
                return
            raise Unsupported("cache[table] = something else than {}")

        def getitem(self, ex, idx, line):
            outer = self

            class Inner(Custom):
                def setitem(self_, ex_, k, v, l):
                    outer.stored[("line", str(T(k)))] = (k, v)

                def getitem(self_, ex_, k, l):
                    for kk, vv in outer.stored.values():
                        if T(kk).eq(T(k)):
                            return vv
                    raise Unsupported("read of a cache entry that was not stored on this path")

                def contains(self_, ex_, k):
                    return any(T(kk).eq(T(k)) for kk, _ in outer.stored.values())
            if self.stored is None:
                raise Unsupported("cache[table] before it exists")
            return Inner()

    def reader_entry(axis):
        line, cache, default, border = {"row": ("row", "_row_heights", "default_row_height", "row_border_height"),
                                        "col": ("col", "_col_widths", "default_column_width", "col_border_width")}[axis]

        def entry(ex):
            table_id, ln = ex.fresh("int", "table_id"), ex.fresh("int", line)
            has = ex.fresh("bool", "has_header_record")
            size, dflt, b = ex.fresh("float", "stored_size"), ex.fresh("float", "default_size"), ex.fresh("float", "border_allowance")
            ex.assume(z3.And(RF.RV(b.t) >= 0, RF.RV(size.t) >= 0, RF.RV(dflt.t) >= 0))
            hmap = HeaderMap(has, size)
            bucket_ref = PObj("ReferenceV", {"identifier": ex.fresh("int", "bucket_id")})
            bds = PObj("BDSV", {"rowHeaders": PObj("RowHeadersV", {"buckets": PList([bucket_ref])}), "columnHeaders": bucket_ref})
            table = PObj("TableModelV", {"base_data_store": bds, default: dflt})
            bucket = PObj("BucketV", {"headers": PObj("HeaderListV", {"g_map": hmap})})

            class Objs(Custom):
                def getitem(self_, ex_, idx, l):
                    if T(idx).eq(T(table_id)):
                        return table
                    if T(idx).eq(T(bucket_ref.fields["identifier"])):
                        return bucket
                    raise Unsupported("objects[...] with an unrelated key")
            sc = SizeCache()
            model = PObj("ModelRD", {"objects": Objs(), cache: sc, "g_border": b})
            env = {"self": model, "table_id": table_id, line: ln, "g_has": has, "g_size": size, "g_default": dflt, "g_b": b, "g_cache": sc}
            env["height" if axis == "row" else "width"] = None
            return env
        return entry, line, cache, border

    mm = ctx.method_models = getattr(ctx, "method_models", {})
    mm[("ModelRD", "row_border_height")] = lambda ex, o, a, k, l: o.fields["g_border"]
    mm[("ModelRD", "col_border_width")] = lambda ex, o, a, k, l: o.fields["g_border"]

    def reader_post(axis):
        def post(ex, env):
            r = env["result"]
            if not is_intlike(r):
                return z3.BoolVal(False)
            s, d, b = RF.RV(env["g_size"].t), RF.RV(env["g_default"].t), RF.RV(env["g_b"].t)
            used = z3.If(z3.And(env["g_has"].t, s != 0), s, d)
            want = RF.FLOOR(z3.ToReal(RF.RHE(used)) + b)
            stored = env["g_cache"].stored or {}
            cached = [vv for kk, vv in stored.values()]
            ok_cache = len(cached) == 1 and is_intlike(cached[0])
            return z3.And(z3.BoolVal(ok_cache), T(r) == want, T(cached[0]) == T(r) if ok_cache else z3.BoolVal(False))
        post.__name__ = ("result == floor(round_half_even(stored size of the line's header record if it has one and it is not 0.0, else the table default) + "
                         "border allowance), and that value is what is cached for the line")
        return post
    out = []
    for axis, fname in (("row", "row_height"), ("col", "col_width")):
        entry, line, cache, border = reader_entry(axis)
        key = "{x.index: x for x in buckets}"
        c = Contract(f"model:_NumbersModel.{fname}", label="read", entry=entry, ensures=[reader_post(axis)], safety="fork", search=srch,
                     opaque={key: lambda ex, env: env["buckets"].fields["g_map"]})
        plan.target(c)
        out.append(c)
    return out

"""C09 - References in formulas name exactly the stored target cells and table.

Kernels (contract-based, real source):
  * model.node_to_ref: each coordinate is the stored value if absolute, host + stored offset if relative; '$' flags are
    the sticky bits; begin/end not swapped (cell nodes and rectangle tracts);
  * CellRange.expand_ref (numeric references): the qualification chosen is '' / 'T::' / 'S::T::' by the spec cases;
  * lemma RESOLVE (for ANY number of sheets and tables, names unique among siblings): the chosen prefix resolves to
    exactly the stored table and no shorter prefix does ("just enough");
  * CellRange._format_cell_range: the text is prefix + A1(start)[:A1(end)] by xl_rowcol_to_cell's C10 contract.
Header-label scoping and histories (renames, relabelling): bounded stand-in with an independent resolver.
"""
import os

import z3

from pyvc.ctx import VerifCtx, Contract, LoopSpec
from pyvc.plan import Plan, Lemma, BoundedStandIn
from pyvc.sym import (Custom, Int, Str, PObj, PList, SInt, SStr, SBool, SOpt, Unsupported, fresh_name, lift, wrap, as_int_term, is_intlike,
                      py_str)

SV = z3.StringVal


def T(v):
    return as_int_term(v) if is_intlike(v) else lift(v)


def B(v):
    return v.t if isinstance(v, SBool) else z3.BoolVal(bool(v))


def build():
    from contracts import C10
    p10 = C10.build()
    ctx = p10.ctx
    plan = Plan("C09", ctx)
    for lem in p10.lemmas:
        ctx.lemmas[lem.name] = lem
    plan.native_module = os.path.join(os.path.dirname(__file__), "C09_native.py")

    ctx.constructors["CellRange"] = lambda ex, args, kwargs, line: PObj("CellRangeValue", dict(kwargs))
    ctx.method_models = getattr(ctx, "method_models", {})

    # ------------------------------------------------------------------ node_to_ref: single cell
    def cell_entry(ex):
        node = PObj("ASTNode", {"AST_row": PObj("ASTRow", {"row": ex.fresh("int", "srow"), "absolute": ex.fresh("bool", "rabs")}),
                                "AST_column": PObj("ASTCol", {"column": ex.fresh("int", "scol"), "absolute": ex.fresh("bool", "cabs")}),
                                "__has__": {"AST_row", "AST_column"}})
        return {"self": PObj("_NumbersModel", {}), "table_id": ex.fresh("int", "tid"), "row": ex.fresh("int", "hrow"),
                "col": ex.fresh("int", "hcol"), "node": node}
    ctx.method_models[("ASTNode", "HasField")] = lambda ex, o, a, k, l: a[0] in o.fields["__has__"]
    ctx.method_models[("IndexEntry", "HasField")] = lambda ex, o, a, k, l: a[0] in o.fields["__has__"]

    def cell_post(ex, env):
        r = env["result"].fields
        n = env["node"].fields
        sr, ra = T(n["AST_row"].fields["row"]), B(n["AST_row"].fields["absolute"])
        sc, ca = T(n["AST_column"].fields["column"]), B(n["AST_column"].fields["absolute"])
        return z3.And(T(r["row_start"]) == z3.If(ra, sr, T(env["row"]) + sr), T(r["col_start"]) == z3.If(ca, sc, T(env["col"]) + sc),
                      B(r["row_start_is_abs"]) == ra, B(r["col_start_is_abs"]) == ca, T(r["from_table_id"]) == T(env["table_id"]),
                      z3.BoolVal(r.get("to_table_id") is None and "row_end" not in r and "col_end" not in r))
    cell_post.__name__ = ("row = stored row if absolute else host row + stored offset (same for the column); '$' flags are the "
                          "stored absolute bits; a single cell has no end-point")
    plan.target(Contract("model:_NumbersModel.node_to_ref", label="cell", entry=cell_entry, ensures=[cell_post], safety="fork",
                         canaries=[lambda ex, env: T(env["result"].fields["row_start"]) == T(env["col"]) + T(env["node"].fields["AST_column"].fields["column"])]))

    # ------------------------------------------------------------------ node_to_ref: rectangle tracts
    def tract_entry(kind, with_end=True):
        def entry(ex):
            def ent(tag, with_end=with_end):
                f = {"range_begin": ex.fresh("int", tag + "_b"), "__has__": {"range_begin"} | ({"range_end"} if with_end else set())}
                if with_end:
                    f["range_end"] = ex.fresh("int", tag + "_e")
                return PObj("IndexEntry", f)
            rel = kind == "relative"
            tract = PObj("Tract", {"relative_row": PList([ent("rr")] if rel else []), "relative_column": PList([ent("rc")] if rel else []),
                                   "absolute_row": PList([] if rel else [ent("ar")]), "absolute_column": PList([] if rel else [ent("ac")])})
            bits = {k: (not rel) for k in ("begin_row_is_absolute", "end_row_is_absolute", "begin_column_is_absolute", "end_column_is_absolute")}
            node = PObj("ASTNode", {"AST_colon_tract": tract, "AST_sticky_bits": PObj("Sticky", bits), "__has__": {"AST_colon_tract"}})
            env = {"self": PObj("_NumbersModel", {}), "table_id": ex.fresh("int", "tid"), "row": ex.fresh("int", "hrow"),
                   "col": ex.fresh("int", "hcol"), "node": node}
            # stored coordinates are real positions (not the 'open end' sentinels)
            for lst, mx in (("relative_row", 0x7FFFFFFF), ("absolute_row", 0x7FFFFFFF), ("relative_column", 0x7FFF), ("absolute_column", 0x7FFF)):
                for e in tract.fields[lst].items:
                    for fld in ("range_begin", "range_end") if with_end else ("range_begin",):
                        off = T(env["row"] if "row" in lst else env["col"]) if lst.startswith("relative") else 0
                        ex.assume(z3.And(T(e.fields[fld]) + off >= 0, T(e.fields[fld]) + off < (1000000 if "row" in lst else 1000)))
            return env
        return entry

    def tract_post(kind, with_end=True):
        def post(ex, env):
            end = "range_end" if with_end else "range_begin"  # an entry without range_end is a single row/column
            r = env["result"].fields
            t = env["node"].fields["AST_colon_tract"].fields
            rel = kind == "relative"
            rr, rc = (t["relative_row"].items[0], t["relative_column"].items[0]) if rel else (t["absolute_row"].items[0], t["absolute_column"].items[0])
            ro, co = (T(env["row"]), T(env["col"])) if rel else (z3.IntVal(0), z3.IntVal(0))
            if any(r[k] is None for k in ("row_start", "row_end", "col_start", "col_end")):
                return z3.BoolVal(False)  # an 'open end' result: excluded by the entry assumptions, so this path must be infeasible
            return z3.And(T(r["row_start"]) == ro + T(rr.fields["range_begin"]), T(r["row_end"]) == ro + T(rr.fields[end]),
                          T(r["col_start"]) == co + T(rc.fields["range_begin"]), T(r["col_end"]) == co + T(rc.fields[end]),
                          *[B(r[k]) == z3.BoolVal(not rel) for k in ("row_start_is_abs", "row_end_is_abs", "col_start_is_abs", "col_end_is_abs")])
        post.__name__ = f"{kind} rectangle: begin/end rows and columns resolved from the stored begin/end (not swapped), flags copied"
        return post

    inl = {"model:_NumbersModel.node_to_ref.resolve_range", "model:_NumbersModel.node_to_ref.resolve_range_end", "model:range_end",
           "model:resolve_range", "model:resolve_range_end"}
    for kind in ("relative", "absolute"):
        for we in (True, False):
            plan.target(Contract("model:_NumbersModel.node_to_ref", label=f"rect-{kind}" + ("" if we else "-single"), entry=tract_entry(kind, we),
                                 ensures=[tract_post(kind, we)], safety="fork", inline=inl))

    # ------------------------------------------------------------------ expand_ref: the qualification
    class UniqueView(Custom):
        def __init__(self, tname, uniq):
            self.tname, self.uniq = tname, uniq

        def getitem(self, ex, idx, line):
            ex.oblige(f"table_name_unique[key]@L{line}: key is the target table's name", lift(idx) == self.tname, "lookup", line)
            return wrap(self.uniq)

    def er_entry(ex):
        tn, sn = ex.fresh("str", "table_name"), ex.fresh("str", "sheet_name")
        uniq = z3.Bool(fresh_name("table_name_unique_in_document"))
        model = PObj("_NumbersModel", {"name_ref_cache": PObj("Cache", {})})
        self = PObj("CellRange", {"model": model, "from_table_id": ex.fresh("int", "from_tid"), "to_table_id": ex.fresh("int", "to_tid"),
                                  "from_sheet_id": ex.fresh("int", "from_sid"), "to_sheet_id": ex.fresh("int", "to_sid"),
                                  "table_name_unique": UniqueView(tn.t, uniq)})
        return {"self": self, "ref": ex.fresh("str", "ref"), "is_abs": ex.fresh("bool", "is_abs"), "no_prefix": ex.fresh("bool", "no_prefix"),
                "g_tn": tn, "g_sn": sn, "g_uniq": SBool(uniq)}
    ctx.method_models[("Cache", "refresh")] = lambda ex, o, a, k, l: None
    ctx.method_models[("_NumbersModel", "table_name")] = lambda ex, o, a, k, l: ex.entry_env["g_tn"]
    ctx.method_models[("_NumbersModel", "sheet_name")] = lambda ex, o, a, k, l: ex.entry_env["g_sn"]

    def er_post(ex, env):
        s = env["self"].fields
        q = lift(env["__final__"]["ref_str"])
        same_table = T(s["from_table_id"]) == T(s["to_table_id"])
        same_sheet = T(s["from_sheet_id"]) == T(s["to_sheet_id"])
        tn, sn = env["g_tn"].t, env["g_sn"].t
        prefix = z3.If(z3.Or(B(env["no_prefix"]), same_table), SV(""),
                       z3.If(z3.Or(same_sheet, env["g_uniq"].t), z3.Concat(tn, SV("::")), z3.Concat(sn, SV("::"), tn, SV("::"))))
        return lift(env["result"]) == z3.Concat(prefix, q)
    er_post.__name__ = ("result == prefix + (quoted) reference, prefix == '' if no_prefix or same table; 'T::' if same sheet or the table "
                        "name is unique in the document; 'S::T::' otherwise")

    plan.target(Contract("xrefs:CellRange.expand_ref", label="numeric", entry=er_entry, ensures=[er_post], safety="fork", result="str"))

    # ------------------------------------------------------------------ _format_cell_range: prefix + A1(start)[:A1(end)]
    XP = z3.Function("expand_ref_result", Str, z3.BoolSort(), Str)  # expand_ref(ref, no_prefix=...) for the fixed receiver
    ctx.extra_globals["XP"] = None

    def xp_model(ex, o, a, k, l):
        if len(a) != 1 or set(k) - {"no_prefix"}:
            raise Unsupported(f"expand_ref call shape at L{l}")
        return wrap(XP(lift(a[0]), B(k.get("no_prefix", False))))
    from pyvc.ctx import _SpecCallable
    ctx.extra_globals["XP"] = _SpecCallable(lambda ex_, r_, np_: wrap(XP(lift(r_), B(np_))))
    ENC = '("$" if {ca} else "") + colname({c}) + ("$" if {ra} else "") + str({r} + 1)'

    def fcr_entry(ex):
        self = PObj("CellRangeFmt", {k: ex.fresh("bool", k) for k in ("row_start_is_abs", "col_start_is_abs", "row_end_is_abs", "col_end_is_abs")})
        return {"self": self, "row_start": ex.fresh("int", "row_start"), "col_start": ex.fresh("int", "col_start"),
                "row_end": ex.fresh("optint", "row_end"),
                "col_end": ex.fresh("optint", "col_end")}
    ctx.method_models[("CellRangeFmt", "expand_ref")] = xp_model
    a1s = ENC.format(r="row_start", c="col_start", ra="self.row_start_is_abs", ca="self.col_start_is_abs")
    a1e = ENC.format(r="val(row_end)", c="val(col_end)", ra="self.row_end_is_abs", ca="self.col_end_is_abs")
    plan.target(Contract(
        "xrefs:CellRange._format_cell_range", entry=fcr_entry,
        requires=["0 <= row_start and 0 <= col_start < 2**20",
                  "implies(not isnone(row_end), val(row_end) >= 0)", "implies(not isnone(col_end), 0 <= val(col_end) < 2**20)"],
        ensures=[f"implies(isnone(row_end) or isnone(col_end), result == XP({a1s}, False))",
                 f"implies(not (isnone(row_end) or isnone(col_end)), result == XP({a1s}, False) + ':' + XP({a1e}, True))"],
        safety="fork", result="str",
        canaries=[f"implies(not (isnone(row_end) or isnone(col_end)), result == XP({a1s}, False) + ':' + XP({a1e}, False))"]))

    # ------------------------------------------------------------------ row / column spans by header label: when the prefix may be dropped
    # A span `first:last` printed by labels carries the table qualification on its first end-point unless one of the two labels is
    # unique in the whole DOCUMENT (then the text pins the table by itself); the second end-point never carries one.  A label that is
    # unique only within its sheet or table does not allow dropping it: the same label may exist on the host's side.
    import ast as _ast
    from pyvc import extract as _ex
    _scopes = {}
    for _n in _ast.walk(_ast.parse(open(os.path.join(_ex.SRC, "xrefs.py")).read())):
        if isinstance(_n, _ast.ClassDef) and _n.name == "RefScope":
            _scopes = {t.targets[0].id: t.value.value for t in _n.body if isinstance(t, _ast.Assign) and isinstance(t.value, _ast.Constant)}
    if not {"DOCUMENT", "SHEET", "TABLE"} <= set(_scopes):
        raise _ex.ExtractError(f"xrefs.RefScope is {_scopes}: the span contracts are written for the scopes DOCUMENT, SHEET, TABLE")
    ctx.extra_globals["RefScope"] = PObj("enum", dict(_scopes))
    DOC_SCOPE = _scopes["DOCUMENT"]

    class LabelRange(Custom):
        def __init__(self, a, b, ra, rb):
            self.a, self.b, self.ra, self.rb = a, b, ra, rb

        def getitem(self, ex, idx, line):
            if T(idx).eq(T(self.a)):
                return self.ra
            if T(idx).eq(T(self.b)):
                return self.rb
            ex.oblige(f"span-end-points@L{line}: only the labels of the span's own end-points are read", z3.BoolVal(False), "ghost", line)
            raise Unsupported("label of a row/column that is not an end-point of the span")

    def span_entry(axis):
        def entry(ex):
            a, b = ex.fresh("int", f"{axis}_start"), ex.fresh("int", f"{axis}_end")
            ra = PObj("ScopedNameRef", {"scope": ex.fresh("int", "scope_of_first_label"), "name": ex.fresh("str", "first_label")})
            rb = PObj("ScopedNameRef", {"scope": ex.fresh("int", "scope_of_last_label"), "name": ex.fresh("str", "last_label")})
            for r_ in (ra, rb):
                ex.assume(z3.Or(*[T(r_.fields["scope"]) == v for v in _scopes.values()]))
            self = PObj("CellRangeSpan", {f"{axis}_start_is_abs": ex.fresh("bool", "start_abs"), f"{axis}_end_is_abs": ex.fresh("bool", "end_abs"), "g_calls": []})
            return {"self": self, f"{axis}_start": a, f"{axis}_end": b, f"{axis}_range": LabelRange(a, b, ra, rb), "g_ra": ra, "g_rb": rb}
        return entry

    def span_expand(ex, o, a, k, l):
        o.fields["g_calls"].append((a[0], a[1] if len(a) > 1 else k.get("is_abs", False), k.get("no_prefix", a[2] if len(a) > 2 else False)))
        return SStr(z3.String(fresh_name("expanded")))
    ctx.method_models[("CellRangeSpan", "expand_ref")] = span_expand

    def span_post(axis):
        def post(ex, env):
            calls = env["self"].fields["g_calls"]
            if len(calls) != 2 or calls[0][0] is not env["g_ra"] or calls[1][0] is not env["g_rb"]:
                return z3.BoolVal(False)
            doc_unique = z3.Or(T(env["g_ra"].fields["scope"]) == DOC_SCOPE, T(env["g_rb"].fields["scope"]) == DOC_SCOPE)
            return z3.And(B(calls[0][2]) == doc_unique, B(calls[1][2]), B(calls[0][1]) == B(env["self"].fields[f"{axis}_start_is_abs"]),
                          B(calls[1][1]) == B(env["self"].fields[f"{axis}_end_is_abs"]))
        post.__name__ = ("the first label is expanded without qualification iff one of the two labels is document-unique; the second always without; "
                         "each with its own '$' flag")
        return post
    plan.target(Contract("xrefs:CellRange._format_row_span", label="labels", entry=span_entry("row"), ensures=[span_post("row")], safety="fork"))
    plan.target(Contract("xrefs:CellRange._format_column_span", label="labels", entry=span_entry("col"), ensures=[span_post("col")], safety="fork"))

    # a span is printed by names only when BOTH ends have a usable one: with one end unnamed (its label is repeated in the table) both ends
    # are printed by row number / column letter - and nothing of the missing name is dereferenced (no exception)
    def span_entry_one_unnamed(axis, which):
        base = span_entry(axis)

        def entry(ex):
            env = base(ex)
            rng = env[f"{axis}_range"]
            if which == "first":
                rng.ra = None
            else:
                rng.rb = None
            ex.assume(z3.And(T(env[f"{axis}_start"]) >= 0, T(env[f"{axis}_end"]) >= 0, T(env[f"{axis}_start"]) < 2 ** 20, T(env[f"{axis}_end"]) < 2 ** 20))
            return env
        return entry

    def numeric_post(axis):
        def post(ex, env):
            calls = env["self"].fields["g_calls"]
            if len(calls) != 2:
                return z3.BoolVal(False)
            named = [c for c in calls if isinstance(c[0], PObj) and c[0].cls == "ScopedNameRef"]
            return z3.And(z3.BoolVal(not named), B(calls[1][2]), z3.Not(B(calls[0][2])))
        post.__name__ = "both ends are expanded from their row number / column letter (no label is used), the first qualified as needed, the second without qualification"
        return post
    plan.callee(Contract("xrefs:xl_col_to_name", label="text", model=lambda ex, a, k, l: SStr(z3.String(fresh_name("column_letters"))), when=lambda a: True,
                         note="ghost model used by the span contracts only: some column text (xl_col_to_name itself is C10's contract)"))
    for axis_, fn_ in (("row", "_format_row_span"), ("col", "_format_column_span")):
        for which in ("first", "last"):
            plan.target(Contract(f"xrefs:CellRange.{fn_}", label=f"{which}-end-unnamed", entry=span_entry_one_unnamed(axis_, which), ensures=[numeric_post(axis_)],
                                 safety="fork", use_labels={"xrefs:xl_col_to_name": "text"}))

    # ------------------------------------------------------------------ lemma RESOLVE: the prefix names exactly the target
    Tbl = z3.DeclareSort("Table")
    Sht = z3.DeclareSort("Sheet")
    sheet = z3.Function("sheet_of", Tbl, Sht)
    tname = z3.Function("table_name_of", Tbl, Str)
    sname = z3.Function("sheet_name_of", Sht, Str)
    h, to, x, y = z3.Const("host", Tbl), z3.Const("target", Tbl), z3.Const("x", Tbl), z3.Const("y", Tbl)
    s1, s2 = z3.Const("s1", Sht), z3.Const("s2", Sht)
    U = [z3.ForAll([x, y], z3.Implies(z3.And(sheet(x) == sheet(y), tname(x) == tname(y)), x == y)),  # C19's invariant U (exact names)
         z3.ForAll([s1, s2], z3.Implies(sname(s1) == sname(s2), s1 == s2))]
    uniq_doc = z3.ForAll([x], z3.Implies(tname(x) == tname(to), x == to))

    def res_T(name, r):  # 'T::' from host h resolves to r
        local = z3.Exists([y], z3.And(sheet(y) == sheet(h), tname(y) == name))
        return z3.If(local, z3.And(sheet(r) == sheet(h), tname(r) == name), tname(r) == name)

    def res_ST(sn, tn_, r):
        return z3.And(sname(sheet(r)) == sn, tname(r) == tn_)
    r = z3.Const("r", Tbl)
    plan.lemma(Lemma("RESOLVE-T", "same sheet or document-unique table name: 'T::' resolves only to the stored table",
                     [("only-target", U + [to != h, z3.Or(sheet(to) == sheet(h), uniq_doc), res_T(tname(to), r)], r == to),
                      ("target-resolves", U + [to != h, z3.Or(sheet(to) == sheet(h), uniq_doc)], res_T(tname(to), to))]))
    plan.lemma(Lemma("RESOLVE-ST", "'S::T::' resolves only to the stored table",
                     [("only-target", U + [res_ST(sname(sheet(to)), tname(to), r)], r == to),
                      ("target-resolves", U, res_ST(sname(sheet(to)), tname(to), to))]))
    plan.lemma(Lemma("JUST-ENOUGH", "when 'S::T::' is chosen (other sheet, name not unique in the document) 'T::' does not pin the target",
                     [("shorter-fails", U + [sheet(to) != sheet(h), z3.Not(uniq_doc)],
                       z3.Exists([r], z3.And(r != to, res_T(tname(to), r))))]))


    # ------------------------------------------------------------------ _initialize_table_data: uniqueness is decided over ALL tables of the document
    def itd_entry(ex):
        names = PObj("AllTableNamesOfTheDocument", {})
        model = PObj("ModelN", {"g_names": names})
        return {"self": PObj("CellRangeN", {"model": model, "_table_names": None}), "g_names": names}
    ctx.method_models[("ModelN", "table_names")] = lambda ex, o, a, k, l: o.fields["g_names"]

    def unique_map(ex, env):
        src = env["self"].fields.get("_table_names")
        ex.oblige("uniqueness-counted-over-every-table-of-the-document", z3.BoolVal(src is ex.entry_env["g_names"]), "ghost", 0)
        return PObj("UniqueMap", {"source": src})

    def itd_post(ex, env):
        f = env["self"].fields
        ok = f.get("_table_names") is env["g_names"] and isinstance(f.get("table_name_unique"), PObj) and f["table_name_unique"].fields["source"] is env["g_names"]
        return z3.BoolVal(ok)
    itd_post.__name__ = ("table_name_unique maps each table name of the WHOLE document (model.table_names()) to 'occurs exactly once in that list': the "
                         "'T::' qualification is chosen only when no other table of the document has the name (hypothesis of lemma RESOLVE-T)")
    plan.target(Contract("xrefs:CellRange._initialize_table_data", entry=itd_entry, ensures=[itd_post], safety="fork",
                         opaque={"{name: self._table_names.count(name) == 1 for name in self._table_names}": unique_map}))

    # ------------------------------------------------------------------ header labels: which cell names a column / a row
    # _column_data(table, col) is the displayed text of the cell in the BOTTOM header row of that column, _row_data(table, row) that of
    # the cell in the LAST header column of that row (the cell adjacent to the body), for any number of header rows / columns.
    LBL = z3.Function("C09_LABEL", Int, Int, Int, Str)   # table id, row, col -> displayed text of the cell

    class LabelRowV(Custom):
        def __init__(self, tid, row):
            self.tid, self.row = tid, row

        def getitem(self, ex, idx, line):
            return PObj("CellV", {"formatted_value": SStr(LBL(self.tid, self.row, T(idx)))})

    class LabelGridV(Custom):
        def __init__(self, tid):
            self.tid = tid

        def getitem(self, ex, idx, line):
            return LabelRowV(self.tid, T(idx))

    class TableDataV(Custom):
        def getitem(self, ex, idx, line):
            return LabelGridV(T(idx))

    def lbl_entry(which):
        def entry(ex):
            nhr, nhc = ex.fresh("int", "num_header_rows"), ex.fresh("int", "num_header_cols")
            ex.assume(z3.And(T(nhr) >= 1, T(nhc) >= 1))
            env = {"self": PObj("NameCacheV", {"model": PObj("ModelL", {"_table_data": TableDataV(), "g_nhr": nhr, "g_nhc": nhc})}),
                   "table_id": ex.fresh("int", "table_id"), which: ex.fresh("int", which), "g_nhr": nhr, "g_nhc": nhc}
            ex.assume(T(env[which]) >= 0)
            return env
        return entry
    ctx.method_models[("ModelL", "num_header_rows")] = lambda ex, o, a, k, l: o.fields["g_nhr"]
    ctx.method_models[("ModelL", "num_header_cols")] = lambda ex, o, a, k, l: o.fields["g_nhc"]
    srch_lbl = lambda plan_, c: {"custom": "search_labels", "native_module": plan_.native_module}
    plan.target(Contract("xrefs:ScopedNameRefCache._column_data", entry=lbl_entry("col"), safety="fork", search=srch_lbl,
                         ensures=[lambda ex, env: lift(env["result"]) == LBL(T(env["table_id"]), T(env["g_nhr"]) - 1, T(env["col"]))
                                  if isinstance(env["result"], SStr) else z3.BoolVal(False)]))
    plan.target(Contract("xrefs:ScopedNameRefCache._row_data", entry=lbl_entry("row"), safety="fork", search=srch_lbl,
                         ensures=[lambda ex, env: lift(env["result"]) == LBL(T(env["table_id"]), T(env["row"]), T(env["g_nhc"]) - 1)
                                  if isinstance(env["result"], SStr) else z3.BoolVal(False)]))

    # which labels are usable names at all: contracts/C09_scopes.py
    from contracts import C09_scopes
    C09_scopes.add(plan, ctx, lambda plan_, c: {"custom": "search_refs", "native_module": plan_.native_module})

    # header labels are cached: Table.write must invalidate the cache exactly for writes into the header area (C12's Table.write contract, re-verified)
    from contracts import C12
    p12 = C12.build()
    plan.import_targets(p12, lambda c: c.qual == "document:Table.write")

    plan.bounded.append(BoundedStandIn(
        "printed-references", "c09_refs.py", [], thorough_args=["--level", "2"],
        bound="8 (11) naming shapes of 1..3 sheets x 1..3 tables (unique / duplicated across sheets / shared with the host sheet) x "
              "header rows/cols {none, both, rows only} x 4 label sets (unique, duplicated in the table, shared between tables, labels "
              "with operator characters) x every (host, target) pair x 11 reference kinds; + print / rename table or sheet / relabel a "
              "header / print again histories; independent resolver (tiered label lookup, labels unique per table)",
        functions=["model.node_to_ref", "CellRange.__str__/_format_*/expand_ref", "ScopedNameRefCache.*", "Table.write (cache invalidation)",
                   "Sheet/Table name setters"]))
    plan.assumptions += [
        "protobuf nodes as records with HasField; CellRange(...) records its keyword arguments (dataclass; its __post_init__ is model "
        "plumbing); table_name_unique is keyed by the target table's name (checked at the lookup)",
        "RESOLVE lemmas are over uninterpreted naming functions for any number of sheets/tables, with sibling-unique names (C19's U)",
        "cross-table nodes (UUID -> table id), whole-row/column tracts, header-label scoping and quoting of hostile names: bounded stand-in only",
    ]
    plan.trusted += ["pyvc AST->SMT translation (cross-checked against CPython)", "z3 5.1.0 (quantified lemmas)", "cvc5 1.0.3"]
    for c_ in plan.targets:
        if getattr(c_, "search", None) is None and getattr(c_, "home", plan) is plan:
            c_.search = lambda plan_, c: {"custom": "search_refs", "native_module": plan_.native_module}
    plan.level = "other"
    plan.explanation = ('Mixed: coordinate resolution (node_to_ref), the qualification chosen by expand_ref, the A1 text of cell ranges and the resolver lemmas (any number of sheets/tables) are proved; header labels, whole-row/column tracts, quoting and rename/relabel histories are a bounded stand-in with an independent resolver.')
    return plan

"""C15 - Styles and borders applied through the API read back equal, now and after reload.

Kernels (contract-based, real source):
  * CellBorder.{top,right,bottom,left} setters: the slot becomes the new stroke iff it was empty or the new stroke's order is greater;
  * model.add_stroke (prefix that orders the stroke): the stroke's order becomes the sidecar's incremented max_order;
  * Table.set_cell_border: the stroke is ordered (add_stroke) before any cell along it is updated (set_cell_border) - syntactic
    dominance obligation on the real function body;
  * model.set_cell_border: for each side, exactly the cell owning that edge and the neighbour sharing it (opposite side) are updated;
  * lemma LAST-WRITER-WINS over those contracts: with every stored stroke's order <= max_order, a new stroke replaces every slot it touches
    and the bound is kept - so the open document shows the most recent stroke, as the saved file does;
  * Style.__setattr__: assigning a text/cell attribute marks the style for update; Style.from_storage: the returned style carries the
    accessors' values and is NOT marked (reading never changes what is saved);
  * ground (complete): colour channel round trip round((c/255)*255) == c for all 256 values through the real rgb(); font family <-> name
    tables are mutually inverse on every family the library knows.
  * model.add_stroke: per-run cut assertion (any existing run, any new stroke): an existing run never gains a cell, never loses one outside the
    new stroke, split-off pieces are copies of it, it is replaced only by a full copy of a covering stroke; the new stroke ends up in the list.
Style archives, merged cells, reload and whole stroke histories: bounded stand-in with a last-writer-wins edge model.
"""
import ast
import os

import z3

from pyvc.ctx import VerifCtx, Contract, LoopSpec
from pyvc.plan import Plan, Lemma, BoundedStandIn
from pyvc.sym import (Custom, Int, Str, Bool, PObj, PDict, PList, SList, SInt, SStr, SBool, SOpt, SRef, Unsupported, fresh_name, lift, wrap,
                      as_int_term, is_intlike, ClassRef)
from pyvc import extract

SIDES = ("top", "right", "bottom", "left")


def T(v):
    return as_int_term(v) if is_intlike(v) else lift(v)


def build():
    ctx = VerifCtx()
    plan = Plan("C15", ctx)
    plan.native_module = os.path.join(os.path.dirname(__file__), "C15_native.py")
    srch = lambda name: (lambda plan_, c: {"custom": name, "native_module": plan_.native_module})
    ctx.class_fields["Border"] = {"_order": "int"}

    def ORD(ex):
        return ex.heap_array("Border", "_order")

    # ================================================================== CellBorder setters
    def cb_entry(side):
        def entry(ex):
            f = {}
            for s in SIDES:
                f["_" + s] = ex.fresh("optref:Border", "_" + s)
                f[f"_{s}_merged"] = ex.fresh("bool", f"_{s}_merged")
            env = {"self": PObj("CellBorder", f), "value": ex.fresh("ref:Border", "value")}
            for s in SIDES:
                env["g_old_" + s] = f["_" + s]
            return env
        return entry

    def cb_requires(side):
        def req(ex, env):
            f = env["self"].fields
            return z3.Or(z3.Not(lift(f[f"_{side}_merged"])), f["_" + side].isnone)
        req.__name__ = f"the {side} edge is visible (cell_for_stroke never hands out a cell whose {side} is inside a merge)"
        return req

    def cb_post(side):
        def post(ex, env):
            f = env["self"].fields
            old, new, v = env["g_old_" + side], f["_" + side], env["value"]
            takes = z3.Or(old.isnone, z3.Select(ORD(ex), v.t) > z3.Select(ORD(ex), old.val.t))

            def same(a, b):
                if not isinstance(a, SOpt):
                    a = SOpt(z3.BoolVal(False), a)
                if not isinstance(b, SOpt):
                    b = SOpt(z3.BoolVal(False), b)
                return z3.And(a.isnone == b.isnone, z3.Implies(z3.Not(a.isnone), a.val.t == b.val.t))
            others = [same(f["_" + s], env["g_old_" + s]) for s in SIDES if s != side]
            return z3.And(z3.If(takes, same(new, v), same(new, old)), *others)
        post.__name__ = f"_{side} becomes value iff it was empty or value._order > its order; otherwise unchanged; the other three slots unchanged"
        return post

    for side in SIDES:
        plan.target(Contract(f"cell:CellBorder.{side}@setter", entry=cb_entry(side), requires=[cb_requires(side)], ensures=[cb_post(side)],
                             safety="fork", search=srch("search_borders"),
                             inline={f"cell:CellBorder.{side}"},
                             canaries=[lambda ex, env, side=side: (lambda n_: z3.And(z3.Not(n_.isnone), n_.val.t == env["value"].t) if isinstance(n_, SOpt)
                                                                   else n_.t == env["value"].t)(env["self"].fields["_" + side])]))

    # ================================================================== LAST-WRITER-WINS (over the contracts)
    o_old, o_new, mx = z3.Int("order_of_slot"), z3.Int("order_of_new"), z3.Int("max_order")
    empty = z3.Bool("slot_empty")
    takes = z3.Or(empty, o_new > o_old)
    plan.lemma(Lemma("LAST-WRITER-WINS", "every stored stroke has order <= max_order; the new stroke is stamped max_order + 1 before the cells are "
                                         "updated  =>  each setter takes it, and the bound holds for the new max_order",
                     [("taken", [z3.Implies(z3.Not(empty), o_old <= mx), o_new == mx + 1], takes),
                      ("bound-kept", [z3.Implies(z3.Not(empty), o_old <= mx), o_new == mx + 1], z3.And(o_new <= mx + 1, z3.Implies(z3.Not(empty), o_old <= mx + 1)))]))
    plan.lemma(Lemma("STALE-ORDER-LOSES", "vacuity guard for the dominance obligation: a stroke still carrying order 0 does NOT replace an ordered one",
                     [("not-taken", [z3.Not(empty), o_old >= 1, o_new == 0], z3.Not(takes))]))

    # ================================================================== Table.set_cell_border: order before update (dominance)
    def dominance():
        fi = extract.find_function("document:Table.set_cell_border")
        body = fi.node.body
        pos = {"add_stroke": [], "set_cell_border": []}
        for idx, st in enumerate(body):  # top-level statements of the function body, in order
            for n in ast.walk(st):
                if isinstance(n, ast.Call) and isinstance(n.func, ast.Attribute) and isinstance(n.func.value, ast.Attribute) \
                        and n.func.value.attr == "_model" and n.func.attr in pos:
                    pos[n.func.attr].append((idx, isinstance(st, ast.Expr)))
        if len(pos["add_stroke"]) != 1 or not pos["set_cell_border"]:
            return False, f"anchor lost: add_stroke calls {pos['add_stroke']}, set_cell_border calls {pos['set_cell_border']}", 0
        a_idx, a_plain = pos["add_stroke"][0]
        late = [i for i, _ in pos["set_cell_border"] if i <= a_idx]
        if not a_plain:
            return False, "the add_stroke call is conditional: it does not dominate the cell updates", 1
        # nothing between function entry and add_stroke may return normally around it except the documented early exits (which update no cell)
        if late:
            return False, (f"Table.set_cell_border updates cells (statement {late[0]}) before the stroke is ordered by add_stroke (statement {a_idx}): "
                           "the new stroke is compared with a stale order"), 1 + len(pos["set_cell_border"])
        return True, "", 1 + len(pos["set_cell_border"])
    plan.ground.append(("stroke-ordered-before-cells-updated", dominance))

    # ================================================================== model.set_cell_border: which cells, which sides
    OPP = {"top": ("bottom", -1, 0), "bottom": ("top", 1, 0), "left": ("right", 0, -1), "right": ("left", 0, 1)}
    exists = z3.Function("cell_for_stroke_exists", Str, Int, Int, Bool)  # the cell that owns `side` of (row, col), if any

    def scb_entry(side):
        def entry(ex):
            log = []

            def m_cfs(ex_, o, a, k, l):
                tid, sd, r, c = a
                if not isinstance(sd, str):
                    raise Unsupported("cell_for_stroke with a symbolic side")
                present = exists(z3.StringVal(sd), T(r), T(c))
                cell = PObj("CellWithBorder", {"_border": PObj("BorderSlots", {"log": log, "at": (sd, T(r), T(c))})})
                return SOpt(z3.Not(present), cell)
            ctx.method_models[("_NumbersModel", "cell_for_stroke")] = m_cfs
            heights = ex.fresh("bool", "row_heights_cached")
            return {"self": PObj("_NumbersModel", {"_row_heights": PDict(), "_col_widths": PDict()}), "table_id": ex.fresh("int", "table_id"),
                    "row": ex.fresh("int", "row"), "col": ex.fresh("int", "col"), "side": side, "border_value": ex.fresh("ref:Border", "value"),
                    "g_log": log}
        return entry
    ctx.method_models = getattr(ctx, "method_models", {})

    def slots_hook(ex, obj, name, v):
        obj.fields["log"].append((obj.fields["at"], name, v, list(ex.pc)))
        return True
    ctx.setattr_hooks["BorderSlots"] = slots_hook

    def scb_post(side):
        opp, dr, dc = OPP[side]

        def post(ex, env):
            log = env["g_log"]
            r, c = T(env["row"]), T(env["col"])
            want = [((side, r, c), side), ((opp, r + dr, c + dc), opp)]
            # every assignment on this path is one of the two expected (to the cell found for that edge, on that side, with the stroke) ...
            ok = []
            for (at, name, v, _) in log:
                hit = [z3.And(z3.BoolVal(at[0] == w[0][0] and name == w[1]), at[1] == w[0][1], at[2] == w[0][2], v.t == env["border_value"].t) for w in want]
                ok.append(z3.Or(*hit))
            # ... and each expected cell that exists is assigned
            for w in want:
                done = [z3.And(z3.BoolVal(at[0] == w[0][0] and name == w[1]), at[1] == w[0][1], at[2] == w[0][2]) for (at, name, v, _) in log]
                ok.append(z3.Implies(exists(z3.StringVal(w[0][0]), w[0][1], w[0][2]), z3.Or(*done) if done else z3.BoolVal(False)))
            return z3.And(*ok)
        post.__name__ = (f"side {side!r}: the cell owning the {side} edge of (row, col) gets .{side} = stroke and the cell owning the {opp} edge of "
                         f"(row{dr:+d}, col{dc:+d}) gets .{opp} = stroke, when they exist; nothing else is assigned")
        return post
    # ================================================================== add_stroke stamps the order first (complete syntactic check)
    def stamp():
        fi = extract.find_function("model:_NumbersModel.add_stroke")
        body = fi.node.body
        inc = [i for i, st in enumerate(body) if isinstance(st, ast.AugAssign) and isinstance(st.op, ast.Add) and ast.unparse(st.target).endswith(".max_order")
               and ast.unparse(st.value) == "1"]
        stamp_ = [i for i, st in enumerate(body) if isinstance(st, ast.Assign) and ast.unparse(st.targets[0]) == "border_value._order"]
        other = [ast.unparse(n)[:60] for n in ast.walk(fi.node) if isinstance(n, (ast.Assign, ast.AugAssign))
                 and any(ast.unparse(t).endswith(("._order", ".max_order")) for t in (n.targets if isinstance(n, ast.Assign) else [n.target]))]
        if len(inc) != 1 or len(stamp_) != 1:
            return False, f"anchor lost: max_order increments {inc}, order stamps {stamp_}", 0
        src = ast.unparse(body[stamp_[0]].value)
        if not (inc[0] < stamp_[0] and src == ast.unparse(body[inc[0]].target) and len(other) == 2):
            return False, (f"add_stroke no longer stamps border_value._order with the freshly incremented max_order "
                           f"(increment at statement {inc[0]}, stamp at {stamp_[0]} from {src!r}, order assignments {other})"), 2
        return True, "", 2
    plan.ground.append(("stroke-gets-fresh-order", stamp))

    # ================================================================== Style: assignment marks, reading does not
    TEXT = ["alignment", "bold", "first_indent", "font_color", "font_name", "font_size", "italic", "left_indent", "name", "right_indent",
            "strikethrough", "text_inset", "underline"]   # what a paragraph/character style stores (the property's 15 attributes)
    CELL = ["alignment", "bg_color", "bg_image", "first_indent", "left_indent", "right_indent", "text_inset", "text_wrap"]
    ALL = sorted(set(TEXT) | set(CELL))
    conv = z3.Function("converted_value", Str, Int, Int)

    def sa_entry(name):
        def entry(ex):
            f = {a: ex.fresh("int", "old_" + a) for a in ALL}
            f["_update_text_style"], f["_update_cell_style"] = ex.fresh("bool", "ut"), ex.fresh("bool", "uc")
            env = {"self": PObj("Style", f), "name": name, "value": ex.fresh("int", "value")}
            env["g_ut"], env["g_uc"] = f["_update_text_style"], f["_update_cell_style"]
            env["g_old"] = dict(f)
            return env
        return entry

    def sa_post(name):
        def post(ex, env):
            f = env["self"].fields
            val = lift(f[name]) if name in f else None
            stored = (val == conv(z3.StringVal(name), T(env["value"]))) if name in ("bg_color", "font_color", "alignment") else (val == T(env["value"]))
            ut = z3.BoolVal(True) if name in TEXT else lift(env["g_ut"])
            uc = z3.BoolVal(True) if name in CELL else lift(env["g_uc"])
            rest = [lift(f[a]) == lift(env["g_old"][a]) for a in ALL if a != name]
            return z3.And(stored, lift(f["_update_text_style"]) == ut, lift(f["_update_cell_style"]) == uc, *rest)
        post.__name__ = (f"assigning .{name}: the (converted) value is stored; _update_text_style is {'set' if name in TEXT else 'unchanged'}, "
                         f"_update_cell_style is {'set' if name in CELL else 'unchanged'}; other attributes unchanged")
        return post
    for name in ALL:
        plan.target(Contract("cell:Style.__setattr__", label=name, entry=sa_entry(name), ensures=[sa_post(name)], safety="fork",
                             search=srch("search_styles"),
                             opaque={"rgb_color(value)": lambda ex, env, name=name: wrap(conv(z3.StringVal(name), T(env["value"]))),
                                     "alignment(value)": lambda ex, env, name=name: wrap(conv(z3.StringVal(name), T(env["value"])))},
                             inline={"cell:Style._text_attrs", "cell:Style._cell_attrs"}))

    # from_storage: the accessors' values, not marked
    ACC = {"alignment": "cell_alignment", "bg_color": "cell_bg_color", "font_color": "cell_font_color", "font_size": "cell_font_size",
           "font_name": "cell_font_name", "bold": "cell_is_bold", "italic": "cell_is_italic", "strikethrough": "cell_is_strikethrough",
           "underline": "cell_is_underline", "name": "cell_style_name", "first_indent": "cell_first_indent", "left_indent": "cell_left_indent",
           "right_indent": "cell_right_indent", "text_inset": "cell_text_inset", "text_wrap": "cell_text_wrap",
           "_text_style_obj_id": "text_style_object_id", "_cell_style_obj_id": "cell_style_object_id"}
    acc = z3.Function("accessor_value", Str, Int)
    for a, m in ACC.items():
        ctx.method_models[("StyleModel", m)] = (lambda m_: lambda ex, o, a_, k, l: wrap(acc(z3.StringVal(m_))))(m)

    def mk_style(ex, args, kwargs, line):
        # dataclass __init__ assigns every field through Style.__setattr__ (contracts above): both marks end up set
        f = dict(kwargs)
        f["_update_text_style"], f["_update_cell_style"] = True, True
        return PObj("Style", f)
    ctx.constructors["Style"] = mk_style
    ctx.extra_globals["Style"] = ClassRef("Style")

    def fs_post(ex, env):
        r = env["result"]
        if not isinstance(r, PObj) or r.cls != "Style":
            return z3.BoolVal(False)
        f = r.fields
        vals = [lift(f[a]) == acc(z3.StringVal(m)) for a, m in ACC.items() if a in f]
        clean = f.get("_update_text_style") is False and f.get("_update_cell_style") is False
        return z3.And(z3.BoolVal(clean and len(vals) == len(ACC)), f["bg_image"] is None and z3.BoolVal(True), *vals)
    fs_post.__name__ = ("every attribute is the value of its model accessor and neither update mark is set: reading a style does not schedule "
                        "it for saving")
    plan.target(Contract("cell:Style.from_storage", ensures=[fs_post], safety="fork", search=srch("search_styles"),
                         entry=lambda ex: {"cls": ClassRef("Style"), "cell": PObj("CellForStyle", {"_image_data": None}), "model": PObj("StyleModel", {})}))

    # ------------------------------------------------------------------ update_paragraph_style: the stored archive takes EVERY text attribute of the style
    # (run for a style that already has an archive - from the second save of an open document on): whatever the archive held before,
    # afterwards each field is the style's current value, also when that value is 0.0 / False / black.
    from pyvc.sym import SFloat, FloatS, i2f, fdiv
    UL = {"kSingleUnderline": 1, "kNoUnderline": 0}
    ST = {"kSingleStrikethru": 1, "kNoStrikethru": 0}
    ctx.extra_globals["CharacterStyle"] = PObj("module", {"UnderlineType": PObj("enum", dict(UL)), "StrikethruType": PObj("enum", dict(ST))})

    class FontNames(Custom):
        def getitem(self, ex, idx, line):
            return SStr(FONTNAME(lift(idx)))
    FONTNAME = z3.Function("C15_font_name_of_family", Str, Str)
    ctx.extra_globals["FONT_FAMILY_TO_NAME"] = FontNames()

    def ups_entry(ex):
        def old(kind, nm):
            return ex.fresh(kind, "stored_" + nm)

        def colour(prefix, kind):
            return PObj("ColorV", {c: old(kind, prefix + c) for c in "rgb"})
        char = PObj("CharPropsV", {"font_color": colour("fc_", "float"), "bold": old("bool", "bold"), "italic": old("bool", "italic"), "underline": old("int", "ul"),
                                   "strikethru": old("int", "st"), "font_size": old("float", "size"), "font_name": old("str", "font"),
                                   "tsd_fill": PObj("FillV", {"color": colour("fill_", "float")})})
        para = PObj("ParaPropsV", {"alignment": old("int", "align"), "first_line_indent": old("float", "first"), "left_indent": old("float", "left"),
                                   "right_indent": old("float", "right")})
        style_obj = PObj("ParagraphStyleArchiveV", {"char_properties": char, "para_properties": para})
        rgb = PObj("RGB", {c: ex.fresh("int", "font_" + c) for c in "rgb"})
        for c in "rgb":
            ex.assume(z3.And(T(rgb.fields[c]) >= 0, T(rgb.fields[c]) <= 255))
        style = PObj("StyleU", {"underline": ex.fresh("bool", "underline"), "strikethrough": ex.fresh("bool", "strikethrough"), "font_color": rgb,
                                "bold": ex.fresh("bool", "bold"), "italic": ex.fresh("bool", "italic"), "font_size": ex.fresh("float", "font_size"),
                                "font_name": ex.fresh("str", "font_family"), "alignment": PObj("AlignmentV", {"horizontal": ex.fresh("int", "horizontal")}),
                                "first_indent": ex.fresh("float", "first_indent"), "left_indent": ex.fresh("float", "left_indent"),
                                "right_indent": ex.fresh("float", "right_indent"), "_text_style_obj_id": ex.fresh("int", "archive_id")})

        class Objs(Custom):
            def getitem(self_, ex_, idx, line):
                if not T(idx).eq(T(style.fields["_text_style_obj_id"])):
                    ex_.oblige(f"archive-of-this-style@L{line}: the archive updated is the style's own", z3.BoolVal(False), "ghost", line)
                return style_obj
        return {"self": PObj("ModelUPS", {"objects": Objs()}), "style": style, "g_obj": style_obj}

    def ups_post(ex, env):
        st, ob = env["style"].fields, env["g_obj"].fields
        ch, pa = ob["char_properties"].fields, ob["para_properties"].fields

        def same(a, b):
            if isinstance(a, (bool, int)) and not isinstance(b, (bool, int)):
                a = wrap(a)
            try:
                return lift(a) == lift(b)
            except Exception:  # noqa: BLE001
                return z3.BoolVal(False)

        def chan(v, c):
            return same(v, SFloat(fdiv(i2f(T(st["font_color"].fields[c])), i2f(z3.IntVal(255)))))
        conj = [chan(ch["font_color"].fields[c], c) for c in "rgb"] + [chan(ch["tsd_fill"].fields["color"].fields[c], c) for c in "rgb"]
        conj += [same(ch["bold"], st["bold"]), same(ch["italic"], st["italic"]), same(ch["font_size"], st["font_size"]),
                 same(ch["font_name"], SStr(FONTNAME(lift(st["font_name"])))),
                 T(ch["underline"]) == z3.If(st["underline"].t, 1, 0), T(ch["strikethru"]) == z3.If(st["strikethrough"].t, 1, 0),
                 same(pa["alignment"], st["alignment"].fields["horizontal"]), same(pa["first_line_indent"], st["first_indent"]),
                 same(pa["left_indent"], st["left_indent"]), same(pa["right_indent"], st["right_indent"])]
        return z3.And(*conj)
    ups_post.__name__ = ("after the update every text field of the archive is the style's current value (colour channels /255, underline and strikethrough "
                         "as their enum, font family through the name table, alignment, the three indents), whatever the archive held and whatever the value")
    plan.target(Contract("model:_NumbersModel.update_paragraph_style", entry=ups_entry, ensures=[ups_post], safety="fork", search=srch("search_styles")))

    # ------------------------------------------------------------------ Table.set_cell_border: every cell along the stroke is updated
    # For one side and an unmerged starting cell: the stored strokes are loaded, the stroke is recorded once with its origin, side and
    # length, and then EXACTLY the cells origin .. origin+length-1 along the stroke's direction are updated (k-th update at offset k), each
    # with the same side and border - whatever the table's size (cells beyond the table are the model's concern: cell_for_stroke).
    class RowsT(Custom):
        def __init__(self, cell):
            self.cell = cell

        def getitem(self, ex, idx, line):
            outer = self

            class RowT(Custom):
                def getitem(self_, ex_, idx_, line_):
                    return outer.cell
            return RowT()

    def tsb_entry(side):
        def entry(ex):
            row, col, length = ex.fresh("int", "row"), ex.fresh("int", "col"), ex.fresh("int", "length")
            ex.assume(z3.And(T(row) >= 0, T(col) >= 0))
            border = PObj("Border", {"width": ex.fresh("float", "width")})
            cell = PObj("NumberCell", {"is_merged": False, "size": (1, 1)})
            model = PObj("ModelTSB", {"g_log": []})
            table = PObj("TableTSB", {"_model": model, "_table_id": ex.fresh("int", "table_id"), "_data": RowsT(cell), "num_rows": ex.fresh("int", "num_rows"),
                                      "num_cols": ex.fresh("int", "num_cols"), "g_coords": (row, col, side, border, length)})
            ex.assume(z3.And(T(table.fields["num_rows"]) > T(row), T(table.fields["num_cols"]) > T(col)))
            return {"self": table, "args": (), "g_row": row, "g_col": col, "g_len": length, "g_border": border, "g_model": model}
        return entry
    mm_ = ctx.method_models
    mm_[("TableTSB", "_validate_cell_coords")] = lambda ex, o, a, k, l: o.fields["g_coords"]
    mm_[("ModelTSB", "extract_strokes")] = lambda ex, o, a, k, l: o.fields["g_log"].append(("extract", a))
    mm_[("ModelTSB", "add_stroke")] = lambda ex, o, a, k, l: o.fields["g_log"].append(("stroke", a))
    CNT = {}

    def tsb_update(ex, o, a, k, l):
        o.fields["g_last"] = a
        o.fields["g_count"] = wrap(T(o.fields.get("g_count", 0)) + 1)
    mm_[("ModelTSB", "set_cell_border")] = tsb_update

    def tsb_havoc(ex, env):
        m = ex.entry_env["g_model"].fields
        m["g_count"] = ex.fresh("int", "updates")
        m["g_last"] = tuple(ex.fresh("int", f"last{i}") for i in range(3)) + (None, None)

    def tsb_inv(ex, env):
        m = ex.entry_env["g_model"].fields
        return T(m.get("g_count", 0)) == T(env["_k"])

    def tsb_step(side):
        def st(ex, env):
            m = ex.entry_env["g_model"].fields
            last = m["g_last"]
            k = T(env["_k"])
            r0, c0 = T(ex.entry_env["g_row"]), T(ex.entry_env["g_col"])
            want_r, want_c = (r0, c0 + k) if side in ("top", "bottom") else (r0 + k, c0)
            ok_obj = last[3] == side and last[4] is ex.entry_env["g_border"]
            return z3.And(z3.BoolVal(bool(ok_obj)), T(last[0]) == T(env["self"].fields["_table_id"]), T(last[1]) == want_r, T(last[2]) == want_c)
        return st

    def tsb_post(side):
        def post(ex, env):
            m = env["g_model"].fields
            log = m["g_log"]
            ok = len(log) == 2 and log[0][0] == "extract" and log[1][0] == "stroke"
            if not ok:
                return z3.BoolVal(False)
            a = log[1][1]
            ln = T(env["g_len"])
            stroke_ok = z3.And(T(a[0]) == T(env["self"].fields["_table_id"]), T(a[1]) == T(env["g_row"]), T(a[2]) == T(env["g_col"]), z3.BoolVal(a[3] == side),
                               z3.BoolVal(a[4] is env["g_border"]), T(a[5]) == ln)
            return z3.And(stroke_ok, T(m.get("g_count", 0)) == z3.If(ln > 0, ln, 0))
        post.__name__ = ("the stroke is recorded once (origin, side, border, length) after the stored strokes are loaded, and exactly `length` cells are "
                         "updated - the k-th at offset k along the stroke, with the same side and border")
        return post
    for side_ in ("top", "right", "bottom", "left"):
        plan.target(Contract("document:Table.set_cell_border", label=side_, entry=tsb_entry(side_), ensures=[tsb_post(side_)], safety="fork",
                             search=srch("search_borders"),
                             loops={2: LoopSpec([tsb_inv], index="_k", havoc=[tsb_havoc], steps=[tsb_step(side_)]),
                                    3: LoopSpec([tsb_inv], index="_k", havoc=[tsb_havoc], steps=[tsb_step(side_)])}))

    def native_ground(fn):
        def run():
            from pyvc.run import native_call
            res = native_call({"custom": fn, "native_module": plan.native_module})
            if "violated" not in res:
                return False, f"native ground check {fn} did not run: {str(res)[:300]}", 0
            return (not res["violated"]), res.get("detail", ""), res.get("count", 0)
        return run
    plan.ground.append(("colour-channels-round-trip(all 256 values)", native_ground("ground_colours")))
    plan.ground.append(("font-family-name-tables-inverse(all families)", native_ground("ground_fonts")))



    # ================================================================== update_cell_styles: the de-duplication key reads every cell-level attribute
    def fingerprint_complete():
        fi = extract.find_function("model:_NumbersModel.update_cell_styles")
        chains = set()
        for n in ast.walk(fi.node):
            if isinstance(n, ast.Attribute):
                parts, cur = [], n
                while isinstance(cur, ast.Attribute):
                    parts.append(cur.attr)
                    cur = cur.value
                if isinstance(cur, ast.Name) and cur.id == "cell":
                    parts = list(reversed(parts))
                    if parts and parts[0] in ("style", "_style"):
                        chains.add(".".join(parts[1:]))
        need = {"alignment.vertical", "first_indent", "left_indent", "right_indent", "text_inset", "text_wrap", "bg_color.r", "bg_color.g", "bg_color.b",
                "bg_image.filename"}
        missing = sorted(need - chains)
        if not chains:
            return False, "anchor lost: update_cell_styles reads no cell.style attribute", 0
        # the fields must stay apart in the key: str(a) + str(b) spells (1.0, 6251.0) and (1.0625, 1.0) alike
        glued = [n for n in ast.walk(fi.node) if isinstance(n, ast.BinOp) and isinstance(n.op, ast.Add)
                 and all(isinstance(x, ast.Call) and ast.unparse(x.func) == "str" for x in (n.left, n.right))]
        if glued:
            return False, [f"L{glued[0].lineno}: the key concatenates the string forms of two attributes (`{ast.unparse(glued[0])[:80]}`): different styles can "
                           "spell the same key and are then saved as one cell style"], len(need) + 1
        return (not missing), ([f"the key that decides whether two cells share one saved cell style does not read {m}: styles that differ only there are merged"
                                for m in missing][:5]), len(need)
    plan.ground.append(("cell-style-key-reads-every-cell-attribute", fingerprint_complete))

    # ================================================================== add_stroke: how the stored runs of one line are patched
    # Local (per existing run) contract, proved as a cut assertion at the end of the loop body: an existing run never gains a cell, never
    # loses a cell outside the new stroke, is trimmed/split only by pieces that keep its own value and order, and is replaced only by a
    # full copy of the new stroke when the new stroke covers it; after the loop the new stroke is in the list (patched or appended).
    A = z3.ArraySort

    class StrokeRuns(Custom):
        def __init__(self, n, O, Lh):
            self.n, self.O, self.Lh = n, O, Lh
            self.appended = []
            self.copied_new = z3.BoolVal(False)
            self.current = None

        def length(self, ex):
            return self.n

        def getitem(self, ex, idx, line):
            if isinstance(idx, int) and idx == -1:
                if not self.appended:
                    raise Unsupported("stroke_runs[-1] with nothing appended on this path")
                return self.appended[-1]
            i = T(idx)
            o0, l0 = z3.Select(self.O, i), z3.Select(self.Lh, i)
            run = PObj("StrokeRun", {"origin": wrap(o0), "length": wrap(l0), "g_o0": o0, "g_l0": l0, "g_kind": "old", "g_owner": ("old", i)})
            self.current = run
            return run

        def method(self, ex, name, args, kwargs, line):
            if name == "append":
                self.appended.append(args[0])
                return None
            if name == "sort":
                return None
            raise Unsupported(f"stroke_runs.{name}")

    def run_copy(ex, o, a, k, l):
        src = a[0]
        o.fields["origin"], o.fields["length"] = src.fields["origin"], src.fields["length"]
        o.fields["g_kind"] = src.fields["g_kind"]
        o.fields["g_owner"] = src.fields.get("g_owner")
        if src.fields["g_kind"] == "new":
            runs = ex.entry_env["g_runs"]
            runs.copied_new = z3.BoolVal(True)
    ctx.method_models[("StrokeRun", "CopyFrom")] = run_copy
    ctx.constructors["StrokeRunArchive"] = lambda ex, args, kwargs, line: PObj("StrokeRun", {"g_kind": "blank"})
    ctx.constructors["Reference"] = lambda ex, args, kwargs, line: PObj("Reference", dict(kwargs))
    ctx.extra_globals["TSTArchives"] = PObj("module", {"StrokeLayerArchive": PObj("module", {"StrokeRunArchive": ClassRef("StrokeRunArchive")})})
    ctx.extra_globals["TSPMessages"] = PObj("module", {"Reference": ClassRef("Reference")})
    ctx.method_models[("_NumbersModelS", "create_stroke")] = lambda ex, o, a, k, l: PObj("StrokeRun", {"origin": a[0], "length": a[1], "g_kind": "new"})

    def as_entry(matching):
        def entry(ex):
            n = z3.Int(fresh_name("n_runs"))
            ex.assume(n >= 0)
            runs = StrokeRuns(n, z3.Const(fresh_name("run_origin"), A(Int, Int)), z3.Const(fresh_name("run_length"), A(Int, Int)))
            rci = ex.fresh("int", "row_column_index")
            layer = PObj("StrokeLayer", {"row_column_index": rci, "stroke_runs": runs})
            lid = PObj("Reference", {"identifier": ex.fresh("int", "layer_id")})
            side_lists = {f: PList([lid]) for f in ("top_row_stroke_layers", "right_column_stroke_layers", "bottom_row_stroke_layers", "left_column_stroke_layers")}
            sidecar = PObj("Sidecar", dict(side_lists, max_order=ex.fresh("int", "max_order"), row_count=0, column_count=0))
            table_obj = PObj("TableObj", {"stroke_sidecar": PObj("Reference", {"identifier": ex.fresh("int", "sidecar_id")}),
                                          "number_of_rows": ex.fresh("int", "nrows"), "number_of_columns": ex.fresh("int", "ncols")})
            row, col = ex.fresh("int", "row"), ex.fresh("int", "col")
            length = ex.fresh("int", "length")
            ex.assume(length.t >= 1)
            if matching:
                ex.assume(rci.t == row.t)
            else:
                ex.assume(rci.t != row.t)
            return {"self": PObj("_NumbersModelS", {"g_new_layers": []}), "table_id": ex.fresh("int", "table_id"), "row": row, "col": col, "side": "top",
                    "border_value": PObj("BorderV", {"_order": ex.fresh("int", "old_order")}), "length": length,
                    "g_runs": runs, "g_layer": layer, "g_sidecar": sidecar, "g_table": table_obj, "g_max0": sidecar.fields["max_order"]}
        return entry

    def m_create_layer(ex, o, a, k, l):
        layer = PObj("StrokeLayer", {"row_column_index": a[1].d["row_column_index"] if isinstance(a[1], PDict) else None, "stroke_runs": StrokeRuns(z3.IntVal(0), z3.K(Int, z3.IntVal(0)), z3.K(Int, z3.IntVal(0)))})
        ex.entry_env["self"].fields["g_new_layers"].append(layer)
        return (ex.fresh("int", "new_layer_id"), layer)
    ctx.method_models[("ObjectsS", "create_object_from_dict")] = m_create_layer

    def in_rng(x, o, ln):
        return z3.And(o <= x, x < o + ln)

    def as_step(ex, env):
        runs = env["g_runs"]
        run = runs.current
        o, Ln = T(env["origin"]), T(env["length"])
        s0, l0 = run.fields["g_o0"], run.fields["g_l0"]
        x = z3.Int(fresh_name("slot"))
        before = in_rng(x, s0, l0)
        in_new = in_rng(x, o, Ln)
        if run.fields["g_kind"] == "new":  # replaced by a full copy of the new stroke: allowed only if the new stroke covers the old run
            return z3.And(o <= s0, s0 + l0 <= o + Ln, T(run.fields["origin"]) == o, T(run.fields["length"]) == Ln)
        pieces = [in_rng(x, T(run.fields["origin"]), T(run.fields["length"]))]
        ok_len = [T(run.fields["length"]) >= 0]
        for t_ in runs.appended:
            if t_.fields.get("g_kind") == "new":
                continue
            if t_.fields.get("g_owner") != run.fields.get("g_owner") or t_.fields.get("g_kind") != "old":
                return z3.BoolVal(False)  # a piece split off an old run must be a copy of that run
            pieces.append(in_rng(x, T(t_.fields["origin"]), T(t_.fields["length"])))
            ok_len.append(T(t_.fields["length"]) >= 0)
        after = z3.Or(*pieces)
        return z3.And(*ok_len, z3.ForAll([x], z3.And(z3.Implies(z3.Not(in_new), after == before), z3.Implies(z3.And(in_new, after), before))))
    as_step.__name__ = ("per existing run: outside the new stroke it covers exactly the cells it covered; inside it gains nothing; pieces split off are "
                        "copies of it; it is replaced by the new stroke only if the new stroke covers it; no negative lengths")

    def as_inv(ex, env):
        runs = env["g_runs"]
        k = z3.Int(fresh_name("rk"))
        sp = env["stroke_patched"]
        spt = sp.t if isinstance(sp, SBool) else z3.BoolVal(bool(sp))
        return z3.And(spt == runs.copied_new, T(env["origin"]) == T(env["col"]), T(env["length"]) >= 1,
                      z3.ForAll([k], z3.Implies(z3.And(0 <= k, k < runs.n), z3.Select(runs.Lh, k) >= 1)))

    def as_havoc(ex, env):
        runs = env["g_runs"]
        runs.copied_new = z3.Bool(fresh_name("copied_new"))
        runs.appended = []

    def as_requires(ex, env):
        runs = env["g_runs"]
        k = z3.Int(fresh_name("rk"))
        return z3.ForAll([k], z3.Implies(z3.And(0 <= k, k < runs.n), z3.Select(runs.Lh, k) >= 1))
    as_requires.__name__ = "stored runs are non-empty"

    def as_post(matching):
        def post(ex, env):
            b = env["border_value"].fields
            stamped = z3.And(T(b["_order"]) == env["g_max0"].t + 1, T(env["g_sidecar"].fields["max_order"]) == env["g_max0"].t + 1)
            runs = env["g_runs"] if matching else None
            if matching:
                new_app = any(t_.fields.get("g_kind") == "new" for t_ in runs.appended)
                return z3.And(stamped, z3.Or(runs.copied_new, z3.BoolVal(new_app)))
            layers = env["self"].fields["g_new_layers"]
            ok = len(layers) == 1 and any(t_.fields.get("g_kind") == "new" for t_ in layers[0].fields["stroke_runs"].appended)
            return z3.And(stamped, z3.BoolVal(ok))
        post.__name__ = ("the stroke is stamped with max_order + 1; " + ("the new stroke is in the line's run list (an old run it covers was replaced by a full "
                         "copy, or it was appended)" if matching else "a new layer holding exactly the new stroke is created for a line without one"))
        return post
    as_opaque = {"self.objects[table_id]": lambda ex, env: ex.entry_env["g_table"],
                 "self.objects[table_obj.stroke_sidecar.identifier]": lambda ex, env: ex.entry_env["g_sidecar"],
                 "self.objects[layer_id.identifier]": lambda ex, env: ex.entry_env["g_layer"],
                 "self.objects.create_object_from_dict('CalculationEngine', {'row_column_index': row_column_index}, TSTArchives.StrokeLayerArchive)":
                     lambda ex, env: m_create_layer(ex, None, ["CalculationEngine", None], {}, 0)}
    for lab, matching in (("line-has-runs", True), ("line-without-layer", False)):
        plan.target(Contract("model:_NumbersModel.add_stroke", label=lab, entry=as_entry(matching), requires=[as_requires], ensures=[as_post(matching)],
                             safety="fork", opaque=as_opaque, search=srch("search_borders"),
                             loops={2: LoopSpec([as_inv], index="_i", havoc=[as_havoc], steps=[as_step], kinds={"stroke_patched": "bool"})}))

    for side in SIDES:
        plan.target(Contract("model:_NumbersModel.set_cell_border", label=side, entry=scb_entry(side), ensures=[scb_post(side)], safety="fork",
                             search=srch("search_borders"),
                             canaries=[lambda ex, env: z3.BoolVal(len(env["g_log"]) == 2)]))

    # each table keeps its own style list (structural obligation on add_table, shared with C03)
    from contracts.shared_ground import added_table_owns_every_keyed_list
    plan.ground.append(("added-table-owns-every-keyed-list", added_table_owns_every_keyed_list))
    from contracts.shared_ground import allocators_are_not_memoised
    plan.ground.append(("allocators-are-not-memoised", allocators_are_not_memoised))
    plan.bounded.append(BoundedStandIn(
        "styles-of-two-tables", "c15_two_tables.py", [],
        bound="2 documents (a table added to the same sheet / to a new sheet): styles and data formats on cells of both tables, more of them after the first "
              "save, compared after each of three saves of the same open document",
        functions=["model.add_table (per-table style / format lists)", "Document.add_style", "Table.set_cell_style", "update_cell_styles / update_paragraph_styles"]))
    plan.bounded.append(BoundedStandIn(
        "strokes-and-styles", "c15_styles.py", [], thorough_args=["--level", "2"], timeout=1500,
        bound="borders: every single stroke (4 sides x 9 cells x lengths 1..3) on a 3x3 table, pairs (11 first strokes x every/each third second "
              "stroke: overlapping, abutting, superseding), 250 (thorough 1500) random sequences of 2..4 strokes on 4x4 with 4 border values, "
              "shared or fresh Border objects, one fifth over a merged B2:C3, saves at random points; edge model compared with every side of "
              "every cell after every stroke, after reopen and after an unchanged re-save; styles: 40 (thorough 160) generated styles over the "
              "15 attributes (every font family, 15 alignments, colours, sizes, indents, image) applied by set_cell_style/write, compared on "
              "the open document, after reopen, other cells unchanged, unchanged re-save after reading",
        functions=["Table.set_cell_border", "model.set_cell_border", "model.add_stroke", "model.extract_strokes", "CellBorder", "Document.add_style",
                   "Table.set_cell_style", "model.add_paragraph_style/add_cell_style/update_*_styles", "Style.from_storage", "model.cell_* accessors"]))
    plan.assumptions += [
        "Border objects as heap records with an _order field; CellBorder slots optional references; cell_for_stroke as an uninterpreted partial "
        "function (its merge cases are exercised by the stand-in)",
        "dataclass __init__ assigns every field through __setattr__ (so a freshly constructed Style carries both marks): modelled from the proved "
        "__setattr__ contracts; rgb_color/alignment conversions uninterpreted",
        "stroke runs in the file, style archives and reload: bounded stand-in only",
    ]
    plan.trusted += ["pyvc AST->SMT translation (cross-checked against CPython)", "z3 5.1.0", "cvc5 1.0.3"]
    plan.level = "other"
    plan.explanation = ("Mixed: border precedence (setters, which cells are assigned, stroke ordered before the update, fresh order stamp, "
                        "last-writer-wins lemma), Style.__setattr__ marks, Style.from_storage values and cleanliness, colour and font table "
                        "round trips are proved or checked completely; stroke runs in the file, style archives, merged cells and reload are a "
                        "bounded stand-in with a last-writer-wins edge model.")
    return plan

"""Native side of C07: looks for a concrete document whose saved package breaks the structural contract (uses the independent
validator of bounded/c07_package.py on small built documents)."""
import os
import random
import sys
import tempfile
import warnings

sys.path.insert(0, os.path.dirname(os.path.dirname(os.path.abspath(__file__))))


def _try(kinds, want=None):
    from bounded import c07_package as V
    warnings.simplefilter("ignore")
    for kind in kinds:
        with tempfile.TemporaryDirectory() as td:
            out = os.path.join(td, "s.numbers")
            try:
                doc = V.build(kind, random.Random(1))
                doc.save(out)
                errs = V.validate(out, V.template_members())
            except Exception as e:  # noqa: BLE001
                errs = [f"open: building/saving {kind} raised {type(e).__name__}: {e}"]
            errs = [e for e in errs if not (e.endswith("missing objects [0]"))]
            if want:
                errs = [e for e in errs if e.split(":")[0] in want]
            if errs:
                return {"violated": True, "detail": f"{kind}: " + " | ".join(errs[:3]), "job": {"custom": "replay_kind", "kind": kind, "want": want}}
    return {"violated": False}


def search_tiles(job):
    return _try(["shape:1x1", "shape:2x3", "shape:255x2", "shape:256x2", "shape:257x2", "shape:512x2", "shape:513x2", "edits"], ["tiles", "open", "inventory"])


def _row_records():
    """the real recalculate_row_info on rows that hold cells without a record of their own (merged placeholders, formula-error cells) between
    cells that have one: offset k is -1 exactly for those, every other cell's record lies at its own offset, records are contiguous"""
    import struct
    from numbers_parser import Document
    from numbers_parser.cell import Cell
    warnings.simplefilter("ignore")
    doc = Document(num_rows=4, num_cols=6)
    t = doc.sheets[0].tables[0]
    vals = ["left", 7.5, True, "x" * 9, 42.0, "end"]
    for r in range(4):
        for c in range(6):
            t.write(r, c, vals[(r + c) % 6])
    t.merge_cells("B2:C2")          # row 1: placeholder at column 2
    t.merge_cells("E3:F4")          # rows 2, 3: placeholders at the end of the row
    err = bytearray(12)
    err[0], err[1] = 5, 8           # a formula-error cell as the reader creates it: it cannot be written
    t._data[0][2] = Cell._from_storage(t._table_id, 0, 2, err, doc._model)
    t._data[3][0] = Cell._from_storage(t._table_id, 3, 0, err, doc._model)
    model, data = doc._model, t._data
    for row in range(4):
        bufs = [data[row][c]._to_buffer() for c in range(6)]
        info = model.recalculate_row_info(t._table_id, data, 0, row)
        offs = list(struct.unpack(f"<{len(info.cell_offsets) // 2}h", info.cell_offsets))
        pos, want = 0, []
        for b in bufs:
            if b is None:
                want.append(-1)
            else:
                want.append(pos >> 2)
                pos += len(b)
        storage = b"".join(bytes(b) for b in bufs if b is not None)
        kinds = [type(x).__name__ for x in data[row]]
        if offs[:6] != want:
            return f"row of {kinds}: offsets {offs[:6]}, expected {want} (-1 exactly for the cells that have no record)"
        if bytes(info.cell_storage_buffer) != storage:
            return f"row of {kinds}: the row storage is not the concatenation of the cells' records in column order"
        if info.cell_count != sum(b is not None for b in bufs):
            return f"row of {kinds}: cell_count {info.cell_count} for {sum(b is not None for b in bufs)} records"
        if info.tile_row_index != row:
            return f"row {row}: tile_row_index {info.tile_row_index}"
    return None


def search_row_info(job):
    try:
        d = _row_records()
    except Exception as e:  # noqa: BLE001
        d = f"recalculate_row_info raised {type(e).__name__}: {e}"
    if d:
        return {"violated": True, "detail": d, "job": {"custom": "replay_row_records"}}
    return _try(["shape:3x3", "shape:257x2", "shape:2x300", "shape:12x1000", "formats", "styles", "merges"], ["tiles", "open"])


def replay_row_records(job):
    d = _row_records()
    return {"violated": bool(d), "detail": d or ""}


def _fixtures(names):
    """re-save documents authored in Numbers (component files named with an identifier suffix, stored merge maps, styles) through the
    stand-in's independent validator"""
    from bounded import c07_package as V, docsnap
    warnings.simplefilter("ignore")
    for f in docsnap.fixtures():
        if os.path.basename(f) in names:
            for twice in (False, True):
                case = {"path": f, "twice": twice}
                r = V.run_case(case)
                d = _other_than_null_reference((r or {}).get("detail"))
                if d:
                    return {"violated": True, "detail": d, "job": {"custom": "replay_fixture", "case": case}}
    return {"violated": False}


def _other_than_null_reference(detail):
    """the open known finding F-C07-1 (Reference(identifier=0) of tables the library creates) is the stand-in's to report, not this search's"""
    if not detail:
        return None
    head, _, rest = detail.partition(": ")
    errs = [e for e in detail.split(" | ") if not e.rstrip().endswith("missing objects [0]")]
    return " | ".join(errs) if errs else None


def replay_fixture(job):
    from bounded import c07_package as V
    warnings.simplefilter("ignore")
    d = _other_than_null_reference((V.run_case(job["case"]) or {}).get("detail"))
    return {"violated": bool(d), "detail": d or ""}


def _stale_mark():
    """a source document whose recorded high-water mark is LOWER than its largest identifier (Numbers writes such files: issue-18.numbers):
    the identifiers a save hands out must still be new"""
    from numbers_parser import Document
    from numbers_parser.containers import ObjectStore
    from numbers_parser.constants import PACKAGE_ID
    from bounded import docsnap
    warnings.simplefilter("ignore")
    src = next((f for f in docsnap.fixtures() if os.path.basename(f) == "test-1.numbers"), None)
    if src is None:
        return None
    with tempfile.TemporaryDirectory() as td:
        from pathlib import Path
        store = ObjectStore(Path(src))
        ids = sorted(store._objects.keys()) if hasattr(store, "_objects") else sorted(store.keys())
        store._objects[PACKAGE_ID].last_object_identifier = ids[len(ids) // 2]
        for name, fs in list(store._file_store.items()):
            pass
        stale = os.path.join(td, "stale.numbers")
        store.update_object_file_store()
        store.save(__import__("pathlib").Path(stale), False)
        before = set(ObjectStore(Path(stale))._objects.keys())
        kinds_before = {i: type(o).__name__ for i, o in ObjectStore(Path(stale))._objects.items()}
        doc = Document(stale)
        doc.sheets[0].tables[0].write(0, 0, "edited")
        out = os.path.join(td, "out.numbers")
        doc.save(out)
        try:
            after = ObjectStore(Path(out))._objects
        except Exception as e:  # noqa: BLE001
            return f"source with a stale high-water mark: the saved document cannot be re-opened: {type(e).__name__}: {e}"
        replaced = [i for i in before if i in after and type(after[i]).__name__ != kinds_before[i]]
        if replaced:
            i = replaced[0]
            return (f"source whose recorded high-water mark ({ids[len(ids) // 2]}) is below its largest identifier ({ids[-1]}): the save re-used identifier {i} "
                    f"({kinds_before[i]} -> {type(after[i]).__name__}); {len(replaced)} existing objects were overwritten")
    return None


def search_store(job):
    try:
        d = _stale_mark()
    except Exception as e:  # noqa: BLE001
        d = None if "has no attribute" in str(e) else f"source with a stale high-water mark: raised {type(e).__name__}: {e}"
    if d:
        return {"violated": True, "detail": d, "job": {"custom": "replay_stale_mark"}}
    r = _try(["tables", "styles", "formats", "image", "shape:300x2"], ["ids", "inventory", "closure", "open"])
    return r if r["violated"] else _fixtures(("test-2.numbers", "issue-77.numbers", "issue-10.numbers", "test-8.numbers", "test-1.numbers"))


def replay_kind(job):
    return _try([job["kind"]], job.get("want"))


def replay_stale_mark(job):
    d = _stale_mark()
    return {"violated": bool(d), "detail": d or ""}


NATIVE = {}

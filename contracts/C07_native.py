"""Native side of C07: looks for a concrete document whose saved package breaks the structural contract (uses the independent
validator of bounded/c07_package.py on small built documents)."""
import os
import random
import sys
import tempfile
import warnings

sys.path.insert(0, os.path.dirname(os.path.dirname(os.path.abspath(__file__))))


def _try(kinds, want=None):
    from bounded import c07_package as V
    warnings.simplefilter("ignore")
    for kind in kinds:
        with tempfile.TemporaryDirectory() as td:
            out = os.path.join(td, "s.numbers")
            try:
                doc = V.build(kind, random.Random(1))
                doc.save(out)
                errs = V.validate(out, V.template_members())
            except Exception as e:  # noqa: BLE001
                errs = [f"open: building/saving {kind} raised {type(e).__name__}: {e}"]
            errs = [e for e in errs if not (e.endswith("missing objects [0]"))]
            if want:
                errs = [e for e in errs if e.split(":")[0] in want]
            if errs:
                return {"violated": True, "detail": f"{kind}: " + " | ".join(errs[:3]), "job": {"custom": "replay_kind", "kind": kind, "want": want}}
    return {"violated": False}


def search_tiles(job):
    return _try(["shape:1x1", "shape:2x3", "shape:255x2", "shape:256x2", "shape:257x2", "shape:512x2", "shape:513x2", "edits"], ["tiles", "open", "inventory"])


def search_row_info(job):
    return _try(["shape:3x3", "shape:257x2", "shape:2x300", "shape:12x1000", "formats", "styles"], ["tiles", "open"])


def search_store(job):
    return _try(["tables", "styles", "formats", "image", "shape:300x2"], ["ids", "inventory", "closure", "open"])


def replay_kind(job):
    return _try([job["kind"]], job.get("want"))


NATIVE = {}

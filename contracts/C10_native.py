"""Native (CPython) definitions of the C10 spec functions - used for replay and cross-checks.
Pure Python, importable by both interpreters. Taken from the property statement: column naming
is the bijective base-26 numbering A..Z, AA..ZZ, AAA.."""


def colname(n: int) -> str:
    assert n >= 0
    if n < 26:
        return chr(65 + n)
    return colname(n // 26 - 1) + chr(65 + n % 26)


def colval(s: str) -> int:
    v = 0
    for ch in s:
        v = 26 * v + (ord(ch) - 64)
    return v


def enc(r, c, ra=False, ca=False) -> str:
    return ("$" if ca else "") + colname(c) + ("$" if ra else "") + str(r + 1)


NATIVE = {"colname": colname, "colval": colval, "enc": enc}

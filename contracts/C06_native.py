"""Native side of C06: DataLists over real protobuf lists in any order; row buffer extraction oracle."""
import itertools


class _Store(dict):
    pass


def make_datalists(keys, strings=None):
    from numbers_parser.generated import TSTArchives_pb2 as TST
    from numbers_parser.model import DataLists

    class BDS:
        pass

    class Ref:
        identifier = 77

    class TM:
        base_data_store = BDS()
    BDS.stringTable = Ref()
    dl_msg = TST.TableDataList(listType=TST.TableDataList.ListType.STRING, nextListID=max([0] + list(keys)) + 1)
    strings = strings or [f"s{k}" for k in keys]
    for k, s in zip(keys, strings):
        dl_msg.entries.append(TST.TableDataList.ListEntry(key=k, refcount=1, string=s))

    class Model:
        objects = {1: TM(), 77: dl_msg}
    return DataLists(Model(), "stringTable", "string"), dl_msg


def check_keys(keys):
    dls, msg = make_datalists(keys)
    for k in keys:
        try:
            e = dls.lookup_value(1, k)
        except KeyError:
            return {"violated": True, "detail": f"list order {keys}: lookup of key {k} raises KeyError although an entry "
                    f"carries that key (text would degrade to '')", "keys": keys}
        if e.key != k or e.string != f"s{k}":
            return {"violated": True, "detail": f"list order {keys}: lookup of key {k} returned the entry with key {e.key}", "keys": keys}
    # a value that is present must map to a key carrying it
    for k in keys:
        got = dls.lookup_key(1, f"s{k}")
        if got not in keys or f"s{got}" != f"s{k}":
            return {"violated": True, "detail": f"list order {keys}: lookup_key('s{k}') allocated/returned key {got}", "keys": keys}
    return {"violated": False, "detail": "every key resolves"}


def search_add_table(job):
    for n in (1, 2, 3, 4):
        for perm in itertools.permutations(range(1, n + 1)):
            r = check_keys(list(perm))
            if r["violated"]:
                r["job"] = {"custom": "replay_keys", "keys": list(perm)}
                return r
    for keys in ([5, 3, 9, 1], [10, 2], [7, 7]):
        r = check_keys(keys)
        if r["violated"] and len(set(keys)) == len(keys):
            r["job"] = {"custom": "replay_keys", "keys": keys}
            return r
    return {"violated": False}


def replay_keys(job):
    return check_keys(job["keys"])


def replay_add_table(job):
    # the counter-model is a counterexample to induction (a list prefix); search concrete list orders
    return search_add_table(job)



def search_layout(job):
    """a few layout rewrites of two fixtures (mixed offset widths, reversed lists, re-chunking)"""
    import os, sys, warnings
    sys.path.insert(0, os.path.dirname(os.path.dirname(os.path.abspath(__file__))))
    from bounded import c06_layout as L, docsnap
    warnings.simplefilter("ignore")
    fs = [f for f in docsnap.fixtures() if os.path.basename(f) in ("test-1.numbers", "test-formats.numbers", "test-bullets.numbers")]
    for f in fs:
        for v in ("offsets-mixed", "offsets-switched", "lists-reversed", "rechunk-1k", "empty-row-headers"):
            case = {"path": f, "variant": v, "seed": 1}
            r = L.run_case(case)
            if r and not r.get("ok"):
                return {"violated": True, "detail": r["detail"], "job": {"custom": "replay_layout", "case": case}}
    return {"violated": False}


def replay_layout(job):
    import os, sys
    sys.path.insert(0, os.path.dirname(os.path.dirname(os.path.abspath(__file__))))
    from bounded import c06_layout as L
    r = L.run_case(job["case"])
    return {"violated": bool(r and not r.get("ok")), "detail": (r or {}).get("detail", "")}


def _row_map_case(tile_size, nrows, tiles):
    """tiles: [(tileid, [(tile_row_index, cell_count), ...]), ...] -> violation detail or None; the real row_storage_map on a minimal object store"""
    from types import SimpleNamespace as NS
    from numbers_parser.model import _NumbersModel
    fn = _NumbersModel.row_storage_map
    fn = getattr(fn, "__wrapped__", fn)
    objects = {1: NS(number_of_rows=nrows, base_data_store=NS(tiles=NS(tile_size=tile_size, tiles=[
        NS(tileid=tid, tile=NS(identifier=100 + i)) for i, (tid, _) in enumerate(tiles)])))}
    for i, (_, recs) in enumerate(tiles):
        objects[100 + i] = NS(rowInfos=[NS(tile_row_index=tri, cell_count=cc) for tri, cc in recs])
    got = fn(NS(objects=objects), 1)
    want, k = {i: None for i in range(nrows)}, 0
    for tid, recs in tiles:
        for tri, _ in recs:
            want[tid * (tile_size or 256) + tri] = k
            k += 1
    if dict(got) != want:
        bad = sorted(r for r in set(want) | set(got) if want.get(r, "absent") != got.get(r, "absent"))[:3]
        return (f"tile size {tile_size}, {nrows} rows, tiles {tiles}: row(s) {bad} are mapped to buffer position(s) {[got.get(r, 'absent') for r in bad]}, "
                f"their records are at position(s) {[want.get(r, 'absent') for r in bad]}")
    return None


def search_row_map(job):
    """small tile layouts, with records that hold no cells, tiles out of order and short tiles"""
    cases = []
    for ts in (0, 256, 4):
        e = ts or 256
        cases += [(ts, 3, [(0, [(0, 2), (1, 2), (2, 2)])]), (ts, 3, [(0, [(0, 2), (1, 0), (2, 2)])]), (ts, 4, [(0, [(0, 0), (1, 1), (3, 1)])]),
                  (ts, e + 2, [(0, [(i, 1) for i in range(e)]), (1, [(0, 1), (1, 1)])]), (ts, e + 2, [(1, [(0, 1), (1, 0)]), (0, [(0, 0), (2, 3)])]),
                  (ts, 2 * e + 1, [(0, [(0, 1)]), (2, [(0, 1)]), (1, [(e - 1, 0), (0, 5)])]), (ts, 2, [(0, [(1, 1), (0, 1)])]), (ts, 1, [])]
    for c in cases:
        d = _row_map_case(*c)
        if d:
            return {"violated": True, "detail": d, "job": {"custom": "replay_row_map", "case": [c[0], c[1], [[t, [list(r) for r in recs]] for t, recs in c[2]]]}}
    return {"violated": False}


def replay_row_map(job):
    ts, nrows, tiles = job["case"]
    d = _row_map_case(ts, nrows, [(t, [tuple(r) for r in recs]) for t, recs in tiles])
    return {"violated": bool(d), "detail": d or ""}


NATIVE = {}

"""C14 - Cell._duration_format under contract for whole numbers of seconds and spelled-out units (short / long style, explicit units):
the components shown are the mixed-radix digits of the stored duration over the units from the largest to the smallest selected one.

    shown units U = {u : largest <= u <= smallest} (+ weeks when largest is WEEK), in that order;
    n_u >= 0; every component after the first is below the size ratio to the unit before it (hours < 24 when days are shown, ...);
    sum n_u * size(u) <= d < sum + size(smallest shown), and == d when the smallest shown unit is seconds or milliseconds;
    a whole number of seconds shows 0 milliseconds.

Float arithmetic: d is a Python float holding a whole number 0 <= d < 2**53; `int(d / k)` is linked to integer division by lemma
FDIV-TRUNC (assumed, with its argument: the correctly rounded quotient of two integers below 2**53 cannot reach the next integer),
`d -= k * dd` and `1000 * d` are exact on such values.  Fractional durations and the compact style stay with the bounded stand-in."""
import z3

from pyvc.ctx import Contract
from pyvc.plan import Lemma
from pyvc.sym import Custom, PObj, SInt, SStr, Unsupported, fresh_name, wrap, as_int_term, is_intlike, lift, f2i, fdiv, i2f

SIZE = {1: 604800, 2: 86400, 4: 3600, 8: 60, 16: 1}
NAME = {1: "week", 2: "day", 4: "hour", 8: "minute", 16: "second", 32: "millisecond"}


def T(v):
    return as_int_term(v) if is_intlike(v) else lift(v)


class CompList(Custom):
    """ghost view of `dstr`: the components appended so far (unit code, number term)"""
    def __init__(self):
        self.comps = []

    def method(self, ex, name, args, kwargs, line):
        if name != "append" or not (isinstance(args[0], PObj) and args[0].cls == "Component"):
            # reachable only for the compact style, which this contract excludes: the obligation is discharged by the path condition
            ex.oblige(f"component@L{line}: a displayed component is a number followed by its unit text", z3.BoolVal(False), "ghost", line)
            self.comps.append((0, wrap(z3.IntVal(0))))
            return
        self.comps.append((args[0].fields["unit"], args[0].fields["n"]))

    def join(self, ex, sep, line):
        ex.entry_env["g_comps"] = list(self.comps)
        return SStr(z3.String(fresh_name("duration_text")))


def add(plan, ctx, srch):
    def comp(unit):
        def mk(ex, env):
            return PObj("Component", {"unit": unit, "n": env["dd"]})
        return mk
    opaque = {f"str(dd) + _unit_format('{NAME[u]}', dd, duration_style)": comp(u) for u in (1, 2, 4, 8, 16)}
    opaque["str(dd) + _unit_format('millisecond', dd, duration_style, 'ms')"] = comp(32)
    # compact style only (excluded by the entry condition; the path is infeasible and its obligations are discharged by that)
    opaque["re.sub(':(\\\\d\\\\d\\\\d)$', '.\\\\1', duration_str)"] = lambda ex, env: env["duration_str"]

    def entry(ex):
        d = ex.fresh("int", "whole_seconds")
        style, lg, sm = ex.fresh("int", "style"), ex.fresh("int", "largest"), ex.fresh("int", "smallest")
        units = [1, 2, 4, 8, 16, 32]
        ex.assume(z3.And(d.t >= 0, d.t < 2 ** 53, z3.Or(style.t == 1, style.t == 2), z3.Or(*[lg.t == u for u in units]), z3.Or(*[sm.t == u for u in units]), lg.t <= sm.t))
        fmt = PObj("DurationFormatV", {"duration_style": style, "duration_unit_largest": lg, "duration_unit_smallest": sm, "use_automatic_duration_units": False})
        cell = PObj("DurationCellV", {"_double": d, "_model": PObj("ModelDF", {"g_fmt": fmt}), "_table_id": ex.fresh("int", "table_id"),
                                      "_duration_format_id": ex.fresh("int", "format_id"), "row": ex.fresh("int", "row"), "col": ex.fresh("int", "col")})
        return {"self": cell, "g_d": d, "g_lg": lg, "g_sm": sm, "g_style": style}
    mm = ctx.method_models = getattr(ctx, "method_models", {})
    mm[("ModelDF", "table_format")] = lambda ex, o, a, k, l: o.fields["g_fmt"]

    def post(ex, env):
        comps = ex.entry_env.get("g_comps")
        if comps is None:
            return z3.BoolVal(False)
        d, lg, sm = T(env["g_d"]), T(env["g_lg"]), T(env["g_sm"])
        shown = [u for u, _ in comps]
        if 0 in shown:
            return z3.BoolVal(False)  # a compact-style component: only on paths the entry condition excludes
        # which units are shown is decided by (largest, smallest): on this path the concrete list must be exactly that set, in order
        want_shown = [z3.And(lg <= u, sm >= u) if u != 32 else sm >= 32 for u in (1, 2, 4, 8, 16, 32)]
        conj = [w == z3.BoolVal(u in shown) for u, w in zip((1, 2, 4, 8, 16, 32), want_shown)]
        conj.append(z3.BoolVal(shown == sorted(shown) and len(set(shown)) == len(shown)))
        total = z3.IntVal(0)
        prev = None
        for u, n in comps:
            nt = T(n)
            conj.append(nt >= 0)
            if u == 32:
                conj.append(nt == (1000 * (d - total) if prev is not None else 1000 * d))
                continue
            if prev is not None:
                conj.append(nt * SIZE[u] < SIZE[prev])
            total = total + nt * SIZE[u]
            prev = u
        real = [u for u in shown if u != 32]
        if real:
            last = real[-1]
            conj.append(total <= d)
            conj.append(d < total + SIZE[last])
            if 32 in shown or last == 16:
                conj.append(total == d)
        return z3.And(*conj)
    post.__name__ = ("the components are the mixed-radix digits of the stored whole number of seconds over the shown units (largest..smallest): non-negative, "
                     "each later one below the ratio to the unit before it, their weighted sum is the duration (rounded down to the smallest shown unit), "
                     "0 milliseconds")

    def fdiv_fact(ex, a, b):
        return z3.Implies(z3.And(a >= 0, a < 2 ** 53, b > 0), f2i(fdiv(i2f(a), i2f(b))) == a / b)
    plan.lemma(Lemma("FDIV-TRUNC", "0 <= a < 2**53, b > 0 integers: int(float(a) / float(b)) == a // b (the correctly rounded quotient of two such "
                                   "integers cannot reach the next integer: the gap 1/b below it exceeds half an ulp of the quotient)",
                     [], assumed=True, instance=lambda a, b: fdiv_fact(None, a, b)))
    def int_of_float(ex, t):
        if z3.is_app(t) and t.decl().name() == "fdiv" and all(z3.is_app(x) and x.decl().name() == "i2f" for x in t.children()):
            a, b = (x.arg(0) for x in t.children())
            ex.hints.append(fdiv_fact(ex, a, b))
            ex.notes.add("int(a / b) on whole numbers: lemma FDIV-TRUNC (assumed)")
    ctx.int_of_float = int_of_float
    c = Contract("cell:Cell._duration_format", label="whole-seconds/spelled-out", entry=entry, ensures=[post], safety="fork", opaque=opaque,
                 inline={"cell:unit_in_range", "cell:pad_digits", "cell:Cell._duration_format.unit_in_range", "cell:Cell._duration_format.pad_digits"},
                 local_views={"dstr": lambda ex, env: CompList()}, search=srch("search_durations"),
                 canaries=[lambda ex, env: z3.And(T(env["g_lg"]) == 2, T(env["g_sm"]) == 16)])
    plan.target(c)

    # ---- fractional durations (floats as reals, A-REAL): the same statement over the reals, with the millisecond component
    from pyvc import realfloat as RF
    RF.install(ctx)
    rf_int_of_float = ctx.int_of_float

    def int_of_float2(ex, t):
        if z3.is_app(t) and t.decl().name() == "fdiv":
            return int_of_float(ex, t)
        return rf_int_of_float(ex, t)
    ctx.int_of_float = int_of_float2

    def entry_frac(ex):
        env = entry(ex)
        d = ex.fresh("float", "seconds")
        ex.assume(z3.And(RF.RV(d.t) >= 0, RF.RV(d.t) < 2 ** 53))
        env["self"].fields["_double"] = d
        env["g_d"] = d
        return env

    def post_frac(ex, env):
        comps = ex.entry_env.get("g_comps")
        if comps is None:
            return z3.BoolVal(False)
        d, lg, sm = RF.RV(env["g_d"].t), T(env["g_lg"]), T(env["g_sm"])
        shown = [u for u, _ in comps]
        if 0 in shown:
            return z3.BoolVal(False)
        want_shown = [z3.And(lg <= u, sm >= u) if u != 32 else sm >= 32 for u in (1, 2, 4, 8, 16, 32)]
        conj = [w == z3.BoolVal(u in shown) for u, w in zip((1, 2, 4, 8, 16, 32), want_shown)]
        conj.append(z3.BoolVal(shown == sorted(shown) and len(set(shown)) == len(shown)))
        total, prev, ms = z3.IntVal(0), None, None
        for u, n in comps:
            nt = T(n)
            conj.append(nt >= 0)
            if u == 32:
                ms = nt
                continue
            if prev is not None:
                conj.append(nt * SIZE[u] < SIZE[prev])
            total = total + nt * SIZE[u]
            prev = u
        real = [u for u in shown if u != 32]
        if ms is not None:
            # the components, weighted, are the duration to the nearest millisecond
            diff = 1000 * d - 1000 * z3.ToReal(total) - z3.ToReal(ms)
            conj += [2 * diff <= 1, 2 * diff >= -1]
        elif real:
            conj += [z3.ToReal(total) <= d, d < z3.ToReal(total + SIZE[real[-1]])]
        return z3.And(*conj)
    post_frac.__name__ = ("any duration >= 0 (floats as reals): the shown components are non-negative, each later one below the ratio to the unit before it, "
                          "and their weighted sum is the duration rounded down to the smallest shown unit - to the nearest millisecond when milliseconds are shown")
    c2 = Contract("cell:Cell._duration_format", label="fractional/spelled-out", entry=entry_frac, ensures=[post_frac], safety="fork", opaque=opaque,
                  inline={"cell:unit_in_range", "cell:pad_digits", "cell:Cell._duration_format.unit_in_range", "cell:Cell._duration_format.pad_digits"},
                  local_views={"dstr": lambda ex, env: CompList()}, search=srch("search_durations"))
    plan.target(c2)

    # ---- _auto_units for durations that are not a whole number of seconds (floats as reals)
    def au_frac_entry(ex):
        v = ex.fresh("float", "seconds")
        ex.assume(z3.And(RF.RV(v.t) > 0, RF.RV(v.t) < 2 ** 53, z3.ToReal(RF.FLOOR(RF.RV(v.t))) != RF.RV(v.t), RF.floor_def(RF.RV(v.t))))
        nf = PObj("Format", {"duration_unit_largest": ex.fresh("int", "stored_largest"), "duration_unit_smallest": ex.fresh("int", "stored_smallest")})
        return {"cell_value": v, "number_format": nf}

    def au_frac_post(ex, env):
        v = RF.RV(env["cell_value"].t)
        sm, lg = T(env["result"][0]), T(env["result"][1])
        want_lg = z3.If(v >= 604800, 1, z3.If(v >= 86400, 2, z3.If(v >= 3600, 4, z3.If(v >= 60, 8, z3.If(v >= 1, 16, 32)))))
        return z3.And(lg == want_lg, sm == 32)
    au_frac_post.__name__ = "a duration with a fraction of a second: smallest unit milliseconds, largest the largest unit the value reaches (milliseconds below 1 s)"
    plan.target(Contract("cell:_auto_units", label="fractional", entry=au_frac_entry, ensures=[au_frac_post], safety="fork", search=srch("search_durations"),
                         opaque={"math.floor(cell_value)": lambda ex, env: SFloat_of_floor(ex, env["cell_value"])}))

    def SFloat_of_floor(ex, v):
        return wrap(RF.floor_int(ex, RF.RV(v.t)))

    def fdiv_sampled():
        """FDIV-TRUNC is assumed, not proved (z3's floating-point theory gave no verdict in 200 s per divisor): this samples it where it could
        fail - dividends one below, at and one above a multiple of the divisor, up to 2**53"""
        import random
        rnd, n, bad = random.Random(14), 0, []
        for b in (60, 3600, 86400, 604800):
            ks = [1, 2, 3, 10, 2 ** 20, 2 ** 31, (2 ** 53 - 2) // b] + [rnd.randrange(1, (2 ** 53 - 2) // b) for _ in range(20000)]
            for k in ks:
                for a in (k * b - 1, k * b, k * b + 1, k * b + b // 2):
                    n += 1
                    if int(float(a) / float(b)) != a // b:
                        bad.append((a, b))
        return (not bad), (bad[:3] or f"int(a / b) == a // b on {n} sampled dividends around multiples of 60, 3600, 86400, 604800 below 2**53 (sampled, not a proof)"), n
    plan.ground.append(("FDIV-TRUNC-sampled", fdiv_sampled))
    plan.callee(Contract("cell:debug", model=lambda ex, a, k, l: None, assumed=True, note="logging only"))
    return c

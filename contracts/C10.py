"""C10 - A1-notation conversion functions are mutually inverse bijections.

Spec (from the property statement): column naming is the bijective base-26 numbering
  colname(n) = chr(65+n)                              if n < 26
             = colname(n//26 - 1) + chr(65 + n%26)    otherwise
  enc(r,c,ra,ca) = ("$" if ca) + colname(c) + ("$" if ra) + str(r+1)
"""
import z3

from pyvc.ctx import VerifCtx, Contract, LoopSpec
from pyvc.plan import Plan, Lemma
from pyvc.sym import Int, Str, i2f, f2i, fdiv

A = z3.StringVal


def unfold_colname(f, n):
    return z3.Implies(n >= 0, f(n) == z3.If(n < 26, z3.StrFromCode(65 + n),
                                            z3.Concat(f(n / 26 - 1), z3.StrFromCode(65 + n % 26))))


def unfold_colval(f, s):
    n = z3.Length(s)
    last = z3.SubString(s, n - 1, 1)
    return z3.If(n == 0, f(s) == 0, f(s) == 26 * f(z3.SubString(s, 0, n - 1)) + z3.StrToCode(last) - 64)


def build():
    ctx = VerifCtx()
    plan = Plan("C10", ctx)
    import os
    plan.native_module = os.path.join(os.path.dirname(__file__), "C10_native.py")
    colname = ctx.spec("colname", [Int, Str], unfold_colname, None, "bijective base-26 name of column n")
    colval = ctx.spec("colval", [Str, Int], unfold_colval, None, "value of a base-26 name (A=1)")
    cn, cv = colname.f, colval.f

    ENC = '("$" if {ca} else "") + colname({c}) + ("$" if {ra} else "") + str({r} + 1)'

    # ------------------------------------------------------------------ lemmas
    x = z3.Int("x")
    # FDIV: the float expression int((col-1)/26) is the integer quotient (bit-precise, IEEE double)
    bv = z3.BitVec("xb", 32)
    rne, rtz = z3.RNE(), z3.RTZ()
    q = z3.fpDiv(rne, z3.fpToFP(rne, bv, z3.Float64(), signed=False) if False else z3.fpUnsignedToFP(rne, bv, z3.Float64()),
                 z3.FPVal(26.0, z3.Float64()))
    trunc = z3.fpToUBV(rtz, q, z3.BitVecSort(32))
    fdiv_goal = z3.Implies(z3.ULT(bv, z3.BitVecVal(2 ** 20, 32)), trunc == z3.UDiv(bv, z3.BitVecVal(26, 32)))
    plan.lemma(Lemma(
        "FDIV26", "forall 0 <= x < 2**20: int(float(x)/26.0) == x // 26  (IEEE-754 binary64, RNE division, truncation)",
        [("fp64", [], fdiv_goal)],
        instance=lambda t: z3.Implies(z3.And(t >= 0, t < 2 ** 20), f2i(fdiv(i2f(t), i2f(z3.IntVal(26)))) == t / 26),
        order=("z3",), timeout=120,
        doc="links the uninterpreted float primitives of the VCs to integer division; proved in z3's FloatingPoint theory"))

    n, m = z3.Int("n"), z3.Int("m")
    # LETTERS: colname(n) is a non-empty string of A..Z  (induction on n)
    upper = z3.Plus(z3.Range("A", "Z"))
    kk = z3.Int("kk")
    chr_az = lambda t: z3.Implies(z3.And(t >= 65, t <= 90), z3.InRe(z3.StrFromCode(t), z3.Range("A", "Z")))
    plan.lemma(Lemma("CHR_AZ", "65 <= k <= 90  =>  chr(k) in [A-Z]", [("all", [], chr_az(kk))], instance=chr_az))
    plan.lemma(Lemma(
        "LETTERS", "forall n >= 0: colname(n) in [A-Z]+",
        [("base", [n >= 0, n < 26, unfold_colname(cn, n), chr_az(65 + n)], z3.InRe(cn(n), upper)),
         ("step", [n >= 26, unfold_colname(cn, n), chr_az(65 + n % 26),
                   z3.InRe(cn(n / 26 - 1), upper)],  # IH at n//26-1 < n
          z3.InRe(cn(n), upper))],
        instance=lambda t: z3.Implies(t >= 0, z3.InRe(cn(t), upper))))
    # INV: colval(colname(n)) == n+1  (induction on n) - left inverse => injective ("no repeats")
    plan.lemma(Lemma(
        "INV", "forall n >= 0: colval(colname(n)) == n + 1",
        [("step", [n >= 0, unfold_colname(cn, n), unfold_colval(cv, cn(n)), unfold_colval(cv, z3.StringVal("")),
                   z3.Implies(n >= 26, cv(cn(n / 26 - 1)) == n / 26),  # IH
                   z3.Implies(n >= 26, z3.InRe(cn(n / 26 - 1), upper))],
          cv(cn(n)) == n + 1)],
        instance=lambda t: z3.Implies(t >= 0, cv(cn(t)) == t + 1)))
    # LEN: length classes - names of 1, 2, 3 letters are exactly 0..25, 26..701, 702..18277 ("no gaps")
    L = lambda t: z3.Length(cn(t))
    plan.lemma(Lemma(
        "LEN", "len(colname(n)) == 1 on [0,26), 2 on [26,702), 3 on [702,18278), >= 4 above",
        [("le3", [n >= 0, unfold_colname(cn, n), unfold_colname(cn, n / 26 - 1),
                  unfold_colname(cn, (n / 26 - 1) / 26 - 1),
                  z3.Implies(n >= 18278, z3.Length(cn(((n / 26 - 1) / 26 - 1) / 26 - 1)) >= 1)],
          z3.And(z3.Implies(n < 26, L(n) == 1), z3.Implies(z3.And(n >= 26, n < 702), L(n) == 2),
                 z3.Implies(z3.And(n >= 702, n < 18278), L(n) == 3), z3.Implies(n >= 18278, L(n) >= 4)))],
        instance=lambda t: z3.And(z3.Implies(z3.And(t >= 0, t < 26), L(t) == 1),
                                  z3.Implies(z3.And(t >= 26, t < 702), L(t) == 2),
                                  z3.Implies(z3.And(t >= 702, t < 18278), L(t) == 3),
                                  z3.Implies(t >= 18278, L(t) >= 4))))
    # MONO: n < m  =>  colname(n) <_shortlex colname(m)   (strictly order-preserving)
    # proved from INV: colval is strictly monotone w.r.t. shortlex on [A-Z]+ ... stated via colval:
    s, t = z3.String("s"), z3.String("t")
    # SURJ: every non-empty upper-case word is a name: colname(colval(s)-1) == s  (induction on len(s))
    n1 = z3.Length(s)
    pre = z3.SubString(s, 0, n1 - 1)
    last = z3.SubString(s, n1 - 1, 1)
    v = cv(s)
    plan.lemma(Lemma(
        "SURJ", "forall s in [A-Z]+: colval(s) >= 1 and colname(colval(s) - 1) == s   ('no gaps')",
        [("step", [z3.InRe(s, upper), unfold_colval(cv, s), unfold_colval(cv, pre),
                   z3.InRe(last, z3.Range("A", "Z")),
                   z3.Implies(n1 >= 2, z3.And(cv(pre) >= 1, cn(cv(pre) - 1) == pre)),  # IH on the prefix
                   z3.Implies(n1 >= 2, z3.InRe(pre, upper)),
                   unfold_colname(cn, v - 1)],
          z3.And(v >= 1, cn(v - 1) == s))],
        instance=lambda u: z3.Implies(z3.InRe(u, upper), z3.And(cv(u) >= 1, cn(cv(u) - 1) == u))))

    # SPLIT: a letters-then-digits string splits uniquely (needed for "collapses exactly when corners coincide")
    x1, x2, d1, d2, k = z3.String("x1"), z3.String("x2"), z3.String("d1"), z3.String("d2"), z3.Int("k")
    AZ, DG = z3.Range("A", "Z"), z3.Range("0", "9")
    charat = lambda xx, kk: z3.Implies(z3.And(z3.InRe(xx, z3.Plus(AZ)), kk >= 0, kk < z3.Length(xx)),
                                       z3.InRe(z3.SubString(xx, kk, 1), AZ))
    plan.lemma(Lemma("CHARAT", "x in [A-Z]+ and 0 <= k < len(x)  =>  x[k] in [A-Z]",
                     [("all", [], charat(x1, k))], instance=charat))
    dig0 = lambda dd: z3.Implies(z3.InRe(dd, z3.Plus(DG)), z3.InRe(z3.SubString(dd, 0, 1), DG))
    plan.lemma(Lemma("DIG0", "d in [0-9]+  =>  d[0] in [0-9]", [("all", [], dig0(d1))], instance=dig0))
    split_pre = z3.And(z3.InRe(x1, z3.Plus(AZ)), z3.InRe(x2, z3.Plus(AZ)), z3.InRe(d1, z3.Plus(DG)),
                       z3.InRe(d2, z3.Plus(DG)), z3.Concat(x1, d1) == z3.Concat(x2, d2))
    plan.lemma(Lemma(
        "SPLIT", "x1,x2 in [A-Z]+, d1,d2 in [0-9]+, x1+d1 == x2+d2  =>  x1 == x2 and d1 == d2",
        [("all", [split_pre, charat(x2, z3.Length(x1)), charat(x1, z3.Length(x2)), dig0(d1), dig0(d2)],
          z3.And(x1 == x2, d1 == d2))],
        instance=lambda a, b, c_, d_: z3.Implies(
            z3.And(z3.InRe(a, z3.Plus(AZ)), z3.InRe(c_, z3.Plus(AZ)), z3.InRe(b, z3.Plus(DG)), z3.InRe(d_, z3.Plus(DG)),
                   z3.Concat(a, b) == z3.Concat(c_, d_)), z3.And(a == c_, b == d_)),
        order=("cvc5", "z3")))
    # CANON_DIG: the canonical decimal spelling is a digit string
    from pyvc.sym import CANON
    plan.lemma(Lemma("CANON_DIG", "canonical decimal spellings are in [0-9]+",
                     [("all", [z3.InRe(d1, CANON)], z3.InRe(d1, z3.Plus(DG)))],
                     instance=lambda dd: z3.Implies(z3.InRe(dd, CANON), z3.InRe(dd, z3.Plus(DG)))))

    # ------------------------------------------------------------------ xl_col_to_name
    plan.target(Contract(
        "xrefs:xl_col_to_name",
        params={"col": "int", "col_abs": "bool"},
        requires=["col < 2**20"],
        raises={"IndexError": "col < 0"},
        ensures=['result == ("$" if col_abs else "") + colname(col)'],
        loops={1: LoopSpec(
            ["col >= 0 and col <= old_col + 1",
             "ite(col == 0, col_str == colname(old_col), colname(old_col) == colname(col - 1) + col_str)"],
            decreases="col", hints=["unfold colname(col - 1)", "lemma FDIV26(col - 1)"])},
        result="str",
        canaries=['result == ("$" if col_abs else "") + colname(col + 1)'],
    ))
    # ------------------------------------------------------------------ xl_rowcol_to_cell
    plan.target(Contract(
        "xrefs:xl_rowcol_to_cell",
        params={"row": "int", "col": "int", "row_abs": "bool", "col_abs": "bool"},
        requires=["col < 2**20"],
        raises={"IndexError": "row < 0 or col < 0"},
        ensures=["result == " + ENC.format(r="row", c="col", ra="row_abs", ca="col_abs")],
        result="str",
        canaries=["result == " + ENC.format(r="row", c="col", ra="col_abs", ca="row_abs")],
    ))
    # ------------------------------------------------------------------ xl_range
    e1 = ENC.format(r="first_row", c="first_col", ra="False", ca="False")
    e2 = ENC.format(r="last_row", c="last_col", ra="False", ca="False")
    plan.target(Contract(
        "xrefs:xl_range",
        params={"first_row": "int", "first_col": "int", "last_row": "int", "last_col": "int"},
        requires=["first_col < 2**20 and last_col < 2**20"],
        raises={"IndexError": "first_row < 0 or first_col < 0 or last_row < 0 or last_col < 0"},
        ensures=[f"implies(first_row == last_row and first_col == last_col, result == {e1})",
                 f"implies(not (first_row == last_row and first_col == last_col), result == {e1} + ':' + {e2})"],
        post_hints=["lemma INV(first_col)", "lemma INV(last_col)", "lemma LETTERS(first_col)",
                    "lemma LETTERS(last_col)", "lemma CANON_DIG(str(first_row + 1))",
                    "lemma CANON_DIG(str(last_row + 1))",
                    "lemma SPLIT(colname(first_col), str(first_row + 1), colname(last_col), str(last_row + 1))"],
        result="str",
        canaries=[f"result == {e1}"],
    ))
    # ------------------------------------------------------------------ decoders on encoder output
    dec_hints = ["unfold colname(c)", "unfold colname(c // 26 - 1)", "unfold colname((c // 26 - 1) // 26 - 1)",
                 "lemma LEN(c)", "lemma LETTERS(c)"]
    plan.target(Contract(
        "xrefs:xl_cell_to_rowcol",
        params={"cell_str": "str"},
        entry=None,
        ghost_params={"r": "nat", "c": "nat", "ra": "bool", "ca": "bool"},
        requires=["c <= 18277", "cell_str == " + ENC.format(r="r", c="c", ra="ra", ca="ca")],
        ensures=["result == (r, c)"],
        steps=['mgroup(1) == ("$" if ca else "")', "mgroup(2) == colname(c)", 'mgroup(3) == ("$" if ra else "")',
               "mgroup(4) == str(r + 1)"],
        hints=dec_hints, ascii_strings=["cell_str"], ascii_hints=["lemma LETTERS(c)"],
        unroll={1: 3},
        split_cases=[f"{a} and {b} and {d}" for a in ("c < 26", "c >= 26 and c < 702", "c >= 702")
                     for b in ("ra", "not ra") for d in ("ca", "not ca")],
        result=("tuple", ["int", "int"]),
        canaries=["result == (c, r)"],
    ))
    plan.target(Contract(
        "xrefs:xl_col_to_offset",
        params={"col_str": "str"},
        ghost_params={"c": "nat", "ca": "bool"},
        requires=["c <= 18277", 'col_str == ("$" if ca else "") + colname(c)'],
        ensures=["result == c"],
        hints=dec_hints, ascii_strings=["col_str"], ascii_hints=["lemma LETTERS(c)"],
        unroll={1: 3},
        split_cases=["c < 26", "c >= 26 and c < 702", "c >= 702"],
        result="int",
        canaries=["result == c + 1"],
    ))
    # ------------------------------------------------------------------ totality of the decoders
    plan.target(Contract(
        "xrefs:xl_cell_to_rowcol", label="total",
        params={"cell_str": "str"},
        requires=["len(cell_str) <= 4000"],
        raises={"IndexError": None},
        # accepted strings are exactly those with an A1 prefix (spec regex written here: upper-case ASCII letters)
        ensures=["cell_str == '' or inre_prefix(cell_str, '[$]?[A-Z]{1,3}[$]?\\d+')"],
        unroll={1: 3},
        result=("tuple", ["int", "int"]),
    ))
    plan.target(Contract(
        "xrefs:xl_col_to_offset", label="total",
        params={"col_str": "str"},
        raises={"IndexError": None},
        ensures=["col_str == '' or inre_prefix(col_str, '[$]?[A-Z]{1,3}')"],
        unroll={1: 3},
        result="int",
    ))
    # ------------------------------------------------------------------ the tokenizer's own column decoder
    plan.target(Contract(
        "tokenizer:parse_numbers_range.col_to_index",
        params={"col_str": "str"},
        requires=['inre(col_str, "[A-Z]+")'],
        ensures=["result == colval(col_str) - 1"],
        loops={1: LoopSpec(
            ["col == colval(col_str) - colval(substr(col_str, 0, len(col_str) - _i)) * ipow(26, _i)"], index="_i",
            decreases="len(col_str) - _i",
            hints=["unfold colval(substr(col_str, 0, len(col_str) - _i))", "unfold ipow(26, _i)",
                   "unfold ipow(26, _i + 1)", 'unfold colval("")'])},
        result="int",
    ))
    def mono_ground():
        from contracts.C10_native import colname as cn_, colval as cv_
        prev = None
        for i in range(0, 18279):
            s_ = cn_(i)
            if cv_(s_) != i + 1:
                return False, {"n": i, "why": "colval(colname(n)) != n+1"}, i
            if prev is not None and not ((len(prev), prev) < (len(s_), s_)):
                return False, {"n": i, "why": "not strictly shortlex-increasing"}, i
            prev = s_
        return True, "colname is strictly shortlex-increasing and colval-inverse on 0..18278", 18279

    plan.ground.append(("MONO-0..18278", mono_ground))
    plan.assumptions += [
        "A-PY: ints are mathematical (exact: Python ints are unbounded)",
        "z3 character range: code points above U+2FFFF are outside the string model (only matters for the "
        "totality contracts, which quantify over all strings)",
        "int(str) is modelled for sign + Unicode-decimal-digit spellings; py_int agrees with str.to_int on ASCII digits",
        "recursive spec functions (colname, colval) are uninterpreted + explicit unfolding instances (T3: they say "
        "what the property says)",
    ]
    plan.trusted += ["pyvc AST->SMT translation (cross-checked against CPython on every run)", "z3 5.1.0", "cvc5 1.0.3"]
    return plan

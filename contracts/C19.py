"""C19 - Sheet and table collections: unique names, consistent lookup, stable order.

Ghost view of an ItemsList: items = (len, at) list of item references; name(ref) is a heap field (the item's
name as its model reports it).  U = "no two siblings equal ignoring case".
"""
import os

import z3

from pyvc.ctx import VerifCtx, Contract, LoopSpec
from pyvc.plan import Plan, Lemma, BoundedStandIn
from pyvc.sym import (Int, Str, PObj, SList, SRef, SInt, SStr, SBool, fresh_name, py_lower, py_str, lift, wrap,
                      Unsupported, str_axiom)


def T(v):
    from pyvc.sym import is_intlike, as_int_term
    return as_int_term(v) if is_intlike(v) else lift(v)


def build():
    ctx = VerifCtx()
    plan = Plan("C19", ctx)
    plan.native_module = os.path.join(os.path.dirname(__file__), "C19_native.py")
    ctx.class_fields["Item"] = {"name": "str"}

    def name_arr(ex):
        return ex.heap_array("Item", "name")

    def mk_list(ex, tag="items"):
        ln = z3.Int(fresh_name(tag + "_len"))
        ex.assume(ln >= 0)
        at = z3.Const(fresh_name(tag + "_at"), z3.ArraySort(Int, Int))
        return SList(ln, at, "ref:Item")

    def distinct(ln, at):
        i, j = z3.Int("di"), z3.Int("dj")
        return z3.ForAll([i, j], z3.Implies(z3.And(0 <= i, i < j, j < ln), z3.Select(at, i) != z3.Select(at, j)))

    def uniq(ln, at, names):
        i, j = z3.Int("ui"), z3.Int("uj")
        return z3.ForAll([i, j], z3.Implies(z3.And(0 <= i, i < j, j < ln),
                                            py_lower(z3.Select(names, z3.Select(at, i))) !=
                                            py_lower(z3.Select(names, z3.Select(at, j)))))

    def items_entry(extra):
        def entry(ex):
            lst = mk_list(ex)
            env = {"self": PObj("ItemsList", {"_items": lst, "_item_name": "table"})}
            env["g_len"], env["g_at"] = SInt(lst.ln), lst.at
            for k, kind in extra.items():
                env[k] = ex.fresh(kind, k)
            return env
        return entry

    # ------------------------------------------------------------------ ItemsList.__getitem__(int)
    def lst_of(env):
        return env["self"].fields["_items"]  # __getitem__/__contains__ do not modify the list

    def gi_in_range(ex, env):
        k, n = T(env["key"]), lst_of(env).ln
        return z3.And(k >= -n, k < n)

    def gi_post(ex, env):
        k, n = T(env["key"]), lst_of(env).ln
        r = env["result"]
        return lift(r) == z3.Select(lst_of(env).at, z3.If(k < 0, k + n, k))
    gi_post.__name__ = "result is items[key] for 0<=key<n, items[n+key] for -n<=key<0"

    plan.target(Contract(
        "containers:ItemsList.__getitem__", label="int", entry=items_entry({"key": "int"}),
        raises={"IndexError": lambda ex, env: z3.Not(gi_in_range(ex, env))}, ensures=[gi_post],
        safety="fork", when=lambda args: isinstance(args[1], (int, SInt)) and not isinstance(args[1], bool),
        result="ref:Item", replay=replay_getitem_int,
        canaries=[lambda ex, env: lift(env["result"]) == z3.Select(lst_of(env).at, T(env["key"]) + 1)]))

    # ------------------------------------------------------------------ ItemsList.__getitem__(str)
    def gs_none(ex, env):
        j = z3.Int("gj")
        return z3.ForAll([j], z3.Implies(z3.And(0 <= j, j < T(env["g_len"])),
                                         z3.Select(name_arr(ex), z3.Select(env["g_at"], j)) != T(env["key"])))

    def gs_inv(ex, env):
        j = z3.Int("gj2")
        i = T(env["_i"]) if isinstance(env["_i"], SInt) else z3.IntVal(env["_i"])
        return z3.ForAll([j], z3.Implies(z3.And(0 <= j, j < i),
                                         z3.Select(name_arr(ex), z3.Select(env["g_at"], j)) != T(env["key"])))

    def gs_post(ex, env):
        fin = env["__final__"]
        i = T(fin["_i"])
        r = lift(env["result"])
        return z3.And(r == z3.Select(env["g_at"], i), z3.Select(name_arr(ex), r) == T(env["key"]), gs_inv(ex, fin | {"g_at": env["g_at"], "key": env["key"]}))
    gs_post.__name__ = "result is the first item whose name is exactly key"

    plan.target(Contract(
        "containers:ItemsList.__getitem__", label="str", entry=items_entry({"key": "str"}),
        raises={"KeyError": gs_none}, ensures=[gs_post],
        loops={1: LoopSpec([gs_inv], index="_i", decreases="len(self._items) - _i")},
        safety="fork", when=lambda args: isinstance(args[1], (str, SStr)), result="ref:Item"))

    # ------------------------------------------------------------------ ItemsList.__contains__
    def exists_lower(ex, lst_ln, lst_at, key_t):
        i = z3.Int(fresh_name("ci"))
        return z3.Exists([i], z3.And(0 <= i, i < lst_ln,
                                     py_lower(z3.Select(name_arr(ex), z3.Select(lst_at, i))) == py_lower(key_t)))

    def contains_post(ex, env):
        lst = env["self"].fields["_items"]
        r = env["result"]
        rt = r.t if isinstance(r, SBool) else z3.BoolVal(bool(r))
        return rt == exists_lower(ex, lst.ln, lst.at, lift(env["key"]))
    contains_post.__name__ = "result iff some item's name equals key ignoring case"

    plan.target(Contract(
        "containers:ItemsList.__contains__", entry=items_entry({"key": "str"}), ensures=[contains_post],
        result="bool",
        canaries=[lambda ex, env: (env["result"].t if isinstance(env["result"], SBool) else z3.BoolVal(bool(env["result"]))) ==
                  z3.BoolVal(True)]))

    # ------------------------------------------------------------------ adders
    LOWER_TABLE = Lemma(
        "LOWER_GEN", "for n >= 0 and the literals L in {'Table ','table ','Sheet ','sheet '}: "
                     "lower(L + str(n)) == lower-case literal + str(n)  (ASCII letters and digits only)",
        [], assumed=True,
        instance=lambda n: z3.And(*[py_lower(z3.Concat(z3.StringVal(a), py_str(n))) == z3.Concat(z3.StringVal(b), py_str(n))
                                    for a, b in (("Table ", "table "), ("table ", "table "), ("Sheet ", "sheet "), ("sheet ", "sheet "))]))
    plan.lemma(LOWER_TABLE)

    def new_item_model(cls):
        def ctor(ex, args, kwargs, line):
            r = z3.Int(fresh_name("newref"))
            obj = PObj(cls, {"__ref__": r, "_tables": PObj("ItemsList", {"_items": SList(z3.IntVal(0), z3.K(Int, z3.IntVal(0)), "ref:Item"),
                                                                          "_item_name": "table"})})
            # a freshly constructed object is not any existing list element
            for lst in getattr(ex, "live_lists", []):
                i = z3.Int(fresh_name("fi"))
                ex.assume(z3.ForAll([i], z3.Implies(z3.And(0 <= i, i < lst.ln), z3.Select(lst.at, i) != r)))
            for r0 in getattr(ex, "new_refs", []):
                ex.assume(r0 != r)
            ex.new_refs = getattr(ex, "new_refs", []) + [r]
            # its name is the name the model was given for this id (assumed link to the model)
            nm = ex.pending_name
            ex.heap_store(SRef(r, "Item"), "name", nm)
            return obj
        return ctor

    ctx.constructors["Table"] = new_item_model("Table")
    ctx.constructors["Sheet"] = new_item_model("Sheet")

    def model_add(ex, args, kwargs, line):
        # _NumbersModel.add_table(sheet_id, table_name, ...) / add_sheet(sheet_name): remember the name given
        ex.pending_name = args[2] if len(args) > 3 else args[1]
        return ex.fresh("int", "new_id")

    plan.callee(Contract("model:_NumbersModel.add_table", model=model_add, assumed=True,
                         note="returns the id of a new table whose name is the table_name argument (model internals)"))
    plan.callee(Contract("model:_NumbersModel.add_sheet", model=model_add, assumed=True,
                         note="returns the id of a new sheet whose name is the sheet_name argument (model internals)"))

    def adder_entry(kind, named):
        def entry(ex):
            lst = mk_list(ex)
            ex.live_lists = [lst]
            ex.new_refs = []
            H0 = name_arr(ex)
            ex.assume(uniq(lst.ln, lst.at, H0))
            ex.assume(distinct(lst.ln, lst.at))
            coll = PObj("ItemsList", {"_items": lst, "_item_name": kind})
            model = PObj("_NumbersModel", {})
            env = {"g_len": SInt(lst.ln), "g_at": lst.at, "g_names": H0}
            nm = ex.fresh("str", "given_name") if named else None
            if kind == "table":
                env.update({"self": PObj("Sheet", {"_tables": coll, "_model": model, "_sheet_id": ex.fresh("int", "sid")}),
                            "table_name": nm, "from_table_id": ex.fresh("int", "ftid"), "x": None, "y": None,
                            "num_rows": ex.fresh("int", "nr"), "num_cols": ex.fresh("int", "nc"),
                            "num_header_rows": ex.fresh("int", "nhr"), "num_header_cols": ex.fresh("int", "nhc")})
            else:
                ex.assume(lst.ln >= 1)
                env.update({"self": PObj("Document", {"_sheets": coll, "_model": model}), "sheet_name": nm,
                            "table_name": ex.fresh("str", "tname"), "num_rows": ex.fresh("int", "nr"),
                            "num_cols": ex.fresh("int", "nc")})
            return env
        return entry

    def coll_of(env):
        s = env["self"]
        return s.fields["_tables"] if s.cls == "Sheet" else s.fields["_sheets"]

    def dup(ex, env, key):
        return exists_lower_names(env["g_names"], T(env["g_len"]), env["g_at"], lift(env[key]))

    def exists_lower_names(names, ln, at, key_t):
        i = z3.Int(fresh_name("ei"))
        return z3.Exists([i], z3.And(0 <= i, i < ln, py_lower(z3.Select(names, z3.Select(at, i))) == py_lower(key_t)))

    def grew_by_one(ex, env):
        lst = coll_of(env).fields["_items"]
        n, at0 = T(env["g_len"]), env["g_at"]
        j = z3.Int("pj")
        return z3.And(lst.ln == n + 1, z3.ForAll([j], z3.Implies(z3.And(0 <= j, j < n), z3.Select(lst.at, j) == z3.Select(at0, j))),
                      z3.ForAll([j], z3.Implies(z3.And(0 <= j, j < n),
                                                z3.Select(name_arr(ex), z3.Select(at0, j)) == z3.Select(env["g_names"], z3.Select(at0, j)))))
    grew_by_one.__name__ = "exactly one item appended; earlier items and their names unchanged (order stable)"

    def still_unique(ex, env):
        lst = coll_of(env).fields["_items"]
        return uniq(lst.ln, lst.at, name_arr(ex))
    still_unique.__name__ = "U: no two siblings equal ignoring case (given U before)"

    def named_post(key):
        def post(ex, env):
            lst = coll_of(env).fields["_items"]
            return z3.Select(name_arr(ex), z3.Select(lst.at, T(env["g_len"]))) == lift(env[key])
        post.__name__ = "the new item carries exactly the given name"
        return post

    def fresh_post(ex, env):
        lst = coll_of(env).fields["_items"]
        newname = z3.Select(name_arr(ex), z3.Select(lst.at, T(env["g_len"])))
        return z3.Not(exists_lower_names(env["g_names"], T(env["g_len"]), env["g_at"], newname))
    fresh_post.__name__ = "the generated name differs from every existing sibling ignoring case"

    def unchanged(ex, env):
        lst = coll_of(env).fields["_items"]
        ok = z3.And(lst.ln == T(env["g_len"]), lst.at == env["g_at"]) if not lst.at.eq(env["g_at"]) else lst.ln == T(env["g_len"])
        return z3.And(ok, name_arr(ex) == env["g_names"]) if not name_arr(ex).eq(env["g_names"]) else ok
    unchanged.__name__ = "a refused duplicate leaves the collection and all names unchanged"

    def returns_new(ex, env):
        lst = coll_of(env).fields["_items"]
        return lift(env["result"]) == z3.Select(lst.at, T(env["g_len"]))
    returns_new.__name__ = "returns the appended item"

    common = dict(inline={"containers:ItemsList.append", "containers:ItemsList.__len__"}, safety="fork")
    tbl_post = [grew_by_one, still_unique, returns_new]
    plan.target(Contract("document:Sheet._add_table", label="named", entry=adder_entry("table", True),
                         raises={"IndexError": lambda ex, env: dup(ex, env, "table_name")},
                         ensures=tbl_post + [named_post("table_name")], exc_ensures=[unchanged], **common))
    plan.target(Contract("document:Sheet._add_table", label="generated", entry=adder_entry("table", False),
                         ensures=tbl_post + [fresh_post],
                         loops={1: LoopSpec(["table_num >= 1"], hints=["lemma LOWER_GEN(table_num)"])},
                         post_hints=["lemma LOWER_GEN(final_table_num)"], **common))
    sheet_opaque = {"self._sheets[-1]._tables[0]._table_id": "int"}
    plan.target(Contract("document:Document.add_sheet", label="named", entry=adder_entry("sheet", True),
                         raises={"IndexError": lambda ex, env: dup(ex, env, "sheet_name")},
                         ensures=[grew_by_one, still_unique, named_post("sheet_name")], exc_ensures=[unchanged],
                         opaque=sheet_opaque, **common))
    plan.target(Contract("document:Document.add_sheet", label="generated", entry=adder_entry("sheet", False),
                         ensures=[grew_by_one, still_unique, fresh_post],
                         loops={1: LoopSpec(["sheet_num >= 1"], hints=["lemma LOWER_GEN(sheet_num)"])},
                         post_hints=["lemma LOWER_GEN(final_sheet_num)"], opaque=sheet_opaque, **common))

    def probe_lower():
        for n in list(range(0, 3000)) + [10 ** 6, 10 ** 9 + 7, 2 ** 70]:
            for a, b in (("Table ", "table "), ("table ", "table "), ("Sheet ", "sheet "), ("sheet ", "sheet ")):
                if (a + str(n)).lower() != b + str(n):
                    return False, {"n": n, "literal": a}, n
        return True, "lower(L+str(n)) == l+str(n) on 0..2999 and three large n", 3003 * 4

    plan.probes.append(("LOWER_GEN", probe_lower))
    plan.bounded.append(BoundedStandIn(
        "collections-reopen", "c19_collections.py", ["--max-len", "2"], thorough_args=["--max-len", "3", "--random", "300"],
        bound="all add_sheet/add_table/rename histories of length <= 2 (thorough: <= 3) plus 60 (300) seeded random ones of "
              "length 5, over a 5-name alphabet with case variants, generated-looking and non-ASCII names; all integer "
              "indices in [-2n, 2n]; save/reopen after every history of length <= 2 and every random one",
        functions=["Document.add_sheet", "Sheet.add_table", "Sheet.name/Table.name setters", "Document.save", "Document(path)"]))
    plan.assumptions += [
        "item names are a heap field name(item) (the model's record of the name); model.add_table/add_sheet give the new "
        "item the name they were passed (assumed model contract)",
        "a freshly constructed Sheet/Table object is distinct from every existing element",
        "A-LOWER: str.lower on 'Table '/'Sheet ' + decimal digits (assumed lemma LOWER_GEN, probed natively)",
        "add_sheet: the sub-expression self._sheets[-1]._tables[0]._table_id is abstracted to a fresh int (the document "
        "has a sheet with a table); termination of the naming loops is NOT proved",
        "Sheet/Table constructors and model internals are outside the contract (assumed)",
    ]
    plan.trusted += ["pyvc AST->SMT translation (cross-checked against CPython)", "z3 5.1.0 (quantified VCs: MBQI/E-matching)", "cvc5 1.0.3"]
    plan.level = "proof"
    for c_ in plan.targets:
        if getattr(c_, "search", None) is None:
            c_.search = lambda plan_, c: {"custom": "search_collections", "native_module": plan_.native_module}
    return plan


def replay_getitem_int(plan, c, inputs, ob):
    return {"custom": "replay_getitem_int", "native_module": plan.native_module, "inputs": inputs}

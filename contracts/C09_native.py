"""Native side of C09: header labels of real tables with several header rows / columns."""


def search_labels(job):
    """the name of a column is its cell in the bottom header row, the name of a row its cell in the last header column"""
    import warnings
    from numbers_parser import Document
    warnings.simplefilter("ignore")
    for nhr, nhc in ((1, 1), (2, 1), (1, 2), (3, 2), (2, 3)):
        doc = Document(num_rows=6, num_cols=6, num_header_rows=nhr, num_header_cols=nhc)
        t = doc.sheets[0].tables[0]
        for r in range(6):
            for c in range(6):
                t.write(r, c, f"cell-{r}-{c}")
        cache = doc._model.name_ref_cache if hasattr(doc._model, "name_ref_cache") else None
        if cache is None:
            from numbers_parser.xrefs import ScopedNameRefCache
            cache = ScopedNameRefCache(doc._model)
        for c in range(nhc, 6):
            got = cache._column_data(t._table_id, c)
            if got != f"cell-{nhr - 1}-{c}":
                return {"violated": True, "detail": f"table with {nhr} header rows: column {c} is named by {got!r}; the cell in its bottom header row reads 'cell-{nhr - 1}-{c}'"}
        for r in range(nhr, 6):
            got = cache._row_data(t._table_id, r)
            if got != f"cell-{r}-{nhc - 1}":
                return {"violated": True, "detail": f"table with {nhc} header columns: row {r} is named by {got!r}; the cell in its last header column reads 'cell-{r}-{nhc - 1}'"}
    return {"violated": False}


def search_refs(job):
    """printed references of small generated documents (a selection of the bounded stand-in's configurations), resolved by its
    independent resolver"""
    import os, sys, warnings
    sys.path.insert(0, os.path.dirname(os.path.dirname(os.path.abspath(__file__))))
    from bounded import c09_refs as R
    warnings.simplefilter("ignore")
    lab = {"col": ["alpha", "beta", "gamma", "delta"], "row": ["r1", "r2", "r3", "r4"]}
    cases = [{"tables": [["A"]], "hdr": [0, 0]}, {"tables": [["A", "B"], ["A"]], "hdr": [0, 0]}, {"tables": [["A", "B"], ["C", "B"]], "hdr": [1, 1], "labels": lab},
             {"tables": [["A"], ["A"], ["A"]], "hdr": [1, 1], "labels": dict(lab, vary=True)}, {"tables": [["Costs 2020", "B"], ["Costs 2020"]], "hdr": [1, 0], "labels": lab},
             {"tables": [["A", "B"]], "hdr": [2, 2], "labels": dict(lab, cross=True)},
             {"tables": [["A", "B"], ["B", "C"], ["C"]], "hdr": [0, 0], "then": [["rename_table", 0, 0, "C"]]},
             {"tables": [["A", "B"]], "hdr": [1, 1], "labels": lab, "then": [["label", 0, 0, "col", 1, "gamma"]]},
             {"tables": [["A", "B"], ["C"]], "hdr": [0, 0], "then": [["rename_table", 1, 0, "A"]]},
             {"tables": [["A", "B"], ["B", "C"], ["C"]], "hdr": [0, 0], "then": [["rename_table", 1, 1, "A"]]},
             {"tables": [["A"], ["B"]], "hdr": [0, 0], "then": [["rename_sheet", 1, "S9"]]}]
    shared = {"col": ["fruit", "beta", "gamma", "fruit", "delta"], "row": ["veg", "r2", "r3", "veg", "r5"]}
    cases += [{"tables": [["A", "B"]], "hdr": list(h), "labels": shared} for h in ((1, 0), (0, 1), (2, 1), (1, 2))]
    cases += [{"tables": [["A"]], "hdr": [1, 1], "labels": {"col": ["x", "dup", "dup", "dup"], "row": ["r1", "r2", "r3", "r4"]}}]
    for c in cases:
        r = R.run_case(c)
        if r and r.get("detail"):
            return {"violated": True, "detail": r["detail"], "job": {"custom": "replay_refs", "case": c}}
    return {"violated": False}


def replay_refs(job):
    import os, sys, warnings
    sys.path.insert(0, os.path.dirname(os.path.dirname(os.path.abspath(__file__))))
    from bounded import c09_refs as R
    warnings.simplefilter("ignore")
    r = R.run_case(job["case"])
    return {"violated": bool(r and r.get("detail")), "detail": (r or {}).get("detail", "")}


NATIVE = {}

"""C16 - Table geometry and labels survive save and reopen unchanged.

Kernels (contract-based, real source):
  * model.recalculate_row_headers (any number of rows, loop invariant): header r carries index r, the row's cell count, and as size
      - the height held in the session cache less the whole points the row's borders add back on reading, if the row was read or set,
      - otherwise exactly the size stored in the source document (0.0 = default if there was none): nothing is lost by not querying;
  * model.recalculate_column_headers: header c carries col_width(c) less the whole points its borders add back;
  * model.row_height / col_width: setting stores the value in the cache and returns it; a cached value is returned as is;
  * lemma GEOMETRY-STABLE (integer/real arithmetic over the reader's formula floor(round(s) + b)): what is written reads back as the same
    height, for every border allowance b >= 0, and a second cycle writes the same size again (no drift).
Names, captions, header counts, coordinates and whole documents over 1..3 cycles: bounded stand-in.
"""
import os

import z3

from pyvc.ctx import VerifCtx, Contract, LoopSpec
from pyvc.plan import Plan, Lemma, BoundedStandIn
from pyvc.sym import (Custom, Int, Str, Bool, PObj, PDict, PList, SList, SInt, SStr, SBool, SOpt, SFloat, Unsupported, fresh_name, lift, wrap,
                      as_int_term, is_intlike, ClassRef)

A = z3.ArraySort


def T(v):
    return as_int_term(v) if is_intlike(v) else lift(v)


def build():
    ctx = VerifCtx()
    plan = Plan("C16", ctx)
    plan.native_module = os.path.join(os.path.dirname(__file__), "C16_native.py")
    srch = lambda plan_, c: {"custom": "search_geometry", "native_module": plan_.native_module}
    mm = ctx.method_models = getattr(ctx, "method_models", {})
    FB = z3.Function("floor_of_border_allowance", Int, Int)  # floor(row_border_height(row)) / floor(col_border_width(col))
    NCELLS = z3.Function("cells_in_line", Int, Int)

    class Headers(Custom):
        def __init__(self, ln, idx, ncells, size):
            self.ln, self.idx, self.ncells, self.size = ln, idx, ncells, size

        @staticmethod
        def fresh(tag):
            return Headers(z3.Int(fresh_name(tag + "_len")), z3.Const(fresh_name(tag + "_idx"), A(Int, Int)),
                           z3.Const(fresh_name(tag + "_nc"), A(Int, Int)), z3.Const(fresh_name(tag + "_size"), A(Int, Int)))

        def length(self, ex):
            return self.ln

        def method(self, ex, name, args, kwargs, line):
            if name != "append":
                raise Unsupported(f"headers.{name}")
            h = args[0].fields
            if T(h["hidingState"]) is None:
                raise Unsupported("header without hidingState")
            self.idx = z3.Store(self.idx, self.ln, T(h["index"]))
            self.ncells = z3.Store(self.ncells, self.ln, T(h["numberOfCells"]))
            self.size = z3.Store(self.size, self.ln, T(h["size"]))
            self.ln = self.ln + 1

    class Grid(Custom):
        def __init__(self, n):
            self.n = n

        def length(self, ex):
            return self.n

        def getitem(self, ex, idx, line):
            ex.safety(z3.And(T(idx) >= -self.n, T(idx) < self.n), "IndexError", "data-row-index", line)
            return Line(NCELLS(T(idx)))

    class Line(Custom):
        def __init__(self, n):
            self.n = n

        def length(self, ex):
            return self.n

    ctx.constructors["Header"] = lambda ex, args, kwargs, line: PObj("Header", dict(kwargs))
    ctx.extra_globals["TSTArchives"] = PObj("module", {"HeaderStorageBucket": PObj("module", {"Header": ClassRef("Header")})})

    def clear(ex, env):
        b = env["buckets"].fields["headers"]
        b.ln = z3.IntVal(0)
        return None

    def sym_dict(tag, ksort=Int, vsort=Int, vkind="int"):
        d = PDict()
        d.sym = {"dom": z3.Const(fresh_name(tag + "_dom"), A(ksort, Bool)), "val": z3.Const(fresh_name(tag + "_val"), A(ksort, vsort)), "vkind": vkind}
        return d

    def rh_entry(cached_table):
        def entry(ex):
            n = z3.Int(fresh_name("n_rows"))
            ex.assume(n >= 0)
            heights = PDict()
            table_id = ex.fresh("int", "table_id")
            inner = sym_dict("cache")
            if cached_table:
                heights.symtok = (table_id, inner)
            stored = sym_dict("stored")
            buckets = PObj("Buckets", {"headers": Headers.fresh("old_headers")})
            return {"self": PObj("_NumbersModel", {"_row_heights": heights}), "table_id": table_id, "data": Grid(n), "g_n": SInt(n),
                    "g_cache": inner if cached_table else None, "g_stored": stored, "g_buckets": buckets}
        return entry

    def rh_want(env, r):
        st = env["g_stored"].sym
        keep = z3.If(z3.Select(st["dom"], r), z3.Select(st["val"], r), 0)
        if env["g_cache"] is None:
            return keep
        c = env["g_cache"].sym
        return z3.If(z3.Select(c["dom"], r), z3.Select(c["val"], r) - FB(r), keep)

    def rh_facts(env, hs, upto):
        k = z3.Int(fresh_name("hk"))
        return z3.ForAll([k], z3.Implies(z3.And(0 <= k, k < upto), z3.And(
            z3.Select(hs.idx, k) == k, z3.Select(hs.ncells, k) == NCELLS(k), z3.Select(hs.size, k) == rh_want(env, k))))

    def rh_inv(ex, env):
        hs = env["g_buckets"].fields["headers"]
        i = T(env["_i"])
        return z3.And(i >= 0, i <= env["g_n"].t, hs.ln == i, rh_facts(env, hs, i))

    def rh_havoc(ex, env):
        env["g_buckets"].fields["headers"] = Headers.fresh("headers")

    def rh_post(ex, env):
        hs = env["g_buckets"].fields["headers"]
        return z3.And(hs.ln == env["g_n"].t, rh_facts(env, hs, env["g_n"].t))
    rh_post.__name__ = ("one header per row, in order: index r, the row's cell count, size = (cached height - floor(border allowance)) if the row is in "
                        "the session cache, else the size stored in the source (0.0 if none): an unqueried row keeps its stored size")
    mm[("_NumbersModel", "row_border_height")] = lambda ex, o, a, k, l: PObj("Allowance", {"line": a[1]})
    mm[("_NumbersModel", "col_border_width")] = lambda ex, o, a, k, l: PObj("Allowance", {"line": a[1]})

    def floor_allow(var):
        return lambda ex, env: wrap(FB(T(env[var])))
    for lab, cached in (("table-cached", True), ("table-not-cached", False)):
        plan.target(Contract(
            "model:_NumbersModel.recalculate_row_headers", label=lab, entry=rh_entry(cached), ensures=[rh_post], safety="fork", search=srch,
            opaque={"self.objects[table_id].base_data_store": lambda ex, env: PObj("DataStore", {}),
                    "self.objects[base_data_store.rowHeaders.buckets[0].identifier]": lambda ex, env: ex.entry_env["g_buckets"],
                    "{x.index: x.size for x in buckets.headers}": lambda ex, env: ex.entry_env["g_stored"],
                    "clear_field_container(buckets.headers)": clear,
                    "floor(self.row_border_height(table_id, row))": floor_allow("row"),
                    "stored_sizes.get(row, 0.0)": lambda ex, env: wrap(z3.If(z3.Select(ex.entry_env["g_stored"].sym["dom"], T(env["row"])),
                                                                          z3.Select(ex.entry_env["g_stored"].sym["val"], T(env["row"])), 0))},
            loops={1: LoopSpec([rh_inv], index="_i", havoc=[rh_havoc])},
            canaries=[lambda ex, env: z3.Select(env["g_buckets"].fields["headers"].size, 0) == 0]))

    # ---- column headers
    CW = z3.Function("col_width_read", Int, Int)  # what col_width(col) returns in this session

    def ch_entry(ex):
        n = z3.Int(fresh_name("n_cols"))
        ex.assume(n >= 0)
        buckets = PObj("Buckets", {"headers": Headers.fresh("old_headers")})
        cols = SList(n, z3.Const(fresh_name("coldata"), A(Int, Int)), "int")
        return {"self": PObj("_NumbersModel", {}), "table_id": ex.fresh("int", "table_id"), "data": PObj("DataGrid", {}), "g_n": SInt(n),
                "g_buckets": buckets, "g_cols": cols, "g_widths": None}
    mm[("_NumbersModel", "number_of_columns")] = lambda ex, o, a, k, l: ex.entry_env["g_n"]
    mm[("_NumbersModel", "col_width")] = lambda ex, o, a, k, l: wrap(CW(T(a[1])))

    class Widths(Custom):
        """current_column_widths: col -> value, filled for cols < upto"""
        def __init__(self, upto, val):
            self.upto, self.val = upto, val

        def setitem(self, ex, idx, v, line):
            ex.oblige(f"widths-filled-in-order@L{line}", T(idx) == self.upto, "ghost", line)
            self.val = z3.Store(self.val, T(idx), T(v))
            self.upto = self.upto + 1

        def getitem(self, ex, idx, line):
            ex.safety(z3.And(T(idx) >= 0, T(idx) < self.upto), "KeyError", "width-known", line)
            return wrap(z3.Select(self.val, T(idx)))

    def ch_inv1(ex, env):
        w = env["current_column_widths"]
        i, k = T(env["_i"]), z3.Int(fresh_name("wk"))
        return z3.And(i >= 0, i <= env["g_n"].t, w.upto == i, z3.ForAll([k], z3.Implies(z3.And(0 <= k, k < i), z3.Select(w.val, k) == CW(k) - FB(k))))

    def ch_havoc1(ex, env):
        env["current_column_widths"] = Widths(z3.Int(fresh_name("w_upto")), z3.Const(fresh_name("w_val"), A(Int, Int)))

    def ch_facts(env, hs, upto):
        k = z3.Int(fresh_name("ck"))
        return z3.ForAll([k], z3.Implies(z3.And(0 <= k, k < upto), z3.And(z3.Select(hs.idx, k) == k, z3.Select(hs.size, k) == CW(k) - FB(k))))

    def ch_inv2(ex, env):
        hs = env["g_buckets"].fields["headers"]
        w = env["current_column_widths"]
        i, k = T(env["_j"]), z3.Int(fresh_name("wk"))
        return z3.And(i >= 0, i <= env["g_n"].t, hs.ln == i, ch_facts(env, hs, i), w.upto == env["g_n"].t,
                      z3.ForAll([k], z3.Implies(z3.And(0 <= k, k < env["g_n"].t), z3.Select(w.val, k) == CW(k) - FB(k))))

    def ch_post(ex, env):
        hs = env["g_buckets"].fields["headers"]
        return z3.And(hs.ln == env["g_n"].t, ch_facts(env, hs, env["g_n"].t))
    ch_post.__name__ = "one header per column, in order: index c, size = col_width(c) as read in this session - floor(border allowance of c)"
    plan.target(Contract(
        "model:_NumbersModel.recalculate_column_headers", entry=ch_entry, ensures=[ch_post], safety="fork", search=srch,
        opaque={"self.objects[table_id].base_data_store": lambda ex, env: PObj("DataStore", {}),
                "self.objects[base_data_store.columnHeaders.identifier]": lambda ex, env: ex.entry_env["g_buckets"],
                "clear_field_container(buckets.headers)": clear,
                "floor(self.col_border_width(table_id, col))": floor_allow("col"),
                "[list(x) for x in zip(*data)]": lambda ex, env: ex.entry_env["g_cols"],
                "len(cells) - sum([isinstance(x, MergedCell) for x in cells])": "int"},
        local_views={"current_column_widths": lambda ex, env: Widths(z3.IntVal(0), z3.K(Int, z3.IntVal(0)))},
        loops={1: LoopSpec([ch_inv1], index="_i", havoc=[ch_havoc1], kinds={"current_column_widths": "skip"}),
               2: LoopSpec([ch_inv2], index="_j", havoc=[rh_havoc])},
        canaries=[lambda ex, env: z3.Select(env["g_buckets"].fields["headers"].size, 0) == CW(0)]))

    # ---- GEOMETRY-STABLE
    R, h, fb, s2, R2 = z3.Int("rounded_stored_size"), z3.Int("height_read"), z3.Int("floor_b"), z3.Int("size_written"), z3.Int("rounded_written")
    b = z3.Real("border_allowance")
    flo = lambda x, t: z3.And(z3.ToReal(x) <= t, t < z3.ToReal(x) + 1)  # x == floor(t)
    plan.lemma(Lemma("GEOMETRY-STABLE", "reader h = floor(round(s) + b), writer s' = h - floor(b), b >= 0: s' == round(s), reading s' gives h again, "
                                        "and writing again gives s' again (no drift), for every border allowance",
                     [("written-size", [b >= 0, flo(fb, b), flo(h, z3.ToReal(R) + b), s2 == h - fb], s2 == R),
                      ("reads-back", [b >= 0, flo(fb, b), flo(h, z3.ToReal(R) + b), s2 == h - fb, R2 == s2], flo(h, z3.ToReal(R2) + b)),
                      ("set-value-reads-back", [b >= 0, flo(fb, b), s2 == h - fb, R2 == s2], flo(h, z3.ToReal(R2) + b))]))
    plan.lemma(Lemma("OLD-WRITER-DRIFTS", "vacuity guard: storing the height as read (the pinned behaviour) does NOT read back when a border adds a point",
                     [("drifts", [b >= 1, flo(fb, b), flo(h, z3.ToReal(R) + b), s2 == h, R2 == s2], z3.Not(flo(h, z3.ToReal(R2) + b)))]))

    # Document.save hands every table that is not a pivot table to the writers: contracts/C16_save.py
    from contracts import C16_save
    C16_save.add(plan, ctx, srch)

    # the readers of the stored sizes (floats as reals): contracts/C16_read.py
    from contracts import C16_read
    C16_read.add(plan, ctx, srch)
    plan.assumptions.append("A-REAL (row_height / col_width contracts): floats as mathematical reals - + - * / exact, round() round-half-even, math.floor the real "
                            "floor; the rounding error of each machine operation is assumed away (pyvc/realfloat.py)")

    # a table the library creates has its OWN header storage: every object created for it is made the target of a reference (C07's complete
    # syntactic obligation over model.py, re-checked here: a table that still points at the storage it was cloned from shares its sizes)
    from contracts import C07
    plan.ground.append(("created-objects-are-referenced", C07.build().created_objects_referenced))

    def header_counts_written_only_by_their_setters():
        """frame condition of the whole package: the stored numbers of header rows / columns are assigned only in the model's two accessor
        methods (with the value the caller passes) - nothing on the save path recomputes, clamps or resets them"""
        import ast as _ast
        import glob as _glob
        from pyvc import extract as _ex
        allowed = {"number_of_header_rows": "num_header_rows", "number_of_header_columns": "num_header_cols"}
        bad, n = [], 0
        for f in sorted(_glob.glob(os.path.join(_ex.SRC, "*.py"))):
            tree = _ast.parse(open(f).read())
            for fn in [x for x in _ast.walk(tree) if isinstance(x, (_ast.FunctionDef, _ast.AsyncFunctionDef))]:
                for node in _ast.walk(fn):
                    targets = []
                    if isinstance(node, _ast.Assign):
                        targets = node.targets
                    elif isinstance(node, (_ast.AugAssign, _ast.AnnAssign)):
                        targets = [node.target]
                    elif isinstance(node, _ast.Call) and _ast.unparse(node.func) == "setattr" and len(node.args) >= 2 and isinstance(node.args[1], _ast.Constant):
                        if node.args[1].value in allowed:
                            n += 1
                            bad.append(f"{os.path.basename(f)}:{fn.name} L{node.lineno}: setattr(..., {node.args[1].value!r}, ...)")
                        continue
                    for t in targets:
                        for a in [x for x in _ast.walk(t) if isinstance(x, _ast.Attribute) and x.attr in allowed]:
                            n += 1
                            ok = fn.name == allowed[a.attr] and isinstance(node, _ast.Assign) and isinstance(node.value, _ast.Name) \
                                and node.value.id in [p.arg for p in fn.args.args]
                            if not ok:
                                bad.append(f"{os.path.basename(f)}:{fn.name} L{node.lineno}: `{_ast.unparse(node)[:90]}` changes the stored {a.attr} outside "
                                           f"its setter: a count the user set can differ after save and reopen")
        if n < 2:
            return False, "anchor lost: the setters of the header counts were not found", n
        return (not bad), (bad[:3] or "header counts are stored only by num_header_rows / num_header_cols, with the caller's value"), n
    plan.ground.append(("header-counts-written-only-by-their-setters", header_counts_written_only_by_their_setters))

    def border_allowance_loads_stored_strokes():
        """row_border_height / col_border_width (the allowance both header writers subtract and the readers add) must see the document's
        STORED strokes: those are loaded lazily, by the public Cell.border property or an explicit extract_strokes call; reading the
        private `_border` record of a freshly opened document finds nothing and the sizes of bordered rows and columns drift on save"""
        import ast as _ast
        from pyvc import extract as _ex
        tree = _ast.parse(open(os.path.join(_ex.SRC, "model.py")).read())
        bad, n = [], 0
        for fn in [x for x in _ast.walk(tree) if isinstance(x, _ast.FunctionDef) and x.name in ("row_border_height", "col_border_width")]:
            n += 1
            loads = any(isinstance(c, _ast.Call) and _ast.unparse(c.func).endswith("extract_strokes") for c in _ast.walk(fn))
            private = [a for a in _ast.walk(fn) if isinstance(a, _ast.Attribute) and a.attr == "_border"]
            public = [a for a in _ast.walk(fn) if isinstance(a, _ast.Attribute) and a.attr == "border"]
            if private and not loads:
                bad.append(f"{fn.name} L{private[0].lineno}: reads the private _border record without loading the stored strokes first")
            elif not public and not private:
                bad.append(f"{fn.name}: no border is read at all")
        if n != 2:
            return False, f"anchor lost: row_border_height / col_border_width ({n} found)", n
        return (not bad), (bad or "both allowances read borders through the loading property"), n
    plan.ground.append(("border-allowance-loads-the-stored-strokes", border_allowance_loads_stored_strokes))

    plan.bounded.append(BoundedStandIn(
        "geometry-cycles", "c16_geometry.py", [], thorough_args=["--level", "2"], timeout=1500,
        bound="the 40 smallest fixtures (thorough: every fixture) x {geometry queried, nothing queried before saving} x 2 (thorough 3) save/reopen "
              "cycles; 10 subsets of {row_height, col_width, header counts, names, caption + visibility, borders of widths 0.5..8} set on a built "
              "5x4 document x 2 (thorough 6) seeds x queried/not queried x 2 cycles; compared: row heights, column widths, coordinates, header "
              "counts, sheet/table names, caption text, caption/name visibility",
        functions=["model.row_height/col_width", "model.recalculate_row_headers/recalculate_column_headers", "model.table_name/sheet_name/"
                   "num_header_rows/num_header_cols/caption_text/caption_enabled/table_name_enabled/table_coordinates", "Document.save"]))
    plan.assumptions += [
        "protobuf header lists and the session caches as ghost records / symbolic maps; sizes as integers (the cached heights are ints; stored sizes "
        "are transported unchanged); floor(border allowance) as an uninterpreted function of the row/column",
        "GEOMETRY-STABLE is about the reader's formula floor(round(s) + b) with Python's round returning an integer; that row_height / col_width "
        "compute exactly this formula is their contract (under A-REAL); the effect of machine rounding in the reader is exercised by the stand-in only",
        "names, captions, coordinates: bounded stand-in only; header counts: frame obligation (assigned only in their setters) + stand-in",
    ]
    plan.trusted += ["pyvc AST->SMT translation (cross-checked against CPython)", "z3 5.1.0", "cvc5 1.0.3"]
    plan.level = "other"
    plan.explanation = ("Mixed: both header writers (per-row/column loop invariants: unqueried rows keep their stored size, queried or set sizes are "
                        "stored less the border allowance) and the stability lemma over the reader's formula are proved; the readers' float "
                        "arithmetic, labels, captions, header counts, coordinates and whole documents over several cycles are a bounded stand-in.")
    return plan

"""Native side of C17: is_iwa_file against an independent framing oracle; container faults via the bounded harness."""
import itertools


def frames_ok(data):
    p, n = 0, len(data)
    while p < n:
        if p + 4 > n or data[p] != 0:
            return False
        ln = data[p + 1] | data[p + 2] << 8 | data[p + 3] << 16
        if p + 4 + ln > n:
            return False
        p += 4 + ln
    return True


def check_iwa(data):
    from numbers_parser.iwafile import is_iwa_file
    try:
        got = is_iwa_file(bytes(data))
    except Exception as e:  # noqa: BLE001
        return {"violated": True, "detail": f"is_iwa_file({bytes(data)!r}) raised {type(e).__name__}: {e}", "data": list(data)}
    if bool(got) != frames_ok(data):
        return {"violated": True, "detail": f"is_iwa_file({bytes(data)!r}) == {got}, framing oracle says {frames_ok(data)}", "data": list(data)}
    return {"violated": False, "detail": "agrees with the framing oracle"}


def search_iwa(job):
    alphabet = (0, 1, 2, 255)
    for n in range(0, 7):
        for tup in itertools.product(alphabet, repeat=n):
            r = check_iwa(bytes(tup))
            if r["violated"]:
                r["job"] = {"custom": "replay_iwa_bytes", "data": list(tup)}
                return r
    for body in (b"\0\x02\0\0ab", b"\0\x02\0\0ab\0\0\0\0", b"\0\x02\0\0ab\0", b"\0\x01\0\0a\0\x01\0\0", b"\0\x00\x01\0" + b"x" * 256):
        r = check_iwa(body)
        if r["violated"]:
            r["job"] = {"custom": "replay_iwa_bytes", "data": list(body)}
            return r
    return {"violated": False}


def replay_iwa_bytes(job):
    return check_iwa(bytes(job["data"]))


def replay_iwa(job):
    return search_iwa(job)


def search_container(job):
    """fault injection on the template container: structural zip records bit by bit, plus a sample of the member faults"""
    import os, sys, warnings
    sys.path.insert(0, os.path.dirname(os.path.dirname(os.path.abspath(__file__))))
    from bounded import c17_faults as F
    warnings.simplefilter("ignore")
    cases = [{"base": "template", "kind": "zipstruct", "region": "eocd", "entry": 0},
             {"base": "template", "kind": "zipstruct", "region": "cd", "entry": 0, "stored": True},
             {"base": "template", "kind": "zipstruct", "region": "local", "entry": 0},
             {"base": "template", "kind": "truncate", "frac": 0.5}, {"base": "template", "kind": "not-zip"}, {"base": "template", "kind": "no-iwa"}]
    names = [n for n, _ in F.base_members("template") if n.endswith(".iwa")]
    for n in names[:2]:
        for fault in ("empty", "bytes1", "bytes3", "zeros2", "trunc-half", "trunc-3", "marker", "length+", "length-", "garbage-payload", "varint-cut"):
            cases.append({"base": "template", "kind": "member", "member": n, "fault": fault})
    for case in cases:
        r = F.run_case(case)
        if r and not r.get("ok"):
            return {"violated": True, "detail": r["detail"], "job": {"custom": "replay_container", "case": case}}
    return {"violated": False}


def replay_container(job):
    import os, sys
    sys.path.insert(0, os.path.dirname(os.path.dirname(os.path.abspath(__file__))))
    from bounded import c17_faults as F
    r = F.run_case(job["case"])
    return {"violated": bool(r and not r.get("ok")), "detail": (r or {}).get("detail", "")}


NATIVE = {}

"""Native replay for C03: one structural edit on a small real table against the plain-grid transformer."""


def _small(v, lo, hi, d):
    return v if isinstance(v, int) and lo <= v <= hi else d


def replay_edit(job):
    ins = job.get("inputs", {})
    op = job["op"]
    nr = _small(ins.get("nr0"), 1, 5, 3)
    nc = _small(ins.get("nc0"), 1, 5, 3)
    count, start = ins.get("g_count"), ins.get("g_start")
    if not isinstance(count, int):
        return {"violated": False, "spurious": True, "detail": "no concrete count"}
    size0 = ins.get("nr0") if "row" in op else ins.get("nc0")
    size = nr if "row" in op else nc
    if isinstance(start, int) and isinstance(size0, int) and size0 != size:
        start = start if start < 0 else min(start, size - 1) if start < size0 else size + (start - size0)
    count = count if count < 1 else min(count, size + 1)
    return check_edit(op, nr, nc, count, start)


def check_edit(op, nr, nc, count, start):
    import sys
    import os
    sys.path.insert(0, os.path.dirname(os.path.dirname(os.path.abspath(__file__))))
    from bounded.c03_histories import run_case
    body = [op, count, start] + ([None] if op.startswith("add") else [])
    # the edit, growth in the other direction, then what the property says about saving: the saved file reopens to the same grid, and a further edit still works
    case = {"shape": [nr, nc], "ops": [["write", r, c, f"v{r}{c}"] for r in range(nr) for c in range(nc)] + [body, ["add_column" if "row" in op else "add_row", 1, None, None], ["save"], ["write", 0, 0, "after"],
                                      ["write", nr, nc + 1, "grown"], ["save"]]}
    try:
        r = run_case(case)
    except Exception as e:  # noqa: BLE001
        import traceback
        tb = traceback.extract_tb(e.__traceback__)[-1]
        r = {"detail": f"history {case['ops'][nr * nc:]} on a {nr}x{nc} table raised {type(e).__name__}: {e} ({tb.name}, line {tb.lineno})"}
    if r:
        return {"violated": True, "detail": r["detail"][:600], "op": body, "shape": [nr, nc]}
    return {"violated": False, "detail": "edit agrees with the plain grid"}


def search_edit(job):
    op = job["op"]
    for nr, nc in ((3, 3), (2, 4)):
        size = nr if "row" in op else nc
        for count in (-1, 0, 1, 2, size, size + 1):
            for start in (None, -1, 0, 1, size - 1, size):
                r = check_edit(op, nr, nc, count, start)
                if r["violated"]:
                    r["job"] = {"custom": "replay_edit", "op": op, "inputs": {"nr0": nr, "nc0": nc, "g_count": count, "g_start": start}}
                    return r
    return {"violated": False}


NATIVE = {}

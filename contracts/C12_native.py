"""Native replay for C12: the merge map's packing on a real save/reopen."""
import os
import tempfile


def check_packing(row, col, h=1, w=2):
    from numbers_parser import Document, xl_rowcol_to_cell
    if row + h > 200000 or col + w > 1000 or row < 0 or col < 0:
        return {"violated": False, "spurious": True, "detail": "outside replayable sizes"}
    doc = Document(num_rows=row + h, num_cols=col + w)
    t = doc.sheets[0].tables[0]
    rng = f"{xl_rowcol_to_cell(row, col)}:{xl_rowcol_to_cell(row + h - 1, col + w - 1)}"
    t.merge_cells(rng)
    with tempfile.TemporaryDirectory() as td:
        p = os.path.join(td, "m.numbers")
        doc.save(p)
        t2 = Document(p).sheets[0].tables[0]
        got = list(t2.merge_ranges)
    if got != [rng]:
        return {"violated": True, "detail": f"merge {rng} is stored as {got} (origin row {row} does not survive the 16-bit packing)",
                "row": row, "col": col}
    return {"violated": False, "detail": "merge survives save/reopen"}


def replay_packing(job):
    ins = job.get("inputs", {})
    a, b = ins.get("first"), ins.get("second")
    if not isinstance(a, int) or not isinstance(b, int):
        return {"violated": False, "spurious": True, "detail": "no concrete values"}
    if ins.get("what") == "origin":
        r = check_packing(min(a, 70000) if a >= 65536 else a, min(b, 5))
    else:
        r = check_packing(0, 0, h=min(a, 70000) if a >= 65536 else a, w=min(b, 5))
    return r


def search_packing(job):
    for row in (0, 1, 65535, 65536):
        r = check_packing(row, 0)
        if r.get("violated"):
            r["job"] = {"custom": "replay_packing", "inputs": {"first": row, "second": 0, "what": "origin"}}
            return r
    return {"violated": False}



def search_write(job):
    """writes into and around a merged rectangle, and writes into header cells after a formula printed a label (C09's cache)"""
    import os, sys, warnings
    sys.path.insert(0, os.path.dirname(os.path.dirname(os.path.abspath(__file__))))
    from bounded import c12_merges as M
    warnings.simplefilter("ignore")
    for rect in ([0, 0, 1, 1], [1, 0, 2, 1], [0, 1, 1, 3], [2, 1, 3, 2], [1, 2, 3, 3]):
        case = {"size": 4, "rects": [rect], "write_after": True, "reopen": False}
        r = M.run_case(case)
        if r:
            return {"violated": True, "detail": r["detail"], "job": {"custom": "replay_write", "case": case}}
    try:
        from bounded import c09_refs as R9
        r = R9.quick_label_history() if hasattr(R9, "quick_label_history") else None
        if r:
            return {"violated": True, "detail": r, "job": {"custom": "search_write"}}
    except Exception:  # noqa: BLE001
        pass
    return {"violated": False}


def replay_write(job):
    import os, sys
    sys.path.insert(0, os.path.dirname(os.path.dirname(os.path.abspath(__file__))))
    from bounded import c12_merges as M
    r = M.run_case(job["case"])
    return {"violated": bool(r), "detail": (r or {}).get("detail", "")}


NATIVE = {}


def search_reopen_merges(job):
    """what a reopened document reports: rectangles merged with the library on fresh tables, and on documents authored in Numbers that
    already hold merged rectangles (the bounded stand-in's own cases, a small selection)"""
    import os, sys, warnings
    sys.path.insert(0, os.path.dirname(os.path.dirname(os.path.abspath(__file__))))
    from bounded import c12_merges as M
    import numbers_parser
    warnings.simplefilter("ignore")
    data = os.path.join(os.path.dirname(os.path.dirname(os.path.dirname(numbers_parser.__file__))), "tests", "data")
    cases = [{"size": 4, "rects": [[0, 0, 1, 1]]}, {"size": 4, "rects": [[1, 1, 1, 3], [2, 0, 3, 0]]}, {"size": 4, "rects": [[0, 1, 2, 1]], "second": [[3, 2, 3, 3]]},
             {"size": 4, "rects": [[1, 1, 1, 3]], "second": [[0, 0, 0, 1]]}, {"size": 4, "rects": [[2, 0, 3, 1]], "second": [[0, 2, 1, 3], [0, 0, 0, 1]]},
             {"size": 4, "rects": [[0, 0, 1, 1], [3, 1, 3, 2]], "then": ["del_tail_rows", 1]}, {"size": 4, "rects": [[0, 0, 1, 1], [1, 3, 2, 3]], "then": ["del_tail_cols", 1]}]
    for name, sheet in (("test-4.numbers", 0), ("test-9.numbers", 0), ("test-9.numbers", 1), ("issue-77.numbers", 0)):
        f = os.path.join(data, name)
        if os.path.exists(f):
            cases += [{"fixture": f, "sheet": sheet, "table": 0, "pick": p} for p in (0, 5)]
    # a plain re-save of a document authored in Numbers keeps its merged rectangles (their full height and width)
    from numbers_parser import Document
    import tempfile
    f9 = os.path.join(data, "test-9.numbers")
    if os.path.exists(f9):
        d0 = Document(f9)
        before = [[list(t.merge_ranges) for t in s_.tables] for s_ in d0.sheets]
        with tempfile.TemporaryDirectory() as td:
            p9 = os.path.join(td, "resaved.numbers")
            d0.save(p9)
            after = [[list(t.merge_ranges) for t in s_.tables] for s_ in Document(p9).sheets]
        if before != after:
            return {"violated": True, "detail": f"test-9.numbers re-saved without an edit: merge ranges {before} became {after}", "job": {"custom": "replay_reopen_merges", "case": None}}
    for c in cases:
        r = M.run_case(c)
        if r and r.get("detail"):
            return {"violated": True, "detail": r["detail"], "job": {"custom": "replay_reopen_merges", "case": c}}
    return {"violated": False}


def replay_reopen_merges(job):
    import os, sys, warnings
    sys.path.insert(0, os.path.dirname(os.path.dirname(os.path.abspath(__file__))))
    from bounded import c12_merges as M
    warnings.simplefilter("ignore")
    if job.get("case") is None:
        return search_reopen_merges(job)
    r = M.run_case(job["case"])
    return {"violated": bool(r and r.get("detail")), "detail": (r or {}).get("detail", "")}

"""Native side of C18: run-time contract of the tokenizer on a concrete string."""
import re

DQ = re.compile('"(?:[^"]*"")*[^"]*"')
DQ_FULL = re.compile('"(?:[^"]*"")*[^"]*"(?!")')
SQ = re.compile(r"(?:'[^']*(?:''[^']*)*')(?:\s*:\s*'[^']*(?:''[^']*)*')*")


def check_formula(s):
    from numbers_parser.tokenizer import Tokenizer, TokenizerError
    try:
        t = Tokenizer(s)
    except TokenizerError:
        return {"violated": False, "detail": "rejected with TokenizerError"}
    except Exception as e:  # noqa: BLE001
        return {"violated": True, "detail": f"Tokenizer({s!r}) raised {type(e).__name__}: {e} (not the tokenizer's own error type)",
                "formula": s}
    joined = "".join(tok.value for tok in t.items)
    if joined != s:
        return {"violated": True, "detail": f"not lossless: tokens {[tok.value for tok in t.items]!r} join to {joined!r}", "formula": s}
    pos = 0
    for tok in t.items:
        v = tok.value
        if '"' in v or "'" in v:
            # a quoted string / quoted name must be ONE token: the whole quoted text starting here, per the
            # documented quoting grammar (doubled quote = escaped quote; 'a':'b' quoted range)
            spec = DQ_FULL if v[0] == '"' else SQ
            m = spec.match(s[pos:]) if v[0] in "\"'" else None
            if m is None or m.group(0) != v:
                return {"violated": True, "detail": f"quoted text split across tokens: token {v!r} at {pos}, whole quoted "
                        f"text is {m.group(0)!r}" if m else f"quote inside non-quoted token {v!r}", "formula": s,
                        "tokens": [x.value for x in t.items]}
        pos += len(v)
    return {"violated": False, "detail": "accepted, lossless, quoted text whole"}


def replay_tokenizer(job):
    f = job.get("inputs", {}).get("g_formula")
    if not isinstance(f, str):
        return {"violated": False, "spurious": True, "detail": "no concrete formula in the model"}
    return check_formula(f)


def search_tokenizer(job):
    import itertools
    alphabet = list("A1 ()+,;\"'#{}=<>≤&E-.:")
    for n in range(1, 4):
        for tup in itertools.product(alphabet, repeat=n):
            s = "".join(tup)
            r = check_formula(s)
            if r["violated"]:
                r["job"] = {"custom": "replay_tokenizer", "inputs": {"g_formula": s}}
                return r
    return {"violated": False}


NATIVE = {}

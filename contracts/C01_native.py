"""Native side of C01: searches for concrete values on which the decimal128 codec or _from_value breaks its contract."""
import random
from decimal import Decimal
from fractions import Fraction


def _values():
    yield from (0.0, -0.0, 1.0, -1.0, 12.0, 50.0, 52.0, 0.12, 846400000000.0, 5e-324, 1.7976931348623157e308, 1e15 - 1, 123456789012345.0)
    yield from (1234567890123456, -9007199254740991, 4503599627370497, 2 ** 53, 10 ** 15 + 1)   # Python ints that need 16 significant digits
    for n in range(-300, 300):
        yield float(n)
        yield n / 100
    rnd = random.Random(20240)
    for _ in range(3000):
        yield float(f"{rnd.uniform(1, 10):.{rnd.randint(0, 14)}f}e{rnd.randint(-290, 290)}") * rnd.choice((1, -1))


def check_value(x):
    from numbers_parser.cell import _pack_decimal128, _unpack_decimal128
    from numbers_parser.constants import DECIMAL128_BIAS
    try:
        b = _pack_decimal128(x)
    except Exception as e:  # noqa: BLE001
        return {"violated": True, "detail": f"_pack_decimal128({x!r}) raised {type(e).__name__}: {e}"}
    if len(b) != 16 or any(not (0 <= v <= 255) for v in b):
        return {"violated": True, "detail": f"_pack_decimal128({x!r}) is not 16 bytes: {bytes(b).hex()}"}
    # byte layout against the documented bit positions: an exact decimal must come out
    exp = (((b[15] & 0x7F) << 7) | (b[14] >> 1)) - DECIMAL128_BIAS
    m = int.from_bytes(bytes(b[:14]), "little") + ((b[14] & 1) << 112)
    exact = Fraction(m) * Fraction(10) ** exp * (-1 if b[15] & 0x80 else 1)
    try:
        stored_value = float(exact)
    except OverflowError:
        return {"violated": True, "detail": f"_pack_decimal128({x!r}) stores {m}e{exp} (sign bit {b[15] >> 7}), which is not a finite double"}
    if stored_value != x:
        return {"violated": True, "detail": f"_pack_decimal128({x!r}) stores {m}e{exp} (sign bit {b[15] >> 7}), whose value is {float(exact)!r}"}
    try:
        y = _unpack_decimal128(b)
    except Exception as e:  # noqa: BLE001
        return {"violated": True, "detail": f"_unpack_decimal128(pack({x!r})) raised {type(e).__name__}: {e}"}
    if y != float(exact) or not isinstance(y, float):
        return {"violated": True, "detail": f"_unpack_decimal128({bytes(b).hex()}) == {y!r}, the stored decimal {m}e{exp} is {float(exact)!r}"}
    if y != x:
        return {"violated": True, "detail": f"_unpack_decimal128(_pack_decimal128({x!r})) == {y!r}"}
    return {"violated": False}


def search_d128(job):
    for x in _values():
        r = check_value(x)
        if r["violated"]:
            r["job"] = {"custom": "replay_d128", "value": repr(x)}
            return r
    # arbitrary well-formed payloads: the reader must give the correctly rounded value of the stored decimal
    from numbers_parser.cell import _unpack_decimal128
    rnd = random.Random(7)
    for _ in range(3000):
        m = rnd.getrandbits(rnd.choice((8, 40, 57, 100, 113)))
        exp = rnd.randint(-330, 300)
        b = bytearray(m.to_bytes(15, "little") + b"\0")
        e = exp + 0x1820
        b[14] |= (e & 0x7F) << 1
        b[15] = (e >> 7) | (0x80 if rnd.random() < 0.5 else 0)
        want = Fraction(m) * Fraction(10) ** exp * (-1 if b[15] & 0x80 else 1)
        try:
            want_f = float(want)
        except OverflowError:
            continue
        try:
            got = _unpack_decimal128(b)
        except OverflowError:
            continue
        if got != want_f:
            return {"violated": True, "detail": f"_unpack_decimal128({bytes(b).hex()}) == {got!r}, stored decimal {m}e{exp} is {want_f!r}",
                    "job": {"custom": "replay_bytes", "hex": bytes(b).hex(), "want": repr(want_f)}}
    return {"violated": False}


def replay_d128(job):
    return check_value(float(job["value"]))


def replay_bytes(job):
    from numbers_parser.cell import _unpack_decimal128
    got = _unpack_decimal128(bytearray.fromhex(job["hex"]))
    return {"violated": repr(got) != job["want"], "detail": f"_unpack_decimal128({job['hex']}) == {got!r}, want {job['want']}"}


def search_from_value(job):
    import warnings
    from datetime import datetime, timedelta
    from numbers_parser import cell as C
    want = [("s", C.TextCell), ("", C.TextCell), (True, C.BoolCell), (False, C.BoolCell), (0, C.NumberCell), (1, C.NumberCell), (7, C.NumberCell),
            (1.5, C.NumberCell), (0.0, C.NumberCell), (datetime(2020, 1, 2), C.DateCell), (timedelta(seconds=5), C.DurationCell)]
    for v, cls in want:
        with warnings.catch_warnings():
            warnings.simplefilter("ignore")
            try:
                c = C.Cell._from_value(3, 4, v)
            except Exception as e:  # noqa: BLE001
                return {"violated": True, "detail": f"_from_value(3, 4, {v!r}) raised {type(e).__name__}: {e}", "job": {"custom": "search_from_value"}}
        if type(c) is not cls or c.value != v or type(c.value) is not type(v) or (c.row, c.col) != (3, 4):
            return {"violated": True, "detail": f"_from_value(3, 4, {v!r}) -> {type(c).__name__} value {c.value!r} at {(c.row, c.col)}",
                    "job": {"custom": "search_from_value"}}
    for v in (None, [1], b"x", object()):
        try:
            C.Cell._from_value(0, 0, v)
        except ValueError:
            continue
        except Exception as e:  # noqa: BLE001
            return {"violated": True, "detail": f"_from_value(0, 0, {v!r}) raised {type(e).__name__} (ValueError expected)", "job": {"custom": "search_from_value"}}
        return {"violated": True, "detail": f"_from_value(0, 0, {v!r}) did not raise", "job": {"custom": "search_from_value"}}
    return {"violated": False}


NATIVE = {}

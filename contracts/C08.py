"""C08 - Formula text is a faithful infix rendering of the stored expression.

Per-node transition contracts on the rendering stack (the list Formula._stack, ghost view: (len, at) list of
strings), taken from the property statement: binary operators put the FIRST-pushed operand on the left with the
glyph between; unary minus / percent; function calls name(args in pushed order); lists and arrays; string literals
with quotes doubled; booleans; the dispatch table maps every node type to the method that implements its glyph.
"Reads back as the same tree" is decided by the bounded stand-in (independent precedence parser).
"""
import ast
import os

import z3

from pyvc import extract
from pyvc.ctx import VerifCtx, Contract, LoopSpec
from pyvc.plan import Plan, Lemma, BoundedStandIn
from pyvc.sym import (Int, Str, PObj, PList, SList, SInt, SStr, SBool, Unsupported, fresh_name, lift, wrap, as_int_term, is_intlike,
                      py_str, str_axiom)

SV = z3.StringVal
BINARY = {"add": "+", "sub": "-", "mul": "×", "div": "÷", "power": "^", "concat": "&", "equals": "=", "not_equals": "≠",
          "less_than": "<", "greater_than": ">", "less_than_or_equal": "≤", "greater_than_or_equal": "≥"}
NODE_GLYPH = {"ADDITION_NODE": "+", "SUBTRACTION_NODE": "-", "MULTIPLICATION_NODE": "×", "DIVISION_NODE": "÷", "POWER_NODE": "^",
              "CONCATENATION_NODE": "&", "EQUAL_TO_NODE": "=", "NOT_EQUAL_TO_NODE": "≠", "LESS_THAN_NODE": "<",
              "GREATER_THAN_NODE": ">", "LESS_THAN_OR_EQUAL_TO_NODE": "≤", "GREATER_THAN_OR_EQUAL_TO_NODE": "≥"}


def T(v):
    return as_int_term(v) if is_intlike(v) else lift(v)


def build():
    ctx = VerifCtx()
    plan = Plan("C08", ctx)
    plan.native_module = os.path.join(os.path.dirname(__file__), "C08_native.py")

    def mk_formula(ex, min_len):
        n = z3.Int(fresh_name("depth"))
        ex.assume(n >= min_len)
        st = SList(n, z3.Const(fresh_name("stack"), z3.ArraySort(Int, Str)), "str")
        f = PObj("Formula", {"_stack": st, "_model": PObj("_NumbersModel", {}), "_table_id": ex.fresh("int", "tid"),
                             "row": ex.fresh("int", "row"), "col": ex.fresh("int", "col")})
        return f, {"self": f, "g_n": SInt(n), "g_at": st.at}

    def stack_post(pops, text_fn, name):
        def post(ex, env):
            st = env["self"].fields["_stack"]
            n, at0 = env["g_n"].t, env["g_at"]
            i = z3.Int(fresh_name("si"))
            return z3.And(st.ln == n - pops + 1, z3.Select(st.at, n - pops) == text_fn(ex, env, n, at0),
                          z3.ForAll([i], z3.Implies(z3.And(0 <= i, i < n - pops), z3.Select(st.at, i) == z3.Select(at0, i))))
        post.__name__ = name
        return post

    inl = {"formula:Formula.popn", "formula:Formula.push", "formula:Formula.pop"}
    for m, glyph in BINARY.items():
        def entry(ex):
            f, env = mk_formula(ex, 2)
            env["args"] = ()
            return env
        text = (lambda g: lambda ex, env, n, at0: z3.Concat(z3.Select(at0, n - 2), SV(g), z3.Select(at0, n - 1)))(glyph)
        wrong = (lambda g: lambda ex, env: z3.Select(env["self"].fields["_stack"].at, env["g_n"].t - 2) ==
                 z3.Concat(z3.Select(env["g_at"], env["g_n"].t - 1), SV(g), z3.Select(env["g_at"], env["g_n"].t - 2)))(glyph)
        plan.target(Contract(f"formula:Formula.{m}", entry=entry, inline=inl, safety="fork",
                             ensures=[stack_post(2, text, f"stack' == stack[:-2] + [stack[-2] + '{glyph}' + stack[-1]] (first-pushed operand on the left)")],
                             canaries=[wrong],
                             replay=(lambda mm: lambda p_, c, inputs, ob: {"custom": "replay_binary", "native_module": plan.native_module, "method": mm})(m)))

    def unary_entry(ex):
        f, env = mk_formula(ex, 1)
        env["args"] = ()
        return env
    plan.target(Contract("formula:Formula.negate", entry=unary_entry, inline=inl, safety="fork",
                         ensures=[stack_post(1, lambda ex, env, n, at0: z3.Concat(SV("-"), z3.Select(at0, n - 1)), "stack' == stack[:-1] + ['-' + stack[-1]]")]))
    plan.target(Contract("formula:Formula.percent", entry=unary_entry, inline=inl, safety="fork",
                         ensures=[stack_post(1, lambda ex, env, n, at0: z3.Concat(z3.Select(at0, n - 1), SV("%")), "stack' == stack[:-1] + [stack[-1] + '%']")]))

    # ---- literals
    def node_entry(fields, min_len=0):
        def entry(ex):
            f, env = mk_formula(ex, min_len)
            node = PObj("ASTNode", {k: ex.fresh(kind, k) for k, kind in fields.items()})
            env["args"] = (env["self"].fields["row"], env["self"].fields["col"], node)
            env["g_node"] = node
            return env
        return entry

    def replace_all(s, a, b):
        return z3.SeqRef(z3.Z3_mk_seq_replace_all(s.ctx_ref(), s.as_ast(), a.as_ast(), b.as_ast()), s.ctx)

    plan.target(Contract(
        "formula:Formula.string", entry=node_entry({"AST_string_node_string": "str"}), inline=inl, safety="fork",
        ensures=[stack_post(0, lambda ex, env, n, at0: z3.Concat(SV('"'), replace_all(lift(env["g_node"].fields["AST_string_node_string"]), SV('"'), SV('""')), SV('"')),
                            "pushes '\"' + s with every quote doubled + '\"'")]))
    ctx.method_models = {("ASTNode", "HasField"): lambda ex, o, a, k, l: ex.fresh("bool", "has_token")}
    plan.target(Contract(
        "formula:Formula.boolean", entry=node_entry({"AST_token_node_boolean": "bool", "AST_boolean_node_boolean": "bool"}),
        inline=inl, safety="fork",
        ensures=[lambda ex, env: z3.Or(z3.Select(env["self"].fields["_stack"].at, env["g_n"].t) == SV("TRUE"),
                                       z3.Select(env["self"].fields["_stack"].at, env["g_n"].t) == SV("FALSE")),
                 lambda ex, env: env["self"].fields["_stack"].ln == env["g_n"].t + 1]))
    plan.target(Contract(
        "formula:Formula.empty", entry=unary_entry, inline=inl, safety="fork",
        ensures=[stack_post(0, lambda ex, env, n, at0: SV(""), "pushes the empty argument ''")]))

    # ---- function / list: name(args in pushed order), for arities 0..4 (unrolled: bounded ARITY, any stack below)
    FUNCTION_MAP = extract.module_const("constants", "FUNCTION_MAP") if False else None

    def joined(at0, n, k):
        parts = []
        for j in range(k):
            if j:
                parts.append(SV(","))
            parts.append(z3.Select(at0, n - k + j))
        return z3.Concat(*parts) if len(parts) > 1 else (parts[0] if parts else SV(""))

    for k in range(0, 5):
        def lentry(ex, k=k):
            f, env = mk_formula(ex, k)
            node = PObj("ASTNode", {"AST_list_node_numArgs": k})
            env["args"] = (f.fields["row"], f.fields["col"], node)
            return env
        plan.target(Contract("formula:Formula.list", label=f"arity{k}", entry=lentry, inline=inl, safety="fork",
                             ensures=[stack_post(k, (lambda k: lambda ex, env, n, at0: z3.Concat(SV("("), joined(at0, n, k), SV(")")))(k),
                                                 f"stack' == stack[:-{k}] + ['(' + ','.join(stack[-{k}:]) + ')'] (arguments in pushed order)")]))

    plan.callee(Contract("model:_NumbersModel.table_name", model=lambda ex, a, k, l: ex.fresh("str", "tname"), assumed=True,
                         note="returns some str (only used in warning texts)"))
    FMAP = extract.const_eval(extract.module_assign("generated/functionmap", "FUNCTION_MAP")) if os.path.exists(extract.module_path("generated/functionmap")) else {}
    some_ids = sorted(FMAP)[:2]
    ctx.extra_globals["FUNCTION_MAP"] = __import__("pyvc.ctx", fromlist=["_to_value"])._to_value({k: FMAP[k] for k in some_ids})
    for fid in some_ids:
        for k in (0, 2, 3):
            def fentry(ex, k=k, fid=fid):
                f, env = mk_formula(ex, k)
                node = PObj("ASTNode", {"AST_function_node_numArgs": k, "AST_function_node_index": fid})
                env["args"] = (f.fields["row"], f.fields["col"], node)
                return env
            plan.target(Contract("formula:Formula.function", label=f"{FMAP[fid]}/arity{k}", entry=fentry, inline=inl, safety="fork",
                                 ensures=[stack_post(k, (lambda k, nm: lambda ex, env, n, at0: z3.Concat(SV(nm + "("), joined(at0, n, k), SV(")")))(k, FMAP[fid]),
                                                     f"stack' == stack[:-{k}] + ['{FMAP[fid]}(' + ','.join(stack[-{k}:]) + ')'] (arguments in pushed order)")]))

    for c_ in plan.targets:
        if c_.qual.startswith("formula:Formula.") and c_.qual.split(".")[-1] in list(BINARY) + ["negate", "percent", "list", "function", "string", "boolean", "empty"] and getattr(c_, "search", None) is None:
            c_.search = (lambda mm: lambda plan_, c: {"custom": "search_stack_op", "native_module": plan_.native_module, "method": mm})(c_.qual.split(".")[-1])

    # ---- dispatch table: every operator node type is wired to the method that renders its glyph
    def dispatch_check():
        table = extract.module_const("formula", "NODE_FUNCTION_MAP")
        bad = []
        inv = {v: k for k, v in BINARY.items()}
        for node, glyph in NODE_GLYPH.items():
            m = table.get(node)
            if m is None or BINARY.get(m) != glyph:
                bad.append({"node": node, "method": m, "expected_glyph": glyph, "method_glyph": BINARY.get(m)})
        for node, m in (("NEGATION_NODE", "negate"), ("PERCENT_NODE", "percent"), ("STRING_NODE", "string"), ("FUNCTION_NODE", "function"),
                        ("LIST_NODE", "list"), ("ARRAY_NODE", "array"), ("NUMBER_NODE", "number"), ("BOOLEAN_NODE", "boolean"),
                        ("DATE_NODE", "date"), ("EMPTY_ARGUMENT_NODE", "empty"), ("CELL_REFERENCE_NODE", "xref"), ("COLON_TRACT_NODE", "xref")):
            if table.get(node) != m:
                bad.append({"node": node, "method": table.get(node), "expected": m})
        return (not bad), (bad or "NODE_FUNCTION_MAP wires each operator/literal node type to the method proved to render it"), len(NODE_GLYPH) + 12
    plan.ground.append(("dispatch-table", dispatch_check))


    # ------------------------------------------------------------------ number literals: the text is the literal's shortest round-trip spelling
    # A-REPR (assumed, CPython): repr(x) of a finite double is the shortest decimal string with float(repr(x)) == x.  Under it a
    # literal whose repr has no exponent denotes itself exactly iff number_to_str returns that repr unchanged.
    def nts_entry(ex):
        return {"v": ex.fresh("float", "v")}

    def nts_repr(ex, env):
        r = SStr(z3.String(fresh_name("repr_v")))
        ex.assume(z3.Not(z3.Contains(r.t, SV("e"))))
        ex.entry_env["g_repr"] = r
        return r
    plan.target(Contract("formula:number_to_str", label="plain-decimal", entry=nts_entry, opaque={"repr(v)": nts_repr}, safety="fork",
                         ensures=[lambda ex, env: env["result"].t == ex.entry_env["g_repr"].t
                                  if isinstance(env["result"], SStr) and "g_repr" in ex.entry_env else z3.BoolVal(False)],
                         search=lambda plan_, c: {"custom": "search_number_text", "native_module": plan_.native_module}))

    # ------------------------------------------------------------------ memoisation is transparent: every cached method keys on all its parameters
    def caches_key_on_all_parameters():
        import ast as _ast
        import glob as _glob
        from pyvc import extract as _ex
        bad, n = [], 0
        for f in sorted(_glob.glob(os.path.join(_ex.SRC, "*.py"))):
            tree = _ast.parse(open(f).read())
            for cls_ in [c for c in _ast.walk(tree) if isinstance(c, _ast.ClassDef)]:
                for fn in [x for x in cls_.body if isinstance(x, _ast.FunctionDef)]:
                    for d in fn.decorator_list:
                        if isinstance(d, _ast.Call) and _ast.unparse(d.func) == "cache":
                            k = 1
                            for kw in d.keywords:
                                if kw.arg == "num_args":
                                    k = _ast.literal_eval(kw.value)
                            if d.args:
                                k = _ast.literal_eval(d.args[0])
                            params = [a.arg for a in fn.args.args if a.arg != "self"]
                            n += 1
                            if len(params) > k:
                                bad.append(f"{os.path.basename(f)}:{cls_.name}.{fn.name}({', '.join(params)}) is cached on its first {k} argument(s) only: calls that "
                                           f"differ in {params[k:]} return the first call's result")
        if n == 0:
            return False, "anchor lost: no @cache-decorated method found", 0
        return (not bad), bad[:5], n
    plan.ground.append(("memoised-methods-key-on-every-parameter", caches_key_on_all_parameters))

    plan.bounded.append(BoundedStandIn(
        "render-parse-back", "c08_render.py", ["--depth", "3", "--random", "400"], thorough_args=["--depth", "4", "--random", "6000"],
        bound="all expression trees of depth <= 2 over every operator, unary minus, percent, lists, a known function with 0-3 "
              "arguments (incl. empty arguments), 1-D/2-D arrays, number/string/boolean/date literals and cell references, + 400 "
              "(6000) seeded random trees to depth 3 (4); serialised to AST nodes, rendered by the real reader, parsed back by an "
              "independent precedence parser and compared with the tree; number literals over 1e-290..1e290",
        functions=["TableFormulas.formula", "Formula.*", "number_to_str", "model.node_to_ref"]))
    plan.assumptions += [
        "ghost view: Formula._stack as a (len, at) list of strings; popn/push/pop are inlined (their loops unrolled for the fixed "
        "arities); function/list/array are proved for arities 0..4 only (bounded ARITY, stated) - any arity: bounded stand-in",
        "number_to_str, date and xref rendering are decided by the bounded stand-in (float repr / datetime / reference formatting)",
        "z3 str.replace_all for Python's str.replace(a, b)",
    ]
    plan.trusted += ["pyvc AST->SMT translation (cross-checked against CPython)", "z3 5.1.0", "cvc5 1.0.3 (string VCs)"]
    plan.level = "other"
    plan.explanation = ("Mixed: every operator/unary/literal/list/function transition on the rendering stack is proved for any stack "
                        "(functions and lists for arities 0..4), the dispatch table is checked against the proved methods; 'the text "
                        "denotes the same tree' is a bounded stand-in (independent precedence parser), which reports the open known "
                        "finding F-C08-1 (number literals >= 1e16).")
    return plan

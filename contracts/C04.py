"""C04 - Cell storage records decode to exactly what was encoded, field by field.

Spec (from the property statement: "optional 4-byte fields in ascending flag-bit order, fields the library does
not interpret skipped in place"), with size(0)=16, size(1)=size(2)=8, size(b)=4 for 3<=b<=20:
    field_offset(b, flags) = 12 + sum_{j<b, bit j of flags set} size(j)        record_len = field_offset(21)
The record is typed-word memory (pyvc/bytemem.py).
"""
import os

import z3

from pyvc.ctx import VerifCtx, Contract, LoopSpec
from pyvc.plan import Plan, Lemma
from pyvc.sym import (Int, PObj, SOpt, SInt, SFloat, SBool, ClassRef, FloatS, fresh_name, bit, lift, wrap, Unsupported,
                      as_int_term, _SpecCallable, PDict, PList)
from pyvc.bytemem import ByteMem, Packed, MemView

SIZE = {0: 16, 1: 8, 2: 8}
ATTR_BIT = {  # interpreted optional 4-byte fields
    "_string_id": 3, "_rich_id": 4, "_cell_style_id": 5, "_text_style_id": 6, "_formula_id": 9, "_control_id": 10,
    "_suggest_id": 12, "_num_format_id": 13, "_currency_format_id": 14, "_date_format_id": 15,
    "_duration_format_id": 16, "_text_format_id": 17, "_bool_format_id": 18,
}
UNINTERPRETED = (7, 8, 11, 19, 20)
ENC_ATTRS = [a for a in ATTR_BIT if a != "_string_id"]  # the 12 optional reference fields the encoder emits


def size(b):
    return SIZE.get(b, 4)


def field_offset(b, flags):
    terms = [bit(flags, j) * size(j) for j in range(b)]
    return 12 + (z3.Sum(terms) if terms else 0)


def record_len(flags):
    return field_offset(21, flags)


def opt_eq(v, present, value):
    """v (SOpt / None / int) == (value if present else None)"""
    if v is None:
        return z3.Not(present)
    if isinstance(v, SOpt):
        inner = v.val.t if isinstance(v.val, (SInt, SFloat)) else as_int_term(v.val) if v.val is not None else None
        if inner is None:
            return z3.And(v.isnone, z3.Not(present))
        return z3.And(v.isnone == z3.Not(present), z3.Implies(present, inner == value))
    t = v.t if isinstance(v, (SInt, SFloat)) else as_int_term(v)
    return z3.And(present, t == value)


# kind table: class, type byte name, payload bit
KINDS = {
    "number": ("NumberCell", "numberCellType", 0), "currency": ("NumberCell", None, 0),
    "text": ("TextCell", "textCellType", 3), "date": ("DateCell", "dateCellType", 2),
    "bool": ("BoolCell", "boolCellType", 1), "duration": ("DurationCell", "durationCellType", 1),
    "empty": ("EmptyCell", "emptyCellValueType", None), "richtext": ("RichTextCell", "automaticCellType", None),
}


def build():
    ctx = VerifCtx()
    plan = Plan("C04", ctx)
    plan.native_module = os.path.join(os.path.dirname(__file__), "C04_native.py")
    ctx.bytearray_as_mem = True
    TST = ctx.native_module("numbers_parser.generated.TSTArchives_pb2").attrs
    from pyvc import extract
    CURRENCY = extract.module_const("constants", "CURRENCY_CELL_TYPE")
    DEC_TYPES = {TST["genericCellType"]: "EmptyCell", TST["numberCellType"]: "NumberCell", TST["textCellType"]: "TextCell",
                 TST["dateCellType"]: "DateCell", TST["boolCellType"]: "BoolCell", TST["durationCellType"]: "DurationCell",
                 TST["formulaErrorCellType"]: "ErrorCell", TST["automaticCellType"]: "RichTextCell", CURRENCY: "NumberCell"}

    # ---- opaque models of values the record only transports (their meaning is C01's)
    dt_add = z3.Function("dt_add_seconds", FloatS, FloatS, FloatS)
    dt_sub = z3.Function("dt_sub", FloatS, FloatS, FloatS)
    td_of = z3.Function("timedelta_of_seconds", FloatS, FloatS)
    f_gt = z3.Function("float_gt", FloatS, FloatS, z3.BoolSort())
    fconst = z3.Function("float_const", Int, FloatS)
    epoch = z3.Const("EPOCH_value", FloatS)

    def mk_datetime(ex, args, kwargs, line):
        if all(isinstance(a, int) for a in args) and tuple(args) == (2001, 1, 1):
            return PObj("datetime", {"tzinfo": None, "v": SFloat(epoch)})
        raise Unsupported("datetime(...) other than EPOCH")

    def mk_timedelta(ex, args, kwargs, line):
        if list(kwargs) == ["seconds"] and not args:
            return PObj("timedelta", {"secs": ex.unopt(kwargs["seconds"], line, "timedelta-seconds")})
        raise Unsupported("timedelta(...) form")

    ctx.constructors["datetime"] = mk_datetime
    ctx.constructors["timedelta"] = mk_timedelta
    ctx.extra_globals["datetime"] = ClassRef("datetime")
    ctx.extra_globals["timedelta"] = ClassRef("timedelta")
    ctx.extra_globals["__package__"] = "numbers_parser"

    def obj_binop(ex, op, a, b, line):
        import ast
        if isinstance(a, PObj) and isinstance(b, PObj):
            if a.cls == "datetime" and b.cls == "timedelta" and isinstance(op, ast.Add):
                return PObj("datetime", {"tzinfo": None, "v": SFloat(dt_add(lift(a.fields["v"]), lift(b.fields["secs"])))})
            if a.cls == "datetime" and b.cls == "datetime" and isinstance(op, ast.Sub):
                return PObj("timedelta", {"secs": SFloat(dt_sub(lift(a.fields["v"]), lift(b.fields["v"])))})
        return NotImplemented

    ctx.obj_binop = obj_binop

    def float_compare(ex, op, a, b, line):
        import ast
        fa = lift(a) if isinstance(a, SFloat) else fconst(z3.IntVal(int(a)))
        fb = lift(b) if isinstance(b, SFloat) else fconst(z3.IntVal(int(b)))
        if isinstance(op, ast.Gt):
            return f_gt(fa, fb)
        raise Unsupported("float comparison")

    ctx.float_compare = float_compare
    ctx.method_models = {
        ("timedelta", "total_seconds"): lambda ex, o, a, k, l: o.fields["secs"],
        ("datetime", "astimezone"): lambda ex, o, a, k, l: o,
    }

    # ---- callee contracts used at call sites (assumed here; the text/merge ones belong to C06/C12/C01)
    def unpack_d128(ex, args, kwargs, line):
        (view,) = args
        if not isinstance(view, MemView):
            raise Unsupported("_unpack_decimal128 of a non-slice")
        ex.safety(z3.And(view.hi - view.lo == 16, view.lo >= 0, view.hi <= view.mem.ln), "IndexError", "unpack16-in-bounds", line)
        return SFloat(z3.Select(view.mem.d128, view.lo))

    plan.callee(Contract("cell:_unpack_decimal128", model=unpack_d128, assumed=True,
                         note="16-byte slice -> the decimal128 payload word at that offset (codec itself: C01)"))
    plan.callee(Contract("cell:_pack_decimal128", model=lambda ex, a, k, l: Packed("d128", a[0]), assumed=True,
                         note="value -> one 16-byte payload word (codec itself: C01)"))

    def fresh_model(kind):
        def m(ex, args, kwargs, line):
            return ex.fresh(kind, "m")
        return m

    plan.callee(Contract("model:_NumbersModel.table_string", model=fresh_model("str"), assumed=True,
                         note="returns some str (lookup correctness: C06)"))
    plan.callee(Contract("model:_NumbersModel.table_rich_text", assumed=True, note="returns the rich-text dict (C06)",
                         model=lambda ex, a, k, l: PDict({"text": ex.fresh("str", "rt"), "bullets": PList([]),
                                                          "hyperlinks": PList([]), "bulleted": False})))
    plan.callee(Contract("model:_NumbersModel.merge_cells", assumed=True, note="returns the table's merge map (C12)",
                         model=lambda ex, a, k, l: PObj("MergeCells", {})))
    ctx.method_models[("MergeCells", "get")] = lambda ex, o, a, k, l: PObj("MergeRefOpaque", {})

    def set_merge(ex, args, kwargs, line):
        cell = args[0]
        for f in ("is_merged", "size", "merge_range", "rect", "_border"):
            cell.fields[f] = PObj("Opaque", {})
        return None

    plan.callee(Contract("cell:Cell._set_merge", model=set_merge, assumed=True,
                         note="assigns only the merge attributes is_merged/size/merge_range/rect/_border (verified in C12)"))

    def key_model(ex, args, kwargs, line):
        v = ex.fresh("int", "key")
        ex.assume(z3.And(v.t >= 0, v.t < 2 ** 31))
        return v

    plan.callee(Contract("model:_NumbersModel.table_string_key", model=key_model, assumed=True,
                         note="returns a key in [0, 2**31) (C06/C01)"))
    plan.callee(Contract("model:_NumbersModel.table_name", model=fresh_model("str"), assumed=True, note="some str"))

    # ================================================================== decoder
    def dec_entry(ex):
        buf = ByteMem(z3.Int(fresh_name("buflen")), tag="rec")
        from pyvc.sym import mk_bits
        version, celltype = ex.fresh("int", "version"), ex.fresh("int", "celltype")
        fbits = {k: z3.Bool(fresh_name(f"flag{k}")) for k in range(21)}
        flags = SInt(mk_bits(fbits))
        buf.w32 = z3.Store(buf.w32, 8, flags.t)
        buf.known32[8] = flags.t
        buf.b8 = z3.Store(z3.Store(buf.b8, 0, version.t), 1, celltype.t)
        ex.assume(buf.ln >= 12)
        return {"cls": ClassRef("Cell"), "table_id": ex.fresh("int", "table_id"), "row": ex.fresh("int", "row"),
                "col": ex.fresh("int", "col"), "buffer": buf, "model": PObj("_NumbersModel", {}),
                "ghost_flags": flags, "ghost_version": version, "ghost_celltype": celltype}

    def flags_of(env):
        return env["ghost_flags"].t

    def dec_requires(ex, env):
        buf = env["buffer"]
        fl = flags_of(env)
        t = z3.Select(buf.b8, 1)
        # well-formed record: the payload a kind needs is present (bool/duration: double; date: seconds)
        wf = z3.And(z3.Implies(z3.Or(t == TST["boolCellType"], t == TST["durationCellType"]), bit(fl, 1) == 1),
                    z3.Implies(t == TST["dateCellType"], bit(fl, 2) == 1))
        return z3.And(fl >= 0, fl < 2 ** 21, buf.ln >= record_len(fl), wf,
                      t >= 0, t <= 255, z3.Select(buf.b8, 0) >= 0, z3.Select(buf.b8, 0) <= 255)

    def known_type(env):
        t = z3.Select(env["buffer"].b8, 1)
        return z3.Or(*[t == k for k in DEC_TYPES])

    def dec_raises(ex, env):
        return z3.Or(z3.Select(env["buffer"].b8, 0) != 5, z3.Not(known_type(env)))

    def attr_post(attr, b):
        def post(ex, env):
            buf, fl = env["buffer"], flags_of(env)
            v = env["result"].fields[attr]
            return opt_eq(v, bit(fl, b) == 1, z3.Select(buf.w32, field_offset(b, fl)))
        post.__name__ = f"{attr} == (rd32(buf, field_offset({b}, flags)) if flags[{b}] else None)"
        return post

    def payload_post(fld, b, arr):
        def post(ex, env):
            buf, fl = env["buffer"], flags_of(env)
            v = env["result"].fields[fld]
            return opt_eq(v, bit(fl, b) == 1, z3.Select(getattr(buf, arr), field_offset(b, fl)))
        post.__name__ = f"{fld} == (payload at field_offset({b}) if flags[{b}] else None)"
        return post

    def kind_post(ex, env):
        t = z3.Select(env["buffer"].b8, 1)
        cls = env["result"].cls
        return z3.Or(*[t == k for k, c in DEC_TYPES.items() if c == cls])
    kind_post.__name__ = "class of the result is the one the type byte names"

    def currency_post(ex, env):
        t = z3.Select(env["buffer"].b8, 1)
        ty = env["result"].fields["_type"]
        return (t == CURRENCY) == (as_int_term(ty) == 101)
    currency_post.__name__ = "_type == CURRENCY iff type byte == 10"

    def formula_err_post(ex, env):
        return env["result"].fields["_formula_error_id"] is None
    formula_err_post.__name__ = "_formula_error_id is not interpreted (stays None)"

    dec_posts = [attr_post(a, b) for a, b in ATTR_BIT.items()] + [
        payload_post("_d128", 0, "d128"), payload_post("_double", 1, "f64"), payload_post("_seconds", 2, "f64"),
        kind_post, currency_post, formula_err_post]

    def dec_canary(ex, env):  # wrong on purpose: formula id read one slot early
        buf, fl = env["buffer"], flags_of(env)
        v = env["result"].fields["_formula_id"]
        return opt_eq(v, bit(fl, 9) == 1, z3.Select(buf.w32, field_offset(8, fl)))

    plan.target(Contract(
        "cell:Cell._from_storage", entry=dec_entry, requires=[dec_requires],
        raises={"UnsupportedError": dec_raises}, ensures=dec_posts, merge=True, canaries=[dec_canary],
        inline={"cell:Cell.__init__", "cell:NumberCell.__init__", "cell:TextCell.__init__", "cell:RichTextCell.__init__",
                "cell:EmptyCell.__init__", "cell:BoolCell.__init__", "cell:DateCell.__init__",
                "cell:DurationCell.__init__", "cell:ErrorCell.__init__", "cell:Cell._copy_flags",
                "cell:CellStorageFlags.flags"},
        replay=dec_replay, result="none"))

    # ================================================================== encoder
    def enc_entry_for(kind):
        cls, tname, pbit = KINDS[kind]

        def entry(ex):
            f = {"_style": None, "_model": PObj("_NumbersModel", {"_table_styles": PObj("DataLists", {})}),
                 "_table_id": ex.fresh("int", "table_id"), "row": ex.fresh("int", "row"), "col": ex.fresh("int", "col")}
            for a in list(ATTR_BIT) + ["_formula_error_id"]:
                f[a] = ex.fresh("optint", a)
            # state a cell carries from an earlier decode (the flags word of the record it was read from, any value): the encoder's flags
            # word must be built from the attributes alone
            f["_flags"] = ex.fresh("int", "flags_of_the_decoded_record")
            f["_extras"] = ex.fresh("int", "extras_of_the_decoded_record")
            ex.assume(z3.And(f["_flags"].t >= 0, f["_flags"].t < 2 ** 21, f["_extras"].t >= 0, f["_extras"].t < 2 ** 16))
            if kind in ("number", "currency"):
                f["_value"] = ex.fresh("float", "value")
                f["_type"] = 101 if kind == "currency" else 2
            elif kind == "text":
                f["_value"] = ex.fresh("str", "value")
                f["_type"] = 3
            elif kind == "date":
                f["_value"] = PObj("datetime", {"tzinfo": None, "v": ex.fresh("float", "dt")})
                f["_type"] = 4
            elif kind == "bool":
                f["_value"] = ex.fresh("bool", "value")
                f["_type"] = 5
            elif kind == "duration":
                f["_value"] = PObj("timedelta", {"secs": ex.fresh("float", "secs")})
                f["_type"] = 6
            elif kind == "empty":
                f["_value"] = None
                f["_type"] = 1
            elif kind == "richtext":
                f["_value"] = ex.fresh("str", "value")
                f["_type"] = 8
            env = {"self": PObj(cls, f)}
            for a in ATTR_BIT:
                env["in" + a] = f[a]
            return env
        return entry

    def enc_requires(ex, env):
        cs = []
        for a in ATTR_BIT:
            v = env["self"].fields[a]
            cs.append(z3.Implies(z3.Not(v.isnone), z3.And(v.val.t >= -2 ** 31, v.val.t < 2 ** 31)))
        return z3.And(*cs)

    def enc_flags(env):
        r = env["result"]
        return r.known32.get(8, z3.Select(r.w32, 8))

    def enc_posts_for(kind):
        cls, tname, pbit = KINDS[kind]
        tbyte = CURRENCY if kind == "currency" else TST[tname]

        def is_mem(ex, env):
            return isinstance(env["result"], ByteMem)
        is_mem.__name__ = "returns a record (not None)"

        def header(ex, env):
            r = env["result"]
            return z3.And(z3.Select(r.b8, 0) == 5, z3.Select(r.b8, 1) == tbyte)
        header.__name__ = f"version byte == 5 and type byte == {tbyte}"

        def flags_post(ex, env):
            fl = enc_flags(env)
            s = env["self"].fields
            cs = [fl >= 0, fl < 2 ** 21]
            for a in ENC_ATTRS:
                cs.append((bit(fl, ATTR_BIT[a]) == 1) == z3.Not(s[a].isnone))
            for b in UNINTERPRETED:
                cs.append(bit(fl, b) == 0)
            for b in (0, 1, 2, 3):
                cs.append(bit(fl, b) == (1 if pbit == b else 0))
            return z3.And(*cs)
        flags_post.__name__ = "flag bit set iff the attribute is present; payload bit per kind; uninterpreted bits clear"

        def len_post(ex, env):
            r = env["result"]
            return z3.And(r.ln == record_len(enc_flags(env)), r.ln % 4 == 0)
        len_post.__name__ = "len(record) == record_len(flags) and len % 4 == 0"

        def field_post(a):
            def post(ex, env):
                r, fl = env["result"], enc_flags(env)
                v = env["self"].fields[a]
                return z3.Implies(z3.Not(v.isnone), z3.Select(r.w32, field_offset(ATTR_BIT[a], fl)) == v.val.t)
            post.__name__ = f"{a} stored at field_offset({ATTR_BIT[a]}, flags)"
            return post

        def payload(ex, env):
            r = env["result"]
            s = env["self"].fields
            if kind in ("number", "currency"):
                return z3.Select(r.d128, 12) == s["_value"].t
            if kind == "bool":
                from pyvc.sym import i2f
                return z3.Select(r.f64, 12) == i2f(z3.If(s["_value"].t, 1, 0))
            if kind == "date":
                return z3.Select(r.f64, 12) == dt_sub(s["_value"].fields["v"].t, epoch)
            if kind == "duration":
                return z3.Select(r.f64, 12) == s["_value"].fields["secs"].t
            return z3.BoolVal(True)
        payload.__name__ = "payload word at offset 12 carries the value"
        return [is_mem, header, flags_post, len_post, payload] + [field_post(a) for a in ENC_ATTRS]

    for kind in KINDS:
        plan.target(Contract(
            "cell:Cell._to_buffer", label=kind, entry=enc_entry_for(kind), requires=[enc_requires],
            ensures=enc_posts_for(kind), merge=True,
            inline={"cell:NumberCell.value", "cell:TextCell.value", "cell:BoolCell.value", "cell:DateCell.value",
                    "cell:DurationCell.value", "cell:EmptyCell.value", "cell:RichTextCell.value"},
            replay=enc_replay(kind), result="none",
            search=(lambda kk: lambda plan_, c: {"custom": "search_encoder", "native_module": plan_.native_module, "kind": kk})(kind),
            canaries=[lambda ex, env: z3.Select(env["result"].w32, field_offset(9, enc_flags(env)) + 4) ==
                      env["self"].fields["_formula_id"].val.t]))

    # ================================================================== round trip (lemma over the two contracts)
    # decode(encode(cell)).attr == cell.attr : from  enc-post (field a stored at field_offset(bit a, F), bit set iff
    # present) and dec-post (attr == rd32(buf, field_offset(bit a, F)) if bit set else None) over the same record.
    F = z3.Int("F")
    w32 = z3.Const("R_w32", z3.ArraySort(Int, Int))
    hyps, goals = [F >= 0, F < 2 ** 21], []
    for a in ENC_ATTRS:
        b = ATTR_BIT[a]
        present, val = z3.Bool(f"in_{a}_present"), z3.Int(f"in_{a}")
        out_present, out_val = z3.Bool(f"out_{a}_present"), z3.Int(f"out_{a}")
        hyps += [(bit(F, b) == 1) == present, z3.Implies(present, z3.Select(w32, field_offset(b, F)) == val)]  # encoder post
        hyps += [out_present == (bit(F, b) == 1), z3.Implies(out_present, out_val == z3.Select(w32, field_offset(b, F)))]  # decoder post
        goals.append(z3.And(out_present == present, z3.Implies(present, out_val == val)))
    plan.lemma(Lemma("ROUNDTRIP", "decode(encode(cell)).attr == cell.attr for the 12 optional reference attributes "
                                  "(two-line lemma over the encoder and decoder postconditions)",
                     [("attrs", hyps, z3.And(*goals))]))
    # distinct slots: two different present fields never share an offset ("no attribute shifted into another's slot")
    i_b, j_b = z3.Int("bi"), z3.Int("bj")
    sl = []
    bits_all = sorted(ATTR_BIT.values())
    for x in range(len(bits_all)):
        for y in range(x + 1, len(bits_all)):
            bx, by = bits_all[x], bits_all[y]
            sl.append(z3.Implies(z3.And(bit(F, bx) == 1, bit(F, by) == 1), field_offset(bx, F) + 4 <= field_offset(by, F)))
    plan.lemma(Lemma("DISJOINT", "present fields occupy pairwise disjoint, ascending slots and end at record_len",
                     [("slots", [F >= 0, F < 2 ** 21], z3.And(*sl)),
                      ("end", [F >= 0, F < 2 ** 21], z3.And(*[z3.Implies(bit(F, b) == 1, field_offset(b, F) + 4 <= record_len(F)) for b in bits_all]))]))

    plan.assumptions += [
        "typed-word memory: every buffer access in both functions is a single byte or a pack/unpack of a whole slice "
        "(enforced: anything else is UNSUPPORTED)",
        "A-LOG: logging level is an arbitrary int; debug()/warn() calls are no-ops",
        "payload semantics (decimal128 codec, datetime/timedelta arithmetic, float comparison) are uninterpreted here; "
        "they are C01's kernels - C04 decides slot identity, flags, lengths and kinds",
        "flags word in [0, 2**21): the 21 documented bits",
        "ints mathematical (exact)",
    ]
    plan.trusted += ["pyvc AST->SMT translation incl. if-join merging (cross-checked against CPython)", "z3 5.1.0", "cvc5 1.0.3"]
    for c_ in plan.targets:
        if getattr(c_, "search", None) is None and getattr(c_, "home", plan) is plan and (True):
            c_.search = lambda plan_, c: {"custom": "search_decoder", "native_module": plan_.native_module}
    return plan


def dec_replay(plan, c, inputs, ob):
    return {"custom": "replay_decoder", "native_module": plan.native_module, "inputs": inputs, "obligation": ob.name}


def enc_replay(kind):
    def r(plan, c, inputs, ob):
        return {"custom": "replay_encoder", "native_module": plan.native_module, "kind": kind, "inputs": inputs,
                "obligation": ob.name}
    return r

"""Native replay for C19: ItemsList over real Document sheets."""


def replay_getitem_int(job):
    from numbers_parser import Document
    ins = job.get("inputs", {})
    n, k = ins.get("g_len"), ins.get("key")
    if not isinstance(n, int) or not isinstance(k, int) or n < 1 or n > 12:
        # the collection always has >= 1 item in a real document; scale big models down to a small witness
        if isinstance(n, int) and isinstance(k, int) and n >= 0:
            n2 = max(1, min(n, 3))
            k = k if -3 * n2 <= k <= 3 * n2 else (-(n2 + 1) if k < 0 else n2)
            n = n2
        else:
            return {"violated": False, "spurious": True, "detail": f"no concrete n/key in model: {ins}"}
    return check_getitem(n, k)


def check_getitem(n, k):
    from numbers_parser import Document
    doc = Document()
    for i in range(n - 1):
        doc.add_sheet(f"S{i}")
    items = list(doc.sheets)
    assert len(items) == n
    try:
        got = doc.sheets[k]
    except IndexError:
        got = IndexError
    exp = items[k] if -n <= k < n else IndexError
    if got is not exp:
        return {"violated": True, "detail": f"{n} sheets: sheets[{k}] gave "
                f"{'IndexError' if got is IndexError else 'sheet #%d' % items.index(got)}, expected "
                f"{'IndexError' if exp is IndexError else 'sheet #%d' % items.index(exp)}", "n": n, "key": k}
    return {"violated": False, "detail": "lookup agrees with list order"}


NATIVE = {}

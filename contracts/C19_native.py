"""Native replay for C19: ItemsList over real Document sheets."""


def replay_getitem_int(job):
    from numbers_parser import Document
    ins = job.get("inputs", {})
    n, k = ins.get("g_len"), ins.get("key")
    if not isinstance(n, int) or not isinstance(k, int) or n < 1 or n > 12:
        # the collection always has >= 1 item in a real document; scale big models down to a small witness
        if isinstance(n, int) and isinstance(k, int) and n >= 0:
            n2 = max(1, min(n, 3))
            k = k if -3 * n2 <= k <= 3 * n2 else (-(n2 + 1) if k < 0 else n2)
            n = n2
        else:
            return {"violated": False, "spurious": True, "detail": f"no concrete n/key in model: {ins}"}
    return check_getitem(n, k)


def check_getitem(n, k):
    from numbers_parser import Document
    doc = Document()
    for i in range(n - 1):
        doc.add_sheet(f"S{i}")
    items = list(doc.sheets)
    assert len(items) == n
    try:
        got = doc.sheets[k]
    except IndexError:
        got = IndexError
    exp = items[k] if -n <= k < n else IndexError
    if got is not exp:
        return {"violated": True, "detail": f"{n} sheets: sheets[{k}] gave "
                f"{'IndexError' if got is IndexError else 'sheet #%d' % items.index(got)}, expected "
                f"{'IndexError' if exp is IndexError else 'sheet #%d' % items.index(exp)}", "n": n, "key": k}
    return {"violated": False, "detail": "lookup agrees with list order"}


def search_collections(job):
    """sheets and tables of real documents: lookup by position and by exact name, membership ignoring case, and the adders (an explicit
    name that is already taken - in any case - is refused, a generated name is the first free 'Sheet N' / 'Table N')"""
    import warnings
    from numbers_parser import Document
    warnings.simplefilter("ignore")
    for names in (["Alpha"], ["Alpha", "beta"], ["Alpha", "beta", "GAMMA", "Sheet 5"], ["x", "X y", "Z"]):
        doc = Document(sheet_name=names[0])
        for nm in names[1:]:
            doc.add_sheet(nm)
        for coll, what, adder in ((doc.sheets, "sheets", lambda nm=None: doc.add_sheet(nm)),):
            items = list(coll)
            n = len(items)
            for k in range(-n - 2, n + 2):
                r = None
                try:
                    got = coll[k]
                except IndexError:
                    got = IndexError
                exp = items[k] if -n <= k < n else IndexError
                if got is not exp:
                    return {"violated": True, "detail": f"{what} {names}: [{k}] gave {getattr(got, 'name', got)!r}, expected {getattr(exp, 'name', exp)!r}"}
            for i, nm in enumerate(names):
                if coll[nm] is not items[i]:
                    return {"violated": True, "detail": f"{what} {names}: [{nm!r}] is not item #{i}"}
                for probe in (nm.upper(), nm.lower(), nm + " ", nm[:-1]):
                    want_in = probe.lower() in [x.lower() for x in names]
                    if (probe in coll) != want_in:
                        return {"violated": True, "detail": f"{what} {names}: ({probe!r} in collection) is {probe in coll}, expected {want_in}"}
                    if probe not in names:
                        try:
                            coll[probe]
                            return {"violated": True, "detail": f"{what} {names}: [{probe!r}] returned an item although no item has exactly that name"}
                        except KeyError:
                            pass
        # adders: tables of the first sheet, then sheets
        sh = doc.sheets[0]
        t0 = [t.name for t in sh.tables]
        for taken in (t0[0], t0[0].upper(), t0[0].lower()):
            try:
                sh.add_table(taken)
                return {"violated": True, "detail": f"tables {t0}: add_table({taken!r}) was accepted although the name is taken (ignoring case)"}
            except IndexError:
                pass
        new = sh.add_table()
        names_now = [t.name for t in sh.tables]
        if names_now.count(new.name) != 1 or len({x.lower() for x in names_now}) != len(names_now) or sh.tables[-1] is not new:
            return {"violated": True, "detail": f"tables {t0}: add_table() produced {new.name!r}; tables are now {names_now}"}
        for taken in (names[0], names[0].upper(), names[-1].lower()):
            try:
                doc.add_sheet(taken)
                return {"violated": True, "detail": f"sheets {names}: add_sheet({taken!r}) was accepted although the name is taken (ignoring case)"}
            except IndexError:
                pass
        n_before = len(doc.sheets)
        doc.add_sheet()
        new = doc.sheets[-1]
        names_now = [x.name for x in doc.sheets]
        if len(names_now) != n_before + 1 or names_now.count(new.name) != 1 or len({x.lower() for x in names_now}) != len(names_now):
            return {"violated": True, "detail": f"sheets {names}: add_sheet() produced {new.name!r}; sheets are now {names_now}"}
    # names whose case-folded and lower-cased forms differ (sharp s, final sigma, ligatures): a name is at least a duplicate of itself
    for special in ("Stra\u00dfe", "\u039f\u03b4\u03cc\u03c2", "\ufb01nance", "Ma\u00dfe 2024", "\u0130stanbul"):
        doc = Document(sheet_name=special, table_name=special)
        if special not in doc.sheets or special not in doc.sheets[0].tables:
            return {"violated": True, "detail": f"a sheet and a table are named {special!r}: ({special!r} in collection) is False"}
        for what, adder in (("add_sheet", doc.add_sheet), ("add_table", doc.sheets[0].add_table)):
            try:
                adder(special)
                return {"violated": True, "detail": f"{what}({special!r}) was accepted although a sibling has exactly that name"}
            except IndexError:
                pass
    # generated names against siblings that differ only in case, and membership after a rename
    for first, more in (("table 1", ["TABLE 2"]), ("Table 1", ["table 2", "Table 4"]), ("TABLE 1", [])):
        doc = Document(table_name=first)
        sh = doc.sheets[0]
        for nm in more:
            sh.add_table(nm)
        before = [t.name for t in sh.tables]
        sh.add_table()
        now = [t.name for t in sh.tables]
        if len(now) != len(before) + 1 or len({x.lower() for x in now}) != len(now):
            return {"violated": True, "detail": f"tables {before}: add_table() produced {now[-1]!r}, which is not a new name among its siblings ignoring case"}
    for first, more in (("sheet 1", ["SHEET 2"]), ("Sheet 1", ["sheet 2"])):
        doc = Document(sheet_name=first)
        for nm in more:
            doc.add_sheet(nm)
        before = [x.name for x in doc.sheets]
        doc.add_sheet()
        now = [x.name for x in doc.sheets]
        if len(now) != len(before) + 1 or len({x.lower() for x in now}) != len(now):
            return {"violated": True, "detail": f"sheets {before}: add_sheet() produced {now[-1]!r}, which is not a new name among its siblings ignoring case"}
    doc = Document(sheet_name="Old")
    doc.add_sheet("Other")
    if "old" not in doc.sheets or "New" in doc.sheets:
        return {"violated": True, "detail": "sheets ['Old', 'Other']: membership is wrong before any rename"}
    doc.sheets[0].name = "New"
    if "old" in doc.sheets or "new" not in doc.sheets:
        return {"violated": True, "detail": f"sheets after renaming 'Old' to 'New': ('old' in sheets) is {'old' in doc.sheets}, ('new' in sheets) is {'new' in doc.sheets}"}
    try:
        doc.add_sheet("Old")
    except IndexError:
        return {"violated": True, "detail": "sheets after renaming 'Old' to 'New': add_sheet('Old') is refused although no sheet has that name any more"}
    t = doc.sheets[0].tables[0]
    oldn = t.name
    t.name = "Renamed"
    tabs = doc.sheets[0].tables
    if oldn.lower() in tabs or "renamed" not in tabs:
        return {"violated": True, "detail": f"tables after renaming {oldn!r} to 'Renamed': membership still answers for the old name"}
    return {"violated": False}


NATIVE = {}

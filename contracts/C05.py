"""C05 - IWA archive decoding and encoding are mutually inverse and chunking-independent.

Deductive kernels (relative to A-SNAPPY: uncompress(compress(x)) == x, len(compress(x)) <= 32 + len(x) + len(x)//6, and
A-PB: protobuf Parse/Serialize are inverse incl. unknown fields, ByteSize() == len(SerializeToString())):
  * IWACompressedChunk.to_buffer: the stream is cut into consecutive pieces of at most 64 KiB covering it exactly, in
    order; each frame is 00 | le24(len(payload)) | payload and the 3-byte length is lossless (len(payload) < 2**24
    is an obligation derived from the snappy bound, not an assumption);
  * IWACompressedChunk._decompress_all: for ANY framing the yielded pieces are the uncompressed payloads of the
    frames in order (so their concatenation does not depend on where the stream was cut); marker != 0 => ValueError;
  * IWAArchiveSegment.to_buffer: afterwards every message_info.length equals the serialised size of its object.
The corpus (~5 200 fixture archives), synthetic sizes, merge segments and snappy-shaped blocks: bounded stand-in.
"""
import ast
import os

import z3

from pyvc import extract
from pyvc.ctx import VerifCtx, Contract, LoopSpec
from pyvc.plan import Plan, Lemma, BoundedStandIn
from pyvc.sym import (Custom, Executor, Obligation, Int, PObj, PList, SList, SRef, SInt, SBool, Unsupported, PyRaise, VExc, fresh_name, lift, wrap,
                      as_int_term, is_intlike, _SpecCallable, _Module, ClassRef)
from contracts.C17 import ByteView

CHUNK = 65536


def T(v):
    return as_int_term(v) if is_intlike(v) else lift(v)


class Comp:
    """snappy.compress(view): an opaque bytes value of length clen(lo, hi) carrying which part of the stream it encodes"""

    def __init__(self, lo, hi, ln):
        self.lo, self.hi, self.ln = lo, hi, ln


class PieceList(Custom):
    """a list of stream pieces (lo[i], hi[i]) - the local `payloads` list / the yielded list"""

    def __init__(self, n, lo, hi):
        self.n, self.lo, self.hi = n, lo, hi

    @staticmethod
    def empty():
        return PieceList(z3.IntVal(0), z3.K(Int, z3.IntVal(0)), z3.K(Int, z3.IntVal(0)))

    @staticmethod
    def fresh(ex, tag="pieces"):
        n = z3.Int(fresh_name(tag + "_n"))
        ex.assume(n >= 0)
        A = z3.ArraySort(Int, Int)
        return PieceList(n, z3.Const(fresh_name(tag + "_lo"), A), z3.Const(fresh_name(tag + "_hi"), A))

    def length(self, ex):
        return self.n

    def method(self, ex, name, args, kwargs, line):
        if name != "append":
            raise Unsupported(f"pieces.{name}")
        v = args[0]
        if isinstance(v, (Comp, ByteView)):
            self.lo = z3.Store(self.lo, self.n, v.lo)
            self.hi = z3.Store(self.hi, self.n, v.hi)
            self.n = z3.simplify(self.n + 1)
            return None
        raise Unsupported(f"pieces.append({type(v).__name__})")


def build():
    from contracts import C17
    p17 = C17.build()  # installs the byte-view hooks on the executor
    ctx = VerifCtx()
    ctx.struct_unpack = p17.ctx.struct_unpack
    ctx.extra_globals["bytes"] = _SpecCallable(lambda ex, v: v)
    plan = Plan("C05", ctx)
    plan.native_module = os.path.join(os.path.dirname(__file__), "C05_native.py")
    CLEN = z3.Function("snappy_compressed_len", Int, Int, Int)  # length of compress(stream[lo:hi])

    def snappy_bound(lo, hi):
        n = hi - lo
        return z3.And(CLEN(lo, hi) >= 0, CLEN(lo, hi) <= 32 + n + n / 6)

    def compress(ex, v):
        if not isinstance(v, ByteView):
            raise Unsupported("snappy.compress of a non-bytes value")
        ex.assume(snappy_bound(v.lo, v.hi))  # A-SNAPPY
        return Comp(v.lo, v.hi, CLEN(v.lo, v.hi))

    ctx.extra_globals["snappy"] = _Module("snappy", {"compress": _SpecCallable(compress)})

    # ------------------------------------------------------------------ IWACompressedChunk.to_buffer
    STREAM = z3.Const("stream_bytes", z3.ArraySort(Int, Int))
    N = z3.Int("stream_len")

    def tb_entry(ex):
        ex.assume(N >= 0)
        return {"self": PObj("IWACompressedChunk", {"archives": PList([])})}

    def tb_inv(ex, env):
        p, u = env["payloads"], env["uncompressed"]
        i = z3.Int(fresh_name("pi"))
        k = p.n
        return z3.And(u.hi == N, u.lo == z3.If(CHUNK * k < N, CHUNK * k, N), k >= 0,
                      z3.Implies(k > 0, CHUNK * (k - 1) < N),
                      z3.ForAll([i], z3.Implies(z3.And(0 <= i, i < k), z3.And(
                          z3.Select(p.lo, i) == CHUNK * i, z3.Select(p.hi, i) == z3.If(CHUNK * (i + 1) < N, CHUNK * (i + 1), N)))))

    def tb_havoc(ex, env):
        env["payloads"] = PieceList.fresh(ex)
        env["uncompressed"] = ByteView(STREAM, z3.Int(fresh_name("pos")), N)

    def tb_post(ex, env):
        p = env["result"]
        i = z3.Int(fresh_name("qi"))
        k = p.n
        return z3.And(
            k >= 0, z3.Implies(N == 0, k == 0), z3.Implies(N > 0, z3.And(k >= 1, CHUNK * (k - 1) < N, N <= CHUNK * k)),
            z3.ForAll([i], z3.Implies(z3.And(0 <= i, i < k), z3.And(
                z3.Select(p.lo, i) == CHUNK * i, z3.Select(p.hi, i) == z3.If(i == k - 1, N, CHUNK * (i + 1)),
                z3.Select(p.hi, i) - z3.Select(p.lo, i) <= CHUNK, z3.Select(p.hi, i) > z3.Select(p.lo, i)))))
    tb_post.__name__ = ("the frames' payloads are compress(stream[65536*i : 65536*(i+1)]) for i = 0..k-1: consecutive, in order, "
                        "covering the stream exactly, each piece non-empty and at most 64 KiB")

    plan.target(Contract(
        "iwafile:IWACompressedChunk.to_buffer", entry=tb_entry, ensures=[tb_post], safety="fork",
        local_views={"payloads": lambda ex, env: PieceList.empty()},
        opaque={"b''.join([archive.to_buffer() for archive in self.archives])": lambda ex, env: ByteView(STREAM, z3.IntVal(0), N),
                "b''.join([b'\\x00' + struct.pack('<I', len(payload))[:3] + payload for payload in payloads])": lambda ex, env: env["payloads"]},
        loops={1: LoopSpec([tb_inv], havoc=[tb_havoc], kinds={"payloads": "skip", "uncompressed": "skip"},
                           decreases=lambda ex, env: wrap(N - env["uncompressed"].lo))},
        search=lambda p_, c: {"custom": "search_chunking", "native_module": plan.native_module},
        canaries=[lambda ex, env: env["result"].n == 1]))

    # the frame expression: 00 | le24(len(payload)) | payload, lossless for every payload the loop can produce
    frame_contract = Contract("iwafile:IWACompressedChunk.to_buffer", label="frame",
                              search=lambda p_, c_: {"custom": "search_chunking", "native_module": plan.native_module})
    ctx.contracts[frame_contract.key] = frame_contract

    def frame_obligations(plan_):
        f = extract.find_function("iwafile:IWACompressedChunk.to_buffer")
        elt = None
        for n in ast.walk(f.node):
            if isinstance(n, ast.ListComp) and "struct.pack" in ast.unparse(n.elt) and ast.unparse(n.generators[0].iter) == "payloads":
                elt = n.elt
        if elt is None:
            raise Unsupported("frame expression not found in to_buffer")
        txt = ast.unparse(elt)
        if txt != "b'\\x00' + struct.pack('<I', len(payload))[:3] + payload":
            raise Unsupported(f"frame expression changed shape: {txt}")
        # marker byte 0; struct.pack('<I', L)[:3] are the three low-order bytes of L: equal to L exactly when L < 2**24
        lo, hi = z3.Int(fresh_name("flo")), z3.Int(fresh_name("fhi"))
        L = CLEN(lo, hi)
        b = [(L / 256 ** k) % 256 for k in range(3)]
        c = frame_contract
        c.finfo = f
        ob = Obligation("frame/3-byte-length-is-lossless (len(payload) < 2**24 from the snappy bound, pieces <= 64 KiB)",
                        [0 <= lo, lo <= hi, hi - lo <= CHUNK, snappy_bound(lo, hi)],
                        z3.And(L < 2 ** 24, b[0] + 256 * b[1] + 65536 * b[2] == L), "codec", elt.lineno, {"inputs": {}})
        ob.fn, ob.contract = c.key, c
        return [ob]
    frame_obligations.contract = frame_contract
    plan.extra_obligations.append(frame_obligations)

    # ------------------------------------------------------------------ IWACompressedChunk._decompress_all
    DATA = z3.Const("file_bytes", z3.ArraySort(Int, Int))
    M = z3.Int("file_len")

    def len24(p):
        return z3.Select(DATA, p + 1) + 256 * z3.Select(DATA, p + 2) + 65536 * z3.Select(DATA, p + 3)

    FRM = z3.Function("frame_start", Int, Int)  # position of the i-th frame of a well-framed file

    def da_entry(ex):
        k = z3.Int(fresh_name("bk"))
        ex.assume(M >= 0)
        ex.assume(z3.ForAll([k], z3.And(z3.Select(DATA, k) >= 0, z3.Select(DATA, k) <= 255)))
        nf = z3.Int("n_frames")
        i = z3.Int(fresh_name("fi"))
        # precondition: the file is well framed: frame i starts at FRM(i), FRM(0) = 0, FRM(nf) = M
        ex.assume(z3.And(nf >= 0, FRM(z3.IntVal(0)) == 0, FRM(nf) == M))
        ex.assume(z3.ForAll([i], z3.Implies(z3.And(0 <= i, i < nf), z3.And(
            FRM(i) + 4 <= M, FRM(i + 1) == FRM(i) + 4 + len24(FRM(i)), FRM(i + 1) <= M))))
        return {"cls": ClassRef("IWACompressedChunk"), "data": ByteView(DATA, z3.IntVal(0), M), "g_nf": SInt(nf)}

    def uncompress(ex, v):
        # either the payload's uncompressed form or (in the real code, after an exception) the payload itself: both are
        # "the piece carried by this frame"; which one is chosen depends only on the payload bytes
        if ex.decide(z3.Bool(fresh_name("snappy_rejects")), "snappy.uncompress raises"):
            raise PyRaise(VExc("AnyException", (), "snappy.uncompress"))
        return Comp(v.lo, v.hi, None)
    ctx.extra_globals["snappy"].attrs["uncompress"] = _SpecCallable(uncompress)
    from pyvc.sym import EXC_BASES
    EXC_BASES.setdefault("AnyException", "Exception")

    def da_inv(ex, env):
        y, d = env["__yielded__"], env["data"]
        i = z3.Int(fresh_name("yi"))
        k = y.n
        return z3.And(d.hi == M, k >= 0, k <= env["g_nf"].t, d.lo == FRM(k),
                      z3.ForAll([i], z3.Implies(z3.And(0 <= i, i < k), z3.And(
                          z3.Select(y.lo, i) == FRM(i) + 4, z3.Select(y.hi, i) == FRM(i + 1), z3.Select(DATA, FRM(i)) == 0))))

    def da_havoc(ex, env):
        env["__yielded__"] = PieceList.fresh(ex, "yielded")
        env["data"] = ByteView(DATA, z3.Int(fresh_name("pos")), M)

    def da_post(ex, env):
        y = env["result"]
        i = z3.Int(fresh_name("zi"))
        return z3.And(y.n == env["g_nf"].t, z3.ForAll([i], z3.Implies(z3.And(0 <= i, i < y.n), z3.And(
            z3.Select(y.lo, i) == FRM(i) + 4, z3.Select(y.hi, i) == FRM(i + 1)))))
    da_post.__name__ = "yields exactly one piece per frame, in order: the (uncompressed) payload bytes data[start+4 : next frame]"

    def bad_marker(ex, env):
        i = z3.Int(fresh_name("mi"))
        return z3.Exists([i], z3.And(0 <= i, i < env["g_nf"].t, z3.Select(DATA, FRM(i)) != 0))

    plan.target(Contract(
        "iwafile:IWACompressedChunk._decompress_all", entry=da_entry, ensures=[da_post], raises={"ValueError": bad_marker},
        safety="fork", yield_view=lambda ex: PieceList.empty(),
        loops={1: LoopSpec([da_inv], havoc=[da_havoc], kinds={"data": "skip"}, modifies=[],
                           decreases=lambda ex, env: wrap(M - env["data"].lo))},
        search=lambda p_, c: {"custom": "search_chunking", "native_module": plan.native_module}))

    # ------------------------------------------------------------------ IWAArchiveSegment.to_buffer: header lengths
    ctx.class_fields["MessageInfo"] = {"length": "int"}
    ctx.class_fields["Message"] = {}
    SERLEN = z3.Function("serialized_len", Int, Int)  # len(obj.SerializeToString()) (A-PB: a function of the object)

    def seg_entry(ex):
        n = z3.Int(fresh_name("n_objs"))
        ex.assume(n >= 0)
        objs = SList(n, z3.Const(fresh_name("objs"), z3.ArraySort(Int, Int)), "ref:Message")
        infos = SList(n, z3.Const(fresh_name("infos"), z3.ArraySort(Int, Int)), "ref:MessageInfo")
        i, j = z3.Int(fresh_name("a")), z3.Int(fresh_name("b"))
        ex.assume(z3.ForAll([i, j], z3.Implies(z3.And(0 <= i, i < j, j < n), z3.Select(infos.at, i) != z3.Select(infos.at, j))))
        return {"self": PObj("IWAArchiveSegment", {"objects": objs, "header": PObj("ArchiveInfo", {"message_infos": infos})}),
                "g_n": SInt(n), "g_objs": objs.at, "g_infos": infos.at}

    def ser_len(ex, o, a, k, l):
        # `len(obj.SerializeToString())`: modelled through the callable below
        raise Unsupported("SerializeToString outside len()")

    def seg_inv(ex, env):
        i = z3.Int(fresh_name("si"))
        H = ex.heap_array("MessageInfo", "length")
        return z3.ForAll([i], z3.Implies(z3.And(0 <= i, i < T(env["_i"])),
                                         z3.Select(H, z3.Select(env["g_infos"], i)) == SERLEN(z3.Select(env["g_objs"], i))))

    def seg_post(ex, env):
        i = z3.Int(fresh_name("ti"))
        H = ex.heap_array("MessageInfo", "length")
        return z3.ForAll([i], z3.Implies(z3.And(0 <= i, i < env["g_n"].t),
                                         z3.Select(H, z3.Select(env["g_infos"], i)) == SERLEN(z3.Select(env["g_objs"], i))))
    seg_post.__name__ = "every message_info.length == len(serialised object) (header lengths equal the message sizes)"

    def havoc_len(ex, env):
        ex.extra_roots["heap"][("MessageInfo", "length")] = z3.Const(fresh_name("Hlen"), z3.ArraySort(Int, Int))

    plan.target(Contract(
        "iwafile:IWAArchiveSegment.to_buffer", entry=seg_entry, ensures=[seg_post], safety="fork",
        search=lambda plan_, c: {"custom": "search_segments", "native_module": plan_.native_module},
        opaque={"len(obj.SerializeToString())": lambda ex, env: wrap(SERLEN(lift(env["obj"]))),
                "b''.join([_VarintBytes(self.header.ByteSize()), self.header.SerializeToString()] + [obj.SerializeToString() for obj in self.objects])":
                    lambda ex, env: PObj("Bytes", {})},
        loops={1: LoopSpec([seg_inv], index="_i", havoc=[havoc_len])}))


    # ------------------------------------------------------------------ IWAArchiveSegment.from_buffer: which bytes and which class each message is parsed with
    from pyvc.sym import Custom as _Custom, ClassRef as _ClassRef, SBool as _SBool
    A_ = z3.ArraySort
    I_ = lambda v: v if isinstance(v, z3.ExprRef) else as_int_term(v)
    TYc, LNc, BIc = z3.Const("mi_type", A_(Int, Int)), z3.Const("mi_length", A_(Int, Int)), z3.Const("mi_base_index", A_(Int, Int))
    PSm = ctx.spec("payload_offset", [A_(Int, Int), Int, Int],
                   lambda f, ln, k: z3.Implies(k >= 0, f(ln, k) == z3.If(k == 0, z3.IntVal(0), f(ln, k - 1) + z3.Select(ln, k - 1))),
                   None, "offset of message k in the segment payload: the sum of the lengths of the messages before it")
    psm = PSm.f
    KNOWN_T = z3.Function("type_id_known", Int, z3.BoolSort())
    PATCH = z3.Function("patch_of_base_type", Int, Int)  # class token of ProtobufPatch for a base type

    class MsgInfos(_Custom):
        def __init__(self, n):
            self.n = n

        def length(self, ex):
            return self.n

        def getitem(self, ex, idx, line):
            i = I_(idx)
            ex.safety(z3.And(i >= -self.n, i < self.n), "IndexError", "message-info-index", line)
            return PObj("MessageInfoV", {"type": wrap(z3.Select(TYc, i)), "length": wrap(z3.Select(LNc, i)), "base_message_index": wrap(z3.Select(BIc, i)), "g_i": i})

    class IdMap(_Custom):
        def getitem(self, ex, idx, line):
            t = I_(idx)
            ex.safety(KNOWN_T(t), "KeyError", "type-id-known", line)
            return PObj("MsgClass", {"tok": t})

    class PayloadTok(_Custom):
        """the segment payload: only slices of it are taken"""
        def getslice(self, ex, lo, hi, line):
            return PObj("PayloadSlice", {"lo": wrap(I_(lo)) if lo is not None else 0, "hi": (wrap(I_(hi)) if hi is not None else None)})

    class Parsed(_Custom):
        def __init__(self):
            self.ln = z3.IntVal(0)
            self.CLS, self.LO, self.HI = (z3.K(Int, z3.IntVal(0)) for _ in range(3))

        def truth(self, ex):
            return self.ln > 0

        def length(self, ex):
            return self.ln

        def method(self, ex, name, args, kwargs, line):
            if name != "append":
                raise Unsupported(f"payloads.{name}")
            o = args[0].fields
            self.CLS = z3.Store(self.CLS, self.ln, I_(o["cls"]))
            self.LO = z3.Store(self.LO, self.ln, I_(o["lo"]))
            self.HI = z3.Store(self.HI, self.ln, I_(o["hi"]))
            self.ln = self.ln + 1

    def parse_with(ex, cls_tok, sl, line):
        if not (isinstance(sl, PObj) and sl.cls == "PayloadSlice" and sl.fields["hi"] is not None):
            raise Unsupported("message parsed from something that is not a bounded payload slice")
        if not ex.decide(z3.Bool(fresh_name("parse_ok")), f"parse@L{line}"):
            from pyvc.sym import PyRaise, VExc
            raise PyRaise(VExc("AnyException", (), f"L{line}:FromString"))
        return PObj("ParsedMessage", {"cls": wrap(cls_tok), "lo": sl.fields["lo"], "hi": sl.fields["hi"]})
    ctx.method_models = getattr(ctx, "method_models", {})
    ctx.method_models[("MsgClass", "FromString")] = lambda ex, o, a, k, l: parse_with(ex, o.fields["tok"], a[0], l)
    ctx.method_models[("PatchClass", "__call__")] = lambda ex, o, a, k, l: parse_with(ex, PATCH(o.fields["base"]), a[0], l)

    def fb_entry(ex):
        n = z3.Int(fresh_name("n_messages"))
        k = z3.Int(fresh_name("lk"))
        ex.assume(z3.And(n >= 0, z3.ForAll([k], z3.Select(LNc, k) >= 0)))
        info = PObj("ArchiveInfoV", {"message_infos": MsgInfos(n), "should_merge": ex.fresh("bool", "should_merge")})
        return {"cls": _ClassRef("IWAArchiveSegment"), "buf": PObj("Buf", {}), "filename": None, "g_info": info, "g_n": SInt(n), "g_payload": PayloadTok()}
    ctx.constructors["IWAArchiveSegment"] = lambda ex, args, kwargs, line: PObj("SegmentV", {"header": args[0], "objects": args[1]})
    ctx.extra_globals["ID_NAME_MAP"] = IdMap()

    def want_cls(env, k):
        merge = z3.And(z3.Select(TYc, k) == 0, lift(env["g_info"].fields["should_merge"]), k > 0)
        return z3.If(merge, PATCH(z3.Select(TYc, z3.Select(BIc, k))), z3.Select(TYc, k))

    def fb_facts(env, p, upto):
        k = z3.Int(fresh_name("fk"))
        return z3.ForAll([k], z3.Implies(z3.And(0 <= k, k < upto), z3.And(
            z3.Select(p.LO, k) == psm(LNc, k), z3.Select(p.HI, k) == psm(LNc, k) + z3.Select(LNc, k), z3.Select(p.CLS, k) == want_cls(env, k))))

    def fb_inv(ex, env):
        p = env["payloads"]
        i = I_(env["_i"])
        return z3.And(i >= 0, i <= env["g_n"].t, p.ln == i, I_(env["n"]) == psm(LNc, i), fb_facts(env, p, i))

    def fb_havoc(ex, env):
        p = Parsed()
        p.ln = z3.Int(fresh_name("n_parsed"))
        p.CLS, p.LO, p.HI = (z3.Const(fresh_name(x), A_(Int, Int)) for x in ("p_cls", "p_lo", "p_hi"))
        env["payloads"] = p

    def fb_post(ex, env):
        seg, rest = env["result"]
        p = seg.fields["objects"]
        n = env["g_n"].t
        return z3.And(p.ln == n, fb_facts(env, p, n), z3.BoolVal(seg.fields["header"] is env["g_info"]), I_(rest.fields["lo"]) == psm(LNc, n),
                      z3.BoolVal(rest.fields["hi"] is None))
    fb_post.__name__ = ("one object per message_info, in order; object k is parsed from payload[offset_k : offset_k + length_k] with offset_k the sum of the "
                        "earlier lengths; its class is the one registered for its type, or - for a merge message (type 0 in a should_merge segment, "
                        "not the first) - the patch parser over the class of message_infos[base_message_index]; the remainder starts after the last message")

    def fb_hints(ex, env):
        i = I_(env["_i"])
        return [PSm.unfold(psm, LNc, i + 1), PSm.unfold(psm, LNc, z3.IntVal(0))]
    plan.target(Contract(
        "iwafile:IWAArchiveSegment.from_buffer", entry=fb_entry, ensures=[fb_post],
        raises={"ValueError": None, "NotImplementedError_": None, "IndexError": None},  # IndexError: a merge message whose base index is outside the header
        safety="fork", search=lambda plan_, c: {"custom": "search_segments", "native_module": plan_.native_module},
        opaque={"get_archive_info_and_remainder(buf)": lambda ex, env: (ex.entry_env["g_info"], ex.entry_env["g_payload"]),
                "repr(archive_info)": "str",
                "partial(ProtobufPatch.FromString, message_info, ID_NAME_MAP[base_message.type])":
                    lambda ex, env: PObj("PatchClass", {"base": I_(ex.eval(ast.parse("ID_NAME_MAP[base_message.type]", mode="eval").body, env).fields["tok"])})},
        local_views={"payloads": lambda ex, env: Parsed()},
        loops={1: LoopSpec([fb_inv], index="_i", havoc=[fb_havoc], hints=[fb_hints])}))

    plan.bounded.append(BoundedStandIn(
        "iwa-corpus", "c05_iwa.py", ["--fixtures", "30"], thorough_args=["--fixtures", "0"],
        bound="every .iwa member of the 30 smallest fixtures and the template (thorough: all fixtures, ~5 270 members): decode, "
              "encode, independent re-parse of framing and segments (same stream, headers, message bytes; chunks <= 64 KiB; header "
              "lengths == message sizes) and re-chunking at 1000 / 65536 / 7 bytes; synthetic archives with an unknown field of "
              "{0,1,100,65471,65516,65536,65537,131072,200000} bytes (random and zero), 40 segments, 3x4 multi-message segments, "
              "blocks that are themselves valid snappy streams, 12 seeded should_merge segments with the diff based on message 0/1",
        functions=["IWAFile.from_buffer/to_buffer", "IWACompressedChunk.from_buffer/to_buffer/_decompress_all",
                   "IWAArchiveSegment.from_buffer/to_buffer", "get_archive_info_and_remainder", "is_iwa_file"]))
    plan.assumptions += [
        "A-SNAPPY: len(compress(x)) <= 32 + len(x) + len(x)//6 (assumed, used for the 3-byte length obligation); compress/uncompress "
        "are opaque functions of the piece of the stream they are applied to",
        "A-PB: len(obj.SerializeToString()) is a function of the object; protobuf Parse/Serialize inverse incl. unknown fields (only "
        "the bounded corpus run exercises it)",
        "ghost views: bytes as (array, lo, hi), the payload/yield lists as lists of stream pieces; _decompress_all's precondition is a "
        "well-framed file described by the spec function frame_start(i)",
        "the segment parser (from_buffer), the dict round trip and merge segments are decided by the bounded stand-in only",
    ]
    plan.trusted += ["pyvc AST->SMT translation (cross-checked against CPython)", "z3 5.1.0", "cvc5 1.0.3"]
    return plan

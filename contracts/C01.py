"""C01 - Values written to cells are read back exactly after save and reopen.

Kernels (contract-based, real source):
  * Cell._from_value: the class is chosen by the value's type, bool before int; floats pass through the 15-digit rounding;
    unsupported types raise ValueError;
  * _pack_decimal128 / _unpack_decimal128 (after the `fix:` that made them integer code): byte-level contracts, and the lemma
    D128-ROUNDTRIP over the two postconditions: unpack(pack(x)) is the correctly rounded value of x's shortest decimal
    spelling, i.e. x (A-REPR);
  * payload transport through the cell record (C04's encoder/decoder contracts, re-verified here);
  * text: lookup_value(lookup_key(s)).string == s (C06's DataLists contracts, re-verified here);
  * date/duration: lemma DT-ROUNDTRIP (mixed integer/real arithmetic) - for |N| < 2^52 - 10^6 microseconds from the epoch, and
    for every whole number of seconds below 2^53, timedelta(seconds=total_seconds(N us)) is N us again (A-DT);
  * growth on out-of-range writes: C11's _validate_cell_coords contract, re-verified here.
End to end (write, save, reopen, compare type and ==): bounded stand-in.
"""
import os

import z3

from pyvc.ctx import VerifCtx, Contract, LoopSpec
from pyvc.plan import Plan, Lemma, BoundedStandIn
from pyvc.sym import (Int, Str, PObj, PList, SList, SInt, SStr, SBool, SFloat, SOpt, FloatS, Unsupported, fresh_name, lift, wrap,
                      as_int_term, is_intlike, i2f, fdiv, ClassRef)

BIAS = 0x1820


def T(v):
    return as_int_term(v) if is_intlike(v) else lift(v)


def build():
    ctx = VerifCtx()
    plan = Plan("C01", ctx)
    plan.native_module = os.path.join(os.path.dirname(__file__), "C01_native.py")
    ipow = ctx.specfns["ipow"].f
    from pyvc import extract
    assert extract.module_const("constants", "DECIMAL128_BIAS") == BIAS

    # ================================================================== _from_value: dispatch by type
    sig = z3.Function("sigfig_round_15", FloatS, FloatS)
    for cname in ("TextCell", "BoolCell", "NumberCell", "DateCell", "DurationCell"):
        ctx.constructors[cname] = (lambda cn: lambda ex, args, kwargs, line: PObj(cn, {"row": args[0], "col": args[1], "value": args[2]}))(cname)
        ctx.extra_globals[cname] = ClassRef(cname)
    ctx.extra_globals["datetime"] = ClassRef("datetime")
    ctx.extra_globals["timedelta"] = ClassRef("timedelta")
    KINDS = {
        "str": ("TextCell", lambda ex: ex.fresh("str", "value")),
        "bool": ("BoolCell", lambda ex: ex.fresh("bool", "value")),
        "int": ("NumberCell", lambda ex: ex.fresh("int", "value")),
        "float": ("NumberCell", lambda ex: ex.fresh("float", "value")),
        "datetime": ("DateCell", lambda ex: PObj("datetime", {"us": ex.fresh("int", "us")})),
        "timedelta": ("DurationCell", lambda ex: PObj("timedelta", {"us": ex.fresh("int", "us")})),
    }

    def fv_entry(kind):
        def entry(ex):
            return {"cls": ClassRef("Cell"), "row": ex.fresh("int", "row"), "col": ex.fresh("int", "col"), "value": KINDS[kind][1](ex)}
        return entry

    def fv_post(kind):
        def post(ex, env):
            r = env["result"]
            if not (isinstance(r, PObj) and r.cls == KINDS[kind][0]):
                return z3.BoolVal(False)
            v, w = env["value"], r.fields["value"]
            same = (w is v) if isinstance(v, PObj) else (lift(w) == (sig(lift(v)) if kind == "float" else lift(v)))
            if isinstance(same, bool):
                same = z3.BoolVal(same)
            return z3.And(same, T(r.fields["row"]) == T(env["row"]), T(r.fields["col"]) == T(env["col"]))
        post.__name__ = (f"a {kind} value gives a {KINDS[kind][0]} at (row, col) holding the value"
                         + (" rounded to 15 significant digits" if kind == "float" else " itself"))
        return post
    for kind in KINDS:
        srch_fv = lambda plan_, c: {"custom": "search_from_value", "native_module": plan_.native_module}
    srch_d = lambda plan_, c: {"custom": "search_d128", "native_module": plan_.native_module}
    plan.target(Contract("cell:Cell._from_value", label=kind, entry=fv_entry(kind), ensures=[fv_post(kind)], safety="fork", search=srch_fv,
                             opaque={"sigfig(value, sigfigs=MAX_SIGNIFICANT_DIGITS, warn=False)": lambda ex, env: SFloat(sig(lift(env["value"])))},
                             model=None))
    plan.target(Contract("cell:Cell._from_value", label="unsupported",
                         entry=lambda ex: {"cls": ClassRef("Cell"), "row": ex.fresh("int", "row"), "col": ex.fresh("int", "col"),
                                           "value": PObj("SomethingElse", {})},
                         raises={"ValueError": "true"}, safety="fork", search=srch_fv,
                         opaque={"type(value).__name__": "str"}))

    # ================================================================== decimal128 codec
    DV = ctx.spec("digits_value", [z3.ArraySort(Int, Int), Int, Int],
                  lambda f, at, k: z3.Implies(k >= 0, f(at, k) == z3.If(k == 0, z3.IntVal(0), f(at, k - 1) * 10 + z3.Select(at, k - 1))),
                  None, "value of the first k decimal digits (Horner)").f

    def as_tuple(ex, env):
        ln = z3.Int(fresh_name("n_digits"))
        at = z3.Const(fresh_name("digits_at"), z3.ArraySort(Int, Int))
        sign, exp = z3.Int(fresh_name("sign")), z3.Int(fresh_name("dexp"))
        # A-REPR: the shortest spelling of a finite double has 1..17 digits and a decimal exponent within the format's range
        ex.assume(z3.And(ln >= 1, ln <= 17, z3.Or(sign == 0, sign == 1), exp + BIAS >= 0, exp + BIAS < 2 ** 14,
                         DV(at, ln) >= 0, DV(at, ln) < 10 ** 17))
        ex.entry_env["g_sign"], ex.entry_env["g_exp"], ex.entry_env["g_M"] = SInt(sign), SInt(exp), SInt(DV(at, ln))
        ex.entry_env["g_at"], ex.entry_env["g_n"] = at, SInt(ln)
        return (SInt(sign), SList(ln, at, "int"), SInt(exp))

    def pack_post(ex, env):
        b = env["result"]
        e0 = ex.entry_env
        M, E, S = e0["g_M"].t, e0["g_exp"].t + BIAS, e0["g_sign"].t
        items = [T(x) for x in b.items]
        if len(items) != 16:
            return z3.BoolVal(False)
        low, q = [], M
        for j in range(14):  # q_0 = M, q_{j+1} = q_j // 256: byte j is q_j % 256
            low.append(items[j] == q % 256)
            q = q / 256
        return z3.And(*low, items[14] == (E % 128) * 2, items[15] == E / 128 + 128 * S)
    pack_post.__name__ = ("16 bytes: byte j < 14 is digit j of the mantissa in base 256, byte 14 the low 7 exponent bits shifted "
                          "left once, byte 15 the high exponent bits with the sign in bit 7 (mantissa = value of the digit tuple)")

    plan.target(Contract(
        "cell:_pack_decimal128", entry=lambda ex: {"value": ex.fresh("float", "value")}, ensures=[pack_post], safety="fork", search=srch_d,
        opaque={"Decimal(str(value)).as_tuple()": as_tuple},
        loops={1: LoopSpec([lambda ex, env: z3.And(T(env["mantissa"]) == DV(ex.entry_env["g_at"], T(env["_i"])), T(env["_i"]) <= ex.entry_env["g_n"].t)],
                           index="_i", hints=[lambda ex, env: ctx.specfns["digits_value"].unfold(DV, ex.entry_env["g_at"], T(env["_i"]) + 1),
                                              lambda ex, env: ctx.specfns["digits_value"].unfold(DV, ex.entry_env["g_at"], z3.IntVal(0))])},
        unroll={2: 9}, max_unroll=9,
        canaries=[lambda ex, env: T(env["result"].items[14]) == (ex.entry_env["g_exp"].t + BIAS) % 128]))

    def unpack_entry(ex):
        items = []
        for j in range(16):
            v = ex.fresh("int", f"b{j}")
            ex.assume(z3.And(v.t >= 0, v.t <= 255))
            items.append(v)
        return {"buffer": PList(items)}

    def decoded(env):
        items = [T(x) for x in env["buffer"].items]
        m = z3.Sum([items[j] * 256 ** j for j in range(14)]) + (items[14] % 2) * 256 ** 14
        m = z3.If(items[15] >= 128, -m, m)
        e = (items[15] % 128) * 128 + items[14] / 2 - BIAS
        return m, e

    def unpack_post(ex, env):
        m, e = decoded(env)
        return lift(env["result"]) == z3.If(e < 0, fdiv(i2f(m), i2f(ipow(10, -e))), i2f(m * ipow(10, e)))
    unpack_post.__name__ = ("result == mantissa / 10**-exp (one correctly rounded int/int division) if exp < 0 else "
                            "float(mantissa * 10**exp), with mantissa, sign and exp read from the documented bit positions")
    n = z3.Int("n")
    unf = ctx.specfns["ipow"].unfold
    pos = lambda k: z3.Implies(k >= 0, ipow(10, k) >= 1)
    plan.lemma(Lemma("IPOW_POS", "10**n >= 1 for n >= 0 (induction on n)",
                     [("base", [unf(ipow, z3.IntVal(10), z3.IntVal(0))], pos(z3.IntVal(0))),
                      ("step", [n >= 0, pos(n), unf(ipow, z3.IntVal(10), n + 1)], pos(n + 1))], instance=pos))
    plan.target(Contract("cell:_unpack_decimal128", entry=unpack_entry, ensures=[unpack_post], safety="fork", result="float", search=srch_d,
                         hints=[lambda ex, env: pos(-decoded(env)[1])],
                         canaries=[lambda ex, env: lift(env["result"]) == i2f(decoded(env)[0])]))

    # D128-ROUNDTRIP: over the two postconditions, on the same 16 bytes
    M, E, S = z3.Int("M"), z3.Int("E"), z3.Int("S")
    bs = [z3.Int(f"byte{j}") for j in range(16)]
    qs = [M]
    for j in range(14):
        qs.append(qs[-1] / 256)
    pack_facts = [bs[j] == qs[j] % 256 for j in range(14)] + [bs[14] == (E % 128) * 2, bs[15] == E / 128 + 128 * S]
    rng = [M >= 0, M < 10 ** 17, E >= 0, E < 2 ** 14, z3.Or(S == 0, S == 1)]
    m_dec = z3.Sum([bs[j] * 256 ** j for j in range(14)]) + (bs[14] % 2) * 256 ** 14
    m_dec = z3.If(bs[15] >= 128, -m_dec, m_dec)
    e_dec = (bs[15] % 128) * 128 + bs[14] / 2
    plan.lemma(Lemma("D128-ROUNDTRIP", "the reader recovers exactly the (sign, mantissa, exponent) the writer stored, and every byte is in 0..255",
                     [("fields-recovered", rng + pack_facts, z3.And(m_dec == z3.If(S == 1, -M, M), e_dec == E, *[z3.And(b >= 0, b <= 255) for b in bs]))],
                     order=("z3", "cvc5")))
    x = z3.Const("x", FloatS)
    xe = E - BIAS
    sm = z3.If(S == 1, -M, M)
    a_repr = x == z3.If(xe < 0, fdiv(i2f(sm), i2f(ipow(10, -xe))), i2f(sm * ipow(10, xe)))
    res = z3.If(e_dec - BIAS < 0, fdiv(i2f(m_dec), i2f(ipow(10, -(e_dec - BIAS)))), i2f(m_dec * ipow(10, e_dec - BIAS)))
    plan.lemma(Lemma("D128-VALUE", "A-REPR (x is the correctly rounded value of its shortest spelling (-1)^S * M * 10^(E-bias)) and the two "
                                   "postconditions give unpack(pack(x)) == x",
                     [("value-recovered", rng + pack_facts + [a_repr, m_dec == sm, e_dec == E], res == x)]))

    # ================================================================== dates and durations (A-DT)
    N, ip, R = z3.Int("N_us"), z3.Int("int_part"), z3.Int("R")
    f, fr, p = z3.Real("f"), z3.Real("frac"), z3.Real("p")
    eps = z3.RealVal(1) / z3.RealVal(2 ** 53)
    absr = lambda t: z3.If(t >= 0, t, -t)
    dt_hyps = [absr(z3.ToReal(N)) < 2 ** 52 - 10 ** 6,
               absr(f * 10 ** 6 - z3.ToReal(N)) <= eps * absr(z3.ToReal(N)),  # total_seconds(): N / 10**6 correctly rounded
               f == z3.ToReal(ip) + fr, absr(fr) < 1, z3.Or(fr == 0, (fr > 0) == (f > 0)),  # math.modf is exact
               absr(p - fr * 10 ** 6) <= eps * absr(fr * 10 ** 6),  # the product frac * 1e6, one rounding
               absr(z3.ToReal(R) - p) <= z3.RealVal(1) / 2]  # round-half-even to whole microseconds
    plan.lemma(Lemma("DT-ROUNDTRIP", "A-DT: timedelta(seconds=fl(N/10^6)) is N microseconds for |N| < 2^52 - 10^6 (about +-142 years)",
                     [("microseconds-recovered", dt_hyps, ip * 10 ** 6 + R == N)]))
    s = z3.Int("s")
    plan.lemma(Lemma("DT-WHOLE-SECONDS", "A-DT: a whole number of seconds below 2^53 is transported exactly (years 1..9999 are < 2^38 s from the epoch)",
                     [("seconds-recovered", [N == s * 10 ** 6, absr(z3.ToReal(s)) < 2 ** 53, f == z3.ToReal(s),  # exactly representable quotient
                                             f == z3.ToReal(ip) + fr, absr(fr) < 1, z3.Or(fr == 0, (fr > 0) == (f > 0)),
                                             absr(p - fr * 10 ** 6) <= eps * absr(fr * 10 ** 6), absr(z3.ToReal(R) - p) <= z3.RealVal(1) / 2],
                       ip * 10 ** 6 + R == N)]))
    plan.lemma(Lemma("DT-DOMAIN", "the property's date and duration domains are inside the lemmas' bounds",
                     [("bounds", [], z3.And(z3.IntVal(101 * 366 * 86400 * 10 ** 6) < 2 ** 52 - 10 ** 6,  # 1900..2100 / +-100 years in us
                                            z3.IntVal(10000 * 366 * 86400) < 2 ** 53))]))

    # ================================================================== re-verified kernels of other properties
    from contracts import C04, C06, C11
    p4 = C04.build()
    plan.import_targets(p4, lambda c: c.qual == "cell:Cell._from_storage" or (c.qual == "cell:Cell._to_buffer" and c.label in
                                                                             ("number", "text", "date", "bool", "duration")))
    p6 = C06.build()
    plan.import_targets(p6, lambda c: c.qual in ("model:DataLists.lookup_key", "model:DataLists.lookup_value", "model:_NumbersModel.table_string"))
    p11 = C11.build()
    plan.import_targets(p11, lambda c: c.qual == "document:Table._validate_cell_coords")
    from contracts import C12
    p12 = C12.build()  # Table.write: exactly the addressed cell is replaced by the cell made from the value
    plan.import_targets(p12, lambda c: c.qual == "document:Table.write")
    # ------------------------------------------------------------------ keys of lists that a save empties are looked up afresh
    from contracts.shared_ground import keys_of_emptied_lists_not_memoised
    plan.ground.append(("keys-of-lists-emptied-on-save-are-not-memoised", keys_of_emptied_lists_not_memoised))

    from contracts import C07
    p7 = C07.build()  # "tile/row-info rebuild on save": every row is stored exactly once, in its own tile, with its own offsets
    plan.import_targets(p7, lambda c: c.qual in ("model:_NumbersModel.recalculate_table_data", "model:_NumbersModel.recalculate_row_info"))
    for lem in p7.lemmas:
        plan.lemmas.append(lem)

    plan.bounded.append(BoundedStandIn(
        "values-round-trip", "c01_values.py", [], thorough_args=["--level", "2"],
        bound="codec: every int |n| <= 200000, every k/100 and k/1000 for k <= 200000, 200000 (thorough 2M) seeded <=15-digit floats over "
              "1e-290..1e290 and 0.0; documents: per type 300 (thorough 3000) values (strings incl. empty/multi-line/astral/long, bools, "
              "ints < 1e15, floats, datetimes years 1..9999 whole seconds and microseconds 1900..2100, timedeltas +-100 years) written at "
              "positions incl. beyond the table (300,0), (0,300), (256,256), (1000, 2), saved, reopened, compared by type and ==",
        functions=["Table.write", "Cell._from_value", "Cell._to_buffer", "Cell._from_storage", "_pack_decimal128", "_unpack_decimal128",
                   "recalculate_table_data", "Document.save", "Document(path)"]))
    plan.assumptions += [
        "A-REPR: Decimal(str(x)).as_tuple() is (sign, 1..17 digits, exponent) of the shortest spelling, and x is the correctly rounded "
        "value of that decimal; int/int true division and float(int) are correctly rounded (CPython); floats otherwise uninterpreted",
        "A-DT: CPython's datetime arithmetic: datetime-datetime and datetime+timedelta exact in microseconds; total_seconds() is one "
        "correctly rounded division; timedelta(seconds=f) = whole part * 10^6 + round_half_even(fl(frac * 1e6)) - the DT lemmas are "
        "statements about this model, the code's part (which expression feeds which) is the C04 payload contracts",
        "sigfig.round is uninterpreted (the property's floats have <= 15 significant digits, on which it is the identity: stand-in)",
    ]
    plan.trusted += ["pyvc AST->SMT translation (cross-checked against CPython)", "z3 5.1.0", "cvc5 1.0.3"]
    plan.level = "other"
    plan.explanation = ('Mixed: class dispatch, the decimal128 codec (byte-level contracts and round-trip lemmas), payload transport through the cell record, the string list round trip and the date/duration arithmetic lemmas are proved for all values; the end-to-end statement (write, save, reopen) composes them through the table/tile/container writers, which is a bounded stand-in.')
    return plan

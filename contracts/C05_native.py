"""Native side of C05: chunking/framing of synthetic streams through the real codec (reuses the bounded harness)."""
import os
import sys


def search_chunking(job):
    sys.path.insert(0, os.path.dirname(os.path.dirname(os.path.abspath(__file__))))
    from bounded import c05_iwa
    for size in (0, 1, 65536 - 40, 65536, 65537, 131072, 200000):
        for rnd in (True, False):
            case = {"kind": "synthetic", "size": size, "seed": 1, "random": rnd}
            try:
                r = c05_iwa.synthetic(case)
            except Exception as e:  # noqa: BLE001  (struct.error, snappy errors ...: encoding a well-formed stream must not fail)
                r = {"detail": f"synthetic stream of {size} {'incompressible' if rnd else 'zero'} bytes: re-encoding raised {type(e).__name__}: {e}"}
            if r and not r.get("ok"):
                return {"violated": True, "detail": r["detail"], "job": {"custom": "replay_case", "case": case}}
    for cuts in ("empty-lead", "empty-trail", "empty-mid", "empty-seg", "many"):  # chunks that decompress to nothing
        case = {"kind": "synthetic", "size": 700, "seed": 6, "segments": 6, "cuts": cuts}
        r = c05_iwa.synthetic(case)
        if r and not r.get("ok"):
            return {"violated": True, "detail": r["detail"], "job": {"custom": "replay_case", "case": case}}
    for sz in (200, 30000):
        case = {"kind": "synthetic", "size": sz, "seed": 5, "snappy_block": True}
        r = c05_iwa.synthetic(case)
        if r and not r.get("ok"):
            return {"violated": True, "detail": r["detail"], "job": {"custom": "replay_case", "case": case}}
    return {"violated": False}


def replay_case(job):
    sys.path.insert(0, os.path.dirname(os.path.dirname(os.path.abspath(__file__))))
    from bounded import c05_iwa
    r = c05_iwa.run_case(job["case"])
    if r and not r.get("ok"):
        return {"violated": True, "detail": r["detail"]}
    return {"violated": False}


def search_segments(job):
    """multi-message segments, merge segments and empty-chunk cuts through the real reader"""
    sys.path.insert(0, os.path.dirname(os.path.dirname(os.path.abspath(__file__))))
    from bounded import c05_iwa
    cases = [{"kind": "synthetic", "size": 5000, "seed": 1, "segments": 3, "messages": 4}, {"kind": "synthetic", "size": 300, "seed": 2, "segments": 10}]
    cases += [{"kind": "merge", "base": i % 2, "seed": 100 + i} for i in range(8)]
    cases += [{"kind": "synthetic", "size": 700, "seed": 6, "segments": 6, "cuts": c} for c in ("empty-lead", "empty-trail", "empty-mid", "empty-seg", "many")]
    cases += [{"kind": "synthetic", "size": 50, "seed": 9 + hl, "segments": 2, "header_len": hl} for hl in (127, 128, 129, 16383, 16384, 16385)]
    for case in cases:
        r = c05_iwa.run_case(case)
        if r and not r.get("ok"):
            return {"violated": True, "detail": r["detail"], "job": {"custom": "replay_case", "case": case}}
    return {"violated": False}


NATIVE = {}

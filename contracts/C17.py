"""C17 - Damaged or foreign files fail only with the library's own error types.

Exception-escape contracts, computed modularly: every call gets the callee's `raises` set (proved for repository
functions, ASSUMED - and listed - for zipfile/plistlib/pathlib/protobuf), and every exception that can reach the
function boundary must be one of {FileError, FileFormatError, UnsupportedError}.
Kernel with full functional spec: iwafile.is_iwa_file over all byte strings (never raises; True iff the data is
exactly a sequence of well-formed chunk frames).
"""
import os

import z3

from pyvc.ctx import VerifCtx, Contract, LoopSpec
from pyvc.plan import Plan, Lemma, BoundedStandIn
from pyvc.sym import (Custom, Int, PObj, PDict, PList, SInt, SStr, SBool, SOpt, Unsupported, PyRaise, VExc, PathEnd, fresh_name,
                      lift, wrap, as_int_term, is_intlike, EXC_BASES, _SpecCallable, ClassRef)

LIB_ERRORS = ("FileError", "FileFormatError", "UnsupportedError")
# classes the assumed library contracts may raise (all subclasses of Exception)
for name, base in (("BadZipFile", "Exception"), ("zlib.error", "Exception"), ("ExpatError", "Exception"), ("UnicodeError", "ValueError"),
                   ("UnicodeDecodeError", "UnicodeError"), ("EOFError", "Exception"), ("InvalidFileException", "ValueError"),
                   ("plistlib.InvalidFileException", "ValueError"), ("DecodeError", "Exception"), ("AnyException", "Exception")):
    EXC_BASES.setdefault(name, base)


def T(v):
    return as_int_term(v) if is_intlike(v) else lift(v)


class ByteView(Custom):
    """an immutable bytes value seen as (arr, lo, hi): slices are index arithmetic, no copying"""

    def __init__(self, arr, lo, hi, tail=()):
        self.arr, self.lo, self.hi, self.tail = arr, lo, hi, tuple(tail)

    def length(self, ex):
        return z3.simplify(self.hi - self.lo + len(self.tail))

    def truth(self, ex):
        return self.length(ex) > 0

    def getitem(self, ex, idx, line):
        if self.tail:
            raise Unsupported("index into a concatenated view")
        i = as_int_term(idx)
        n = self.hi - self.lo
        ex.safety(z3.And(i >= -n, i < n), "IndexError", "byte-index-in-range", line)
        return wrap(z3.Select(self.arr, self.lo + z3.If(i < 0, i + n, i)))

    def slice_of(self, ex, lo, hi):
        if self.tail:
            raise Unsupported("slice of a concatenated view")
        n = self.hi - self.lo

        def clamp(t):
            return z3.If(t < 0, z3.If(t + n < 0, 0, t + n), z3.If(t > n, n, t))
        a = z3.IntVal(0) if lo is None else clamp(as_int_term(lo))
        b = n if hi is None else clamp(as_int_term(hi))
        b = z3.If(b < a, a, b)
        return ByteView(self.arr, z3.simplify(self.lo + a), z3.simplify(self.lo + b))


def build():
    ctx = VerifCtx()
    plan = Plan("C17", ctx)
    plan.native_module = os.path.join(os.path.dirname(__file__), "C17_native.py")

    # ------------------------------------------------------------------ byte views in the executor
    import pyvc.sym as S
    orig_get_item = S.Executor.get_item

    def get_item(self, obj, sl, env, line=0):
        import ast
        if isinstance(obj, ByteView) and isinstance(sl, ast.Slice):
            lo = None if sl.lower is None else self.eval(sl.lower, env)
            hi = None if sl.upper is None else self.eval(sl.upper, env)
            return obj.slice_of(self, lo, hi)
        return orig_get_item(self, obj, sl, env, line)
    S.Executor.get_item = get_item
    orig_binop = S.Executor.binop

    def binop(self, op, a, b, line=0):
        import ast
        if isinstance(a, ByteView) and isinstance(b, bytes) and isinstance(op, ast.Add):
            return ByteView(a.arr, a.lo, a.hi, a.tail + tuple(b))
        return orig_binop(self, op, a, b, line)
    S.Executor.binop = binop

    def struct_unpack(ex, args, line):
        fmt, v = args
        if fmt != "<I" or not isinstance(v, ByteView):
            raise Unsupported(f"unpack {fmt} of {type(v).__name__}")
        ex.safety(v.length(ex) == 4, "struct.error", "unpack-needs-4-bytes", line)
        n_arr = 4 - len(v.tail)
        val = z3.Sum([z3.Select(v.arr, v.lo + k) * (256 ** k) for k in range(n_arr)] +
                     [z3.IntVal(t * 256 ** (n_arr + k)) for k, t in enumerate(v.tail)])
        return (wrap(val),)
    ctx.struct_unpack = struct_unpack
    ctx.extra_globals["bytes"] = _SpecCallable(lambda ex, v: v)

    # ------------------------------------------------------------------ is_iwa_file: spec FRAMES
    ARR = z3.Const("data_bytes", z3.ArraySort(Int, Int))
    N = z3.Int("data_len")
    FR = z3.Function("well_framed_from", Int, z3.BoolSort())  # FR(p): data[p:] is exactly a sequence of frames

    def len24(p):
        return z3.Select(ARR, p + 1) + 256 * z3.Select(ARR, p + 2) + 65536 * z3.Select(ARR, p + 3)

    def fr_unfold(p):
        return z3.Implies(z3.And(0 <= p, p <= N), FR(p) == z3.If(
            p == N, z3.BoolVal(True),
            z3.And(p + 4 <= N, z3.Select(ARR, p) == 0, p + 4 + len24(p) <= N, FR(p + 4 + len24(p)))))

    def iwa_entry(ex):
        ex.assume(N >= 0)
        k = z3.Int(fresh_name("bk"))
        ex.assume(z3.ForAll([k], z3.And(z3.Select(ARR, k) >= 0, z3.Select(ARR, k) <= 255)))
        return {"data": ByteView(ARR, z3.IntVal(0), N)}

    def iwa_post(ex, env):
        r = env["result"]
        rt = r.t if isinstance(r, SBool) else z3.BoolVal(bool(r))
        return rt == FR(z3.IntVal(0))
    iwa_post.__name__ = "True iff data is exactly a sequence of frames: 00 | 3-byte little-endian length | that many bytes"

    def iwa_inv(ex, env):
        d = env["data"]
        length = T(env["length"])
        pos = d.lo
        # the unread suffix starts at min(N, length); while length <= N the verdict so far is FR(0) == FR(length)
        return z3.And(d.hi == N, 0 <= pos, pos <= N, length >= 0, pos == z3.If(length < N, length, N),
                      z3.Implies(length <= N, FR(z3.IntVal(0)) == FR(length)),
                      z3.Implies(length > N, z3.Not(FR(z3.IntVal(0)))), T(env["data_length"]) == N)

    def iwa_havoc(ex, env):
        env["data"] = ByteView(ARR, z3.Int(fresh_name("pos")), N)

    def iwa_hints(ex, env):
        d = env["data"]
        return [fr_unfold(d.lo), fr_unfold(T(env["length"])), fr_unfold(N)]

    plan.target(Contract(
        "iwafile:is_iwa_file", entry=iwa_entry, ensures=[iwa_post], safety="fork", result="bool",
        loops={1: LoopSpec([iwa_inv], havoc=[iwa_havoc], hints=[iwa_hints], kinds={"data": "skip"}, decreases=lambda ex, env: wrap(N - env["data"].lo))},
        post_hints=[lambda ex, env: [fr_unfold(N), fr_unfold(z3.IntVal(0))]],
        replay=lambda p_, c, inputs, ob: {"custom": "replay_iwa", "native_module": plan.native_module, "model": ob.extra.get("model")},
        search=lambda p_, c: {"custom": "search_iwa", "native_module": plan.native_module},
        canaries=[lambda ex, env: (env["result"].t if isinstance(env["result"], SBool) else z3.BoolVal(bool(env["result"]))) == z3.BoolVal(True)]))

    # ================================================================== escape contracts for the container-loading layer
    ZIP_RAISES = ("BadZipFile", "UnicodeDecodeError", "ValueError", "NotImplementedError", "EOFError")  # ZipFile(...) on damaged data
    IO_RAISES = ("OSError",)  # operating-system I/O errors: outside the property (not a property of the file's content)

    def may_raise(ex, classes, label, line=0):
        for cls in classes:
            if ex.decide(z3.Bool(fresh_name(f"raises_{cls}")), f"{label} may raise {cls}"):
                raise PyRaise(VExc(cls, (), f"L{line}:{label}"))

    def fresh_bytes(ex, tag="blob"):
        n = z3.Int(fresh_name(tag + "_len"))
        ex.assume(n >= 0)
        return ByteView(z3.Const(fresh_name(tag), z3.ArraySort(Int, Int)), z3.IntVal(0), n)

    def mk_zip(ex):
        return PObj("ZipFile", {"filename": ex.fresh("str", "zipname")})

    def zip_ctor(ex, args, kwargs, line):
        may_raise(ex, ZIP_RAISES + IO_RAISES, "ZipFile()", line)
        return mk_zip(ex)
    ctx.constructors["ZipFile"] = zip_ctor
    ctx.extra_globals["ZipFile"] = ClassRef("ZipFile")
    ctx.constructors["BytesIO"] = lambda ex, a, k, l: PObj("BytesIO", {})
    ctx.extra_globals["BytesIO"] = ClassRef("BytesIO")
    ctx.extra_globals["version_info"] = (3, 12, 1, "final", 0)
    ctx.extra_globals["BadZipFile"] = ClassRef("BadZipFile")

    def zip_getinfo(ex, o, a, k, l):
        may_raise(ex, ("KeyError",), "ZipFile.getinfo", l)
        return PObj("ZipInfo", {})

    def zip_read(ex, o, a, k, l):
        may_raise(ex, ("AnyException",), "ZipFile.read", l)  # BadZipFile, zlib.error, RuntimeError, NotImplementedError, ...
        return fresh_bytes(ex)

    ctx.method_models = {
        ("ZipFile", "getinfo"): zip_getinfo, ("ZipFile", "read"): zip_read,
        ("ZipFile", "namelist"): lambda ex, o, a, k, l: PList([ex.fresh("str", "member1"), ex.fresh("str", "member2")]),
        ("Handler", "store_object"): lambda ex, o, a, k, l: None, ("Handler", "store_file"): lambda ex, o, a, k, l: None,
        ("Handler", "allowed_format"): lambda ex, o, a, k, l: ex.fresh("bool", "fmt_ok"),
        ("Handler", "allowed_version"): lambda ex, o, a, k, l: ex.fresh("bool", "ver_ok"),
        ("Path", "exists"): lambda ex, o, a, k, l: ex.fresh("bool", "exists"),
        ("Path", "is_dir"): lambda ex, o, a, k, l: ex.fresh("bool", "is_dir"),
        ("Path", "is_file"): lambda ex, o, a, k, l: ex.fresh("bool", "is_file"),
        ("Path", "iterdir"): lambda ex, o, a, k, l: (may_raise(ex, IO_RAISES, "Path.iterdir", l), PList([mk_path(ex), mk_path(ex)]))[1],
        ("Path", "open"): lambda ex, o, a, k, l: (may_raise(ex, IO_RAISES, "Path.open", l), PObj("File", {}))[1],
        ("File", "read"): lambda ex, o, a, k, l: (may_raise(ex, IO_RAISES, "file.read", l), fresh_bytes(ex))[1],
    }

    def mk_path(ex):
        return PObj("Path", {"suffix": ex.fresh("str", "suffix"), "name": ex.fresh("str", "name")})

    def path_div(ex, op, a, b, line):
        import ast
        if isinstance(a, PObj) and a.cls == "Path" and isinstance(op, ast.Div):
            return mk_path(ex)
        return NotImplemented
    ctx.obj_binop = path_div
    ctx.extra_globals["open"] = _SpecCallable(lambda ex, *a: (may_raise(ex, IO_RAISES, "open()"), PObj("File", {}))[1])
    ctx.extra_globals["str"] = _SpecCallable(lambda ex, v=None: ex.fresh("str", "s") if isinstance(v, PObj) else ex.to_str(v))

    def plist_loads(ex, *a):
        may_raise(ex, ("AnyException",), "plistlib.loads")  # InvalidFileException, ExpatError, ValueError, ...
        return PObj("PlistValue", {})
    from pyvc.sym import _Module
    ctx.extra_globals["plistlib"] = _Module("plistlib", {"loads": _SpecCallable(plist_loads), "InvalidFileException": ClassRef("plistlib.InvalidFileException")})
    ctx.method_models[("PlistValue", "__getitem__")] = lambda ex, o, a, k, l: (may_raise(ex, ("KeyError", "TypeError"), "plist[key]", l), PObj("PlistValue", {}))[1]
    ctx.extra_globals["re"] = _Module("re", {"sub": _SpecCallable(lambda ex, *a: ex.fresh("str", "subbed"))})

    def mk_iwork(ex, package=None):
        return PObj("IWork", {"_handler": PObj("Handler", {}), "_filepath": mk_path(ex), "_zipf": mk_zip(ex),
                              "_is_package": ex.fresh("bool", "is_package") if package is None else package})

    LIB = {e: None for e in LIB_ERRORS}
    OUTSIDE = list(IO_RAISES)

    # _store_blob
    plan.callee(Contract("iwafile:IWAFile.from_buffer", assumed=True, note="may raise any Exception (it re-raises ValueError itself); returns an IWAFile",
                         model=lambda ex, a, k, l: (may_raise(ex, ("AnyException",), "IWAFile.from_buffer", l), PObj("IWAFile", {}))[1]))

    def objects_of(ex, env):
        may_raise(ex, ("AnyException",), "iwaf.chunks[0].archives / a.objects[0]")  # IndexError, AttributeError ...
        return PList([(ex.fresh("int", "identifier"), PObj("Message", {})), (ex.fresh("int", "identifier"), PObj("Message", {}))])

    plan.target(Contract(
        "iwork:IWork._store_blob", entry=lambda ex: {"self": mk_iwork(ex), "filename": ex.fresh("str", "filename"), "blob": fresh_bytes(ex)},
        raises={"FileFormatError": None}, safety="fork",
        opaque={"[(a.header.identifier, a.objects[0]) for a in iwaf.chunks[0].archives]": objects_of}, search=lambda p_, c: {"custom": "search_container", "native_module": plan.native_module}))

    # _open_zipfile
    plan.target(Contract("iwork:IWork._open_zipfile", entry=lambda ex: {"self": mk_iwork(ex), "filepath": mk_path(ex)},
                         raises={"FileFormatError": None}, may_raise=OUTSIDE, safety="fork", result="none",
                         effects=None, search=lambda p_, c: {"custom": "search_container", "native_module": plan.native_module}))
    plan.callee(Contract("iwork:IWork._open_zipfile", label="call", when=lambda a: True, assumed=False,
                         model=lambda ex, a, k, l: (may_raise(ex, ("FileFormatError",) + IO_RAISES, "_open_zipfile", l), mk_zip(ex))[1]))
    # _read_objects_from_zipfile (recursive: uses its own contract for the nested Index.zip)
    plan.callee(Contract("iwork:IWork._store_blob", label="call", when=lambda a: True,
                         model=lambda ex, a, k, l: may_raise(ex, ("FileFormatError",), "_store_blob", l)))
    plan.callee(Contract("iwork:IWork._read_objects_from_zipfile", label="call", when=lambda a: True,
                         model=lambda ex, a, k, l: may_raise(ex, ("FileFormatError", "UnsupportedError") + IO_RAISES, "_read_objects_from_zipfile", l)))
    calls = {"iwork:IWork._open_zipfile": "call", "iwork:IWork._store_blob": "call",
             "iwork:IWork._read_objects_from_zipfile": "call", "iwork:IWork._read_objects_from_package": "call",
             "iwork:IWork.document_version": "call"}
    plan.target(Contract("iwork:IWork._read_objects_from_zipfile", entry=lambda ex: {"self": mk_iwork(ex), "zipf": mk_zip(ex)},
                         raises={"FileFormatError": None, "UnsupportedError": None}, may_raise=OUTSIDE, safety="fork", use_labels=calls, search=lambda p_, c: {"custom": "search_container", "native_module": plan.native_module}))
    plan.callee(Contract("iwork:IWork._read_objects_from_package", label="call", when=lambda a: True,
                         model=lambda ex, a, k, l: may_raise(ex, ("FileFormatError", "UnsupportedError") + IO_RAISES, "_read_objects_from_package", l)))
    plan.target(Contract("iwork:IWork._read_objects_from_package", entry=lambda ex: {"self": mk_iwork(ex), "filepath": mk_path(ex)},
                         raises={"FileFormatError": None, "UnsupportedError": None}, may_raise=OUTSIDE, safety="fork", use_labels=calls, search=lambda p_, c: {"custom": "search_container", "native_module": plan.native_module}))
    # document_version (property)
    def dv_post(ex, env):
        return z3.BoolVal(isinstance(env["result"], (str, SStr)))
    dv_post.__name__ = "returns a str"
    plan.target(Contract("iwork:IWork.document_version", entry=lambda ex: {"self": mk_iwork(ex)}, ensures=[dv_post],
                         raises={"FileFormatError": None}, may_raise=OUTSIDE, safety="fork",
                         opaque={"[x.filename for x in self._zipf.filelist if x.filename.endswith(('Metadata/Properties.plist', 'Metadata/BuildVersionHistory.plist'))]":
                                 lambda ex, env: PList([ex.fresh("str", "m")] * 2) if ex.decide(z3.Bool(fresh_name("two_meta")), "two metadata members") else PList([ex.fresh("str", "m")]),
                                 "sorted(metadata)[-1]": "str"}, search=lambda p_, c: {"custom": "search_container", "native_module": plan.native_module}))
    plan.callee(Contract("iwork:IWork.document_version", label="call", when=lambda a: True,
                         model=lambda ex, a, k, l: (may_raise(ex, ("FileFormatError",) + IO_RAISES, "document_version", l), ex.fresh("str", "version"))[1]))
    # open
    plan.target(Contract("iwork:IWork.open", entry=lambda ex: {"self": mk_iwork(ex), "filepath": mk_path(ex)},
                         raises=LIB, may_raise=OUTSIDE, safety="fork", use_labels=calls, search=lambda p_, c: {"custom": "search_container", "native_module": plan.native_module}))

    plan.bounded.append(BoundedStandIn(
        "fault-injection", "c17_faults.py", ["--flips", "150", "--truncs", "60", "--bases", "2"],
        thorough_args=["--flips", "1000", "--truncs", "300", "--bases", "8"], timeout=1800,
        bound="bundled template + 1 fixture (thorough: 11 fixtures): missing path, wrong suffix, not a zip, no .iwa members, "
              "encrypted (+ damaged member before .iwph), truncation at 64 (304) lengths, 150 (1500) seeded 1-3 bit flips in "
              "stored and deflated containers, per-member faults on 6 .iwa members and the plists (empty, 1/2/3 bytes, 00 00, cut "
              "in half, last 3 bytes cut, chunk marker, chunk length +7/-5, garbage payload, varint cut, member dropped, package "
              "form) and 6 malformed Properties.plist variants",
        functions=["Document(path)", "IWork.open", "ObjectStore.__init__", "_NumbersModel.__init__"]))
    plan.assumptions += [
        "ASSUMED raises-sets of library calls: ZipFile(...) in {BadZipFile, UnicodeDecodeError, ValueError, NotImplementedError, "
        "EOFError, OSError}; ZipFile.getinfo in {KeyError}; ZipFile.read, plistlib.loads, IWAFile.from_buffer and the "
        "chunks[0]/objects[0] projection: any subclass of Exception; plist[key] in {KeyError, TypeError}; open/read/iterdir in "
        "{OSError}; ZipFile.namelist, Path.exists/is_dir/suffix, BytesIO, re.sub, handler callbacks: no exception",
        "OSError (operating-system I/O failure) is allowed to propagate: it is not a property of the file's content",
        "only subclasses of Exception are considered (KeyboardInterrupt, MemoryError, RecursionError are outside A-PY)",
        "with-statements: context managers transparent; warn() is a no-op (warnings are not errors)",
        "the property's model-level part (ObjectStore/_NumbersModel constructors resolving object ids) is covered by the bounded "
        "stand-in only",
        "bytes values as (array, lo, hi) views; struct.unpack('<I') of a 4-byte view = little-endian sum; bytes(x) is the identity",
        "spec function well_framed_from(p) is uninterpreted + unfolding instances at the loop positions",
    ]
    plan.trusted += ["pyvc AST->SMT translation (cross-checked against CPython)", "z3 5.1.0", "cvc5 1.0.3"]
    return plan

"""Native replay for C11 against real tables."""


def _table(nr, nc):
    from numbers_parser import Document
    doc = Document(num_rows=max(1, nr), num_cols=max(1, nc))
    return doc, doc.sheets[0].tables[0]


def _small(v, lo, hi, default):
    return v if isinstance(v, int) and lo <= v <= hi else default


def replay_validate(job):
    ins = job["inputs"]
    r, c = ins.get("r"), ins.get("c")
    if not isinstance(r, int) or not isinstance(c, int):
        return {"violated": False, "spurious": True, "detail": "no concrete position in model"}
    from numbers_parser.constants import MAX_ROW_COUNT, MAX_COL_COUNT
    nr0, nc0 = ins.get("nr0"), ins.get("nc0")
    nr = _small(nr0, 1, 6, 3)
    nc = _small(nc0, 1, 6, 3)

    def rescale(v, n0, n, limit):
        # keep the position's relation to the table size and to the limit, on a small table
        if v < 0 or v >= limit or not isinstance(n0, int):
            return v
        if v >= n0:
            return n + min(v - n0, 2)
        return min(v, n - 1)
    return check_validate(rescale(r, nr0, nr, MAX_ROW_COUNT), rescale(c, nc0, nc, MAX_COL_COUNT), nr, nc)


def check_validate(r, c, nr=3, nc=3):
    from numbers_parser.constants import MAX_ROW_COUNT, MAX_COL_COUNT
    doc, t = _table(nr, nc)
    before = (t.num_rows, t.num_cols, [[id(x) for x in row] for row in t.rows()])
    bad = r < 0 or c < 0 or r >= MAX_ROW_COUNT or c >= MAX_COL_COUNT
    if not bad and (r > 2000 or c > 999):
        return {"violated": False, "spurious": True, "detail": "position too large to replay cheaply"}
    try:
        res = t._validate_cell_coords(r, c, "v")
    except IndexError:
        after = (t.num_rows, t.num_cols, [[id(x) for x in row] for row in t.rows()])
        if not bad:
            return {"violated": True, "detail": f"position ({r},{c}) inside the limits was rejected"}
        if after != before:
            return {"violated": True, "detail": f"rejected position ({r},{c}) changed the table {before[:2]} -> {after[:2]}"}
        return {"violated": False, "detail": "rejected and unchanged"}
    if bad:
        return {"violated": True, "detail": f"position ({r},{c}) is negative or beyond the limits but was accepted: "
                f"returned {res[:2]}, table now {t.num_rows}x{t.num_cols}", "row": r, "col": c}
    exp = (max(before[0], r + 1), max(before[1], c + 1))
    if (t.num_rows, t.num_cols) != exp or len(t.rows()) != exp[0] or any(len(x) != exp[1] for x in t.rows()):
        return {"violated": True, "detail": f"table not grown to exactly {exp}: {t.num_rows}x{t.num_cols}"}
    return {"violated": False, "detail": "accepted and grown exactly"}


def replay_cell(job):
    ins = job["inputs"]
    r, c = ins.get("r"), ins.get("c")
    if not isinstance(r, int) or not isinstance(c, int):
        return {"violated": False, "spurious": True, "detail": "no concrete position"}
    doc, t = _table(4, 4)
    inr = 0 <= r < 4 and 0 <= c < 4
    try:
        got = t.cell(r, c)
    except IndexError:
        return {"violated": inr, "detail": f"cell({r},{c}) raised IndexError on a 4x4 table"}
    if not inr or got is not t.rows()[r][c]:
        return {"violated": True, "detail": f"cell({r},{c}) on a 4x4 table returned a cell (row={got.row}, col={got.col})"}
    return {"violated": False, "detail": "ok"}


def expected_iter(nr, nc, a):
    r0 = 0 if a["min_row"] is None else a["min_row"]
    r1 = nr - 1 if a["max_row"] is None else a["max_row"]
    c0 = 0 if a["min_col"] is None else a["min_col"]
    c1 = nc - 1 if a["max_col"] is None else a["max_col"]
    if any(v < 0 for v in (r0, r1, c0, c1)) or r0 >= nr or r1 >= nr or c0 >= nc or c1 >= nc:
        return IndexError, None
    return None, (r0, r1, c0, c1)


def check_iter(fn, nr, nc, a):
    doc, t = _table(nr, nc)
    grid = t.rows()
    err, b = expected_iter(nr, nc, a)
    out = []
    raised = None
    try:
        for tup in getattr(t, fn)(**a):
            out.append(tup)
    except IndexError:
        raised = IndexError
    if err is IndexError:
        if raised is None:
            return {"violated": True, "detail": f"{fn}({a}) on {nr}x{nc}: bound outside the table accepted, yielded {len(out)} tuples"}
        if out:
            return {"violated": True, "detail": f"{fn}({a}) on {nr}x{nc}: IndexError only after yielding {len(out)} tuples"}
        return {"violated": False, "detail": "rejected before yielding"}
    if raised is not None:
        return {"violated": True, "detail": f"{fn}({a}) on {nr}x{nc}: in-range bounds raised IndexError"}
    r0, r1, c0, c1 = b
    if fn == "iter_rows":
        exp = [tuple(grid[r][c] for c in range(c0, c1 + 1)) for r in range(r0, r1 + 1)]
    else:
        exp = [tuple(grid[r][c] for r in range(r0, r1 + 1)) for c in range(c0, c1 + 1)]
    same = len(exp) == len(out) and all(len(x) == len(y) and all(p is q for p, q in zip(x, y)) for x, y in zip(exp, out))
    if not same:
        return {"violated": True, "detail": f"{fn}({a}) on {nr}x{nc}: yielded {len(out)} tuples of sizes "
                f"{sorted(set(len(x) for x in out))}, expected {len(exp)} of size {c1 - c0 + 1 if fn == 'iter_rows' else r1 - r0 + 1}"}
    return {"violated": False, "detail": "rectangle as addressed"}


def replay_iter(job):
    ins = job["inputs"]
    nr = _small(ins.get("nr0"), 1, 6, 3)
    nc = _small(ins.get("nc0"), 1, 6, 3)
    a = {}
    for p, n in (("min_row", nr), ("max_row", nr), ("min_col", nc), ("max_col", nc)):
        v = ins.get(p)
        if isinstance(v, int):
            # keep the model's relation to the bounds but on a small table
            orig_n = ins.get("nr0" if "row" in p else "nc0")
            if isinstance(orig_n, int) and orig_n != n:
                v = v - orig_n + n if v >= orig_n - 1 else min(v, n - 1) if v >= 0 else v
        a[p] = v if isinstance(v, int) or v is None else None
    r = check_iter(job["fn"], nr, nc, a)
    r["args"] = a
    r["table"] = [nr, nc]
    return r


def search_iter(job):
    fn = job["fn"]
    nr, nc = 3, 4
    vals = [None, -1, 0, 1, 2, 3, 4]
    for a0 in vals:
        for a1 in vals:
            for b0 in vals:
                for b1 in vals:
                    a = {"min_row": a0, "max_row": a1, "min_col": b0, "max_col": b1}
                    r = check_iter(fn, nr, nc, a)
                    if r["violated"]:
                        r["job"] = {"custom": "replay_iter", "fn": fn, "inputs": dict(a, nr0=nr, nc0=nc)}
                        return r
    return {"violated": False}


def search_coords(job):
    """positions around the table size and around the limits, as (row, col) and as A1 text, through _validate_cell_coords and cell()"""
    from numbers_parser.constants import MAX_ROW_COUNT, MAX_COL_COUNT
    from numbers_parser import xl_rowcol_to_cell
    for r in (-2, -1, 0, 1, 2, 3, 4, 7, MAX_ROW_COUNT - 1, MAX_ROW_COUNT, MAX_ROW_COUNT + 1):
        for c in (-1, 0, 2, 3, 5, MAX_COL_COUNT - 1, MAX_COL_COUNT, MAX_COL_COUNT + 3):
            res = check_validate(r, c)
            if res.get("violated"):
                return res
    for r in range(-1, 6):
        for c in range(-1, 6):
            res = replay_cell({"inputs": {"r": r, "c": c}})
            if res.get("violated"):
                return res
    # the A1 form addresses the same cell as the (row, col) form
    doc, t = _table(4, 4)
    for r in range(4):
        for c in range(4):
            if t.cell(xl_rowcol_to_cell(r, c)) is not t.rows()[r][c]:
                return {"violated": True, "detail": f"cell({xl_rowcol_to_cell(r, c)!r}) is not the cell at ({r},{c})"}
    for bad in ("E1", "A5", "1A", "A0"):
        try:
            got = t.cell(bad)
        except IndexError:
            continue
        except Exception as e:  # noqa: BLE001
            return {"violated": True, "detail": f"cell({bad!r}) on a 4x4 table raised {type(e).__name__}: {e}"}
        return {"violated": True, "detail": f"cell({bad!r}) on a 4x4 table returned a cell (row={got.row}, col={got.col})"}
    return {"violated": False}


NATIVE = {}

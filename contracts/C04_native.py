"""Native side of C04: an independent encoder/decoder written from the published record layout (the property's
own oracle) and the replay builders.  Runs under /venv/bin/python against the real library."""
import struct

SIZE = {0: 16, 1: 8, 2: 8}
ATTR_BIT = {"_string_id": 3, "_rich_id": 4, "_cell_style_id": 5, "_text_style_id": 6, "_formula_id": 9,
            "_control_id": 10, "_suggest_id": 12, "_num_format_id": 13, "_currency_format_id": 14,
            "_date_format_id": 15, "_duration_format_id": 16, "_text_format_id": 17, "_bool_format_id": 18}


def size(b):
    return SIZE.get(b, 4)


def oracle_record(celltype, flags, sentinel=lambda b: 1000 + b):
    """The record the published layout prescribes: 12-byte header then the fields in ascending bit order."""
    rec = bytearray(12)
    rec[0] = 5
    rec[1] = celltype
    rec[8:12] = struct.pack("<i", flags)
    offs = {}
    for b in range(21):
        if flags >> b & 1:
            offs[b] = len(rec)
            if b == 0:
                rec += bytearray(16)  # decimal128 zero mantissa; exponent bias irrelevant here
            elif b in (1, 2):
                rec += struct.pack("<d", float(100 + b))
            else:
                rec += struct.pack("<i", sentinel(b))
    return rec, offs


def oracle_decode(rec):
    flags = struct.unpack("<i", rec[8:12])[0]
    off = 12
    out = {}
    for b in range(21):
        if flags >> b & 1:
            out[b] = (off, bytes(rec[off:off + size(b)]))
            off += size(b)
    return flags, out, off


class _StubMerge:
    def get(self, k):
        return None


class _StubModel:
    def table_string(self, t, k):
        return "s"

    def table_rich_text(self, t, k):
        return {"text": "t", "bullets": [], "hyperlinks": [], "bulleted": False}

    def merge_cells(self, t):
        return _StubMerge()


def replay_decoder(job):
    from numbers_parser.cell import Cell
    ins = job.get("inputs", {})
    flags, celltype, version = ins.get("ghost_flags"), ins.get("ghost_celltype"), ins.get("ghost_version", 5)
    if not isinstance(flags, int) or not isinstance(celltype, int):
        return {"violated": False, "spurious": True, "detail": f"model gives no concrete flags/celltype: {ins}"}
    return check_decode(flags, celltype)


def check_decode(flags, celltype):
    from numbers_parser.cell import Cell
    rec, offs = oracle_record(celltype, flags)
    try:
        cell = Cell._from_storage(0, 0, 0, bytearray(rec), _StubModel())
    except Exception as e:  # noqa: BLE001
        return {"violated": True, "detail": f"decoding a well-formed record raised {type(e).__name__}: {e}",
                "flags": hex(flags), "celltype": celltype}
    bad = {}
    for a, b in ATTR_BIT.items():
        exp = 1000 + b if flags >> b & 1 else None
        got = getattr(cell, a)
        if got != exp:
            bad[a] = {"expected": exp, "got": got}
    if bad:
        return {"violated": True, "detail": "attributes read from the wrong slot", "flags": hex(flags),
                "celltype": celltype, "wrong": bad}
    return {"violated": False, "detail": "decoder agrees with the layout oracle", "flags": hex(flags)}


def check_payloads():
    """the value a decoded record carries: dates (incl. fractional seconds before and after the epoch), durations, booleans and
    numbers (decimal128 built from the documented bit layout, independently of the library's writer)"""
    from datetime import datetime, timedelta
    from fractions import Fraction
    from numbers_parser.cell import Cell
    from numbers_parser.generated import TSTArchives_pb2 as T
    epoch = datetime(2001, 1, 1)

    def rec(celltype, flags, payload):
        r = bytearray(12)
        r[0], r[1] = 5, celltype
        r[8:12] = struct.pack("<i", flags)
        return r + payload
    for s in (0.0, 1.0, 86399.5, 0.25, -0.25, -1.5, -86400.75, 675000000.125, -978307199.5, 12345.000001, -12345.000001):
        cell = Cell._from_storage(0, 0, 0, rec(T.dateCellType, 4, struct.pack("<d", s)), _StubModel())
        want = epoch + timedelta(seconds=s)
        if cell.value != want:
            return {"violated": True, "detail": f"a date record carrying {s!r} seconds from the epoch decodes to {cell.value!r}; the stored instant is {want!r}"}
    for s in (0.0, 90.25, -1.5, 604800.0, 1e-6):
        cell = Cell._from_storage(0, 0, 0, rec(T.durationCellType, 2, struct.pack("<d", s)), _StubModel())
        if cell.value != timedelta(seconds=s):
            return {"violated": True, "detail": f"a duration record carrying {s!r} s decodes to {cell.value!r}"}
    for d, want in ((1.0, True), (0.0, False), (2.0, True)):
        cell = Cell._from_storage(0, 0, 0, rec(T.boolCellType, 2, struct.pack("<d", d)), _StubModel())
        if cell.value is not want:
            return {"violated": True, "detail": f"a boolean record carrying {d!r} decodes to {cell.value!r}"}
    for m, e, neg in ((15, -1, False), (3, 0, True), (123456789012345, -5, False), (1, 10, False), (0, 0, False), (30000000000000004, -17, False)):
        raw = bytearray(m.to_bytes(14, "little") + bytes(2))
        biased = e + 0x1820
        raw[14] |= (biased & 0x7F) << 1
        raw[15] = (biased >> 7) | (0x80 if neg else 0)
        cell = Cell._from_storage(0, 0, 0, rec(T.numberCellType, 1, bytes(raw)), _StubModel())
        want = float(Fraction(m) * Fraction(10) ** e * (-1 if neg else 1))
        if cell.value != want:
            return {"violated": True, "detail": f"a number record carrying the decimal {'-' if neg else ''}{m}e{e} decodes to {cell.value!r}; its value is {want!r}"}
    return {"violated": False}


def search_decoder(job):
    """Bounded native search used when a counter-model does not replay: all single and pairwise flag-bit sets."""
    try:
        r = check_payloads()
    except Exception as e:  # noqa: BLE001
        r = {"violated": True, "detail": f"decoding a well-formed record raised {type(e).__name__}: {e}"}
    if r["violated"]:
        r["job"] = {"custom": "replay_payloads"}
        return r
    types = job.get("types", [2])
    for t in types:
        for i in range(21):
            for j in range(i, 21):
                fl = (1 << i) | (1 << j)
                if t in (6, 7) and not fl & 2:
                    fl |= 2
                if t == 5 and not fl & 4:
                    fl |= 4
                r = check_decode(fl, t)
                if r["violated"]:
                    r["job"] = {"custom": "replay_decoder", "inputs": {"ghost_flags": fl, "ghost_celltype": t}}
                    return r
    return {"violated": False}


def make_cell(kind, attrs):
    from datetime import datetime, timedelta
    from numbers_parser import Document
    from numbers_parser.cell import RichTextCell, EmptyCell
    from numbers_parser.constants import CellType
    doc = Document()
    table = doc.sheets[0].tables[0]
    val = {"number": 1.5, "currency": 2.5, "text": "abc", "date": datetime(2020, 1, 2, 3, 4, 5), "bool": True,
           "duration": timedelta(seconds=90), "empty": None, "richtext": "rt"}[kind]
    if kind == "empty":
        cell = table.cell(0, 0)
        if not isinstance(cell, EmptyCell):
            cell = EmptyCell(0, 0)
    elif kind == "richtext":
        cell = RichTextCell(0, 0, {"text": "rt", "bullets": [], "hyperlinks": [], "bulleted": False})
    else:
        table.write(0, 0, val)
        cell = table.cell(0, 0)
    cell._model = doc._model
    cell._table_id = table._table_id
    if kind == "currency":
        cell._type = CellType.CURRENCY
    for a in ATTR_BIT:
        if a != "_string_id":
            setattr(cell, a, attrs.get(a))
    cell._style = None
    if "__flags" in attrs:   # the flags word of the record the cell was decoded from (a loaded cell carries it)
        cell._flags = attrs["__flags"]
    return cell


def check_encode(kind, attrs):
    cell = make_cell(kind, attrs)
    try:
        rec = cell._to_buffer()
    except Exception as e:  # noqa: BLE001
        return {"violated": True, "detail": f"_to_buffer raised {type(e).__name__}: {e}", "kind": kind, "attrs": attrs}
    if rec is None:
        return {"violated": True, "detail": "_to_buffer returned None for a storable kind", "kind": kind}
    flags, fields, end = oracle_decode(rec)
    bad = {}
    from numbers_parser.generated import TSTArchives_pb2 as T
    exp_type = {"number": T.numberCellType, "currency": 10, "text": T.textCellType, "date": T.dateCellType,
                "bool": T.boolCellType, "duration": T.durationCellType, "empty": T.emptyCellValueType,
                "richtext": T.automaticCellType}[kind]
    if rec[0] != 5 or rec[1] != exp_type:
        bad["header"] = {"expected (version,type)": [5, exp_type], "got": [rec[0], rec[1]]}
    if end != len(rec):
        bad["length"] = {"record_len(flags)": end, "len(record)": len(rec)}
    for a, b in ATTR_BIT.items():
        if a == "_string_id":
            continue
        exp = attrs.get(a)
        got = struct.unpack("<i", fields[b][1])[0] if b in fields and len(fields[b][1]) == 4 else None
        if got != exp:
            bad[a] = {"expected": exp, "decoded_from_layout_slot": got}
    if bad:
        return {"violated": True, "detail": "encoded record disagrees with the published layout", "kind": kind,
                "attrs": attrs, "flags": hex(flags), "wrong": bad}
    return {"violated": False, "detail": "encoder agrees with the layout oracle"}


def replay_encoder(job):
    ins = job.get("inputs", {})
    attrs = {a: ins.get("in" + a) for a in ATTR_BIT if a != "_string_id"}
    if any(isinstance(v, dict) for v in attrs.values()):
        return {"violated": False, "spurious": True, "detail": f"model incomplete: {attrs}"}
    return check_encode(job["kind"], attrs)


def search_encoder(job):
    """the record written for a cell of this kind: published layout for a spread of optional attributes, and the payload word at
    offset 12 carries the cell's value exactly (date-times with fractional seconds, time zones; fractional durations)"""
    import itertools
    from datetime import datetime, timedelta, timezone
    kind = job["kind"]
    names = [a for a in ATTR_BIT if a != "_string_id"]
    for n_set in (0, 1, len(names)):
        for combo in itertools.islice(itertools.combinations(names, n_set), 12):
            attrs = {a: (7 + i if a in combo else None) for i, a in enumerate(names)}
            r = check_encode(kind, attrs)
            if r["violated"]:
                r["job"] = {"custom": "replay_encoder", "kind": kind, "inputs": {"in" + a: v for a, v in attrs.items()}}
                return r
    # cells that were decoded from a record carrying every flag bit, uninterpreted fields included: the new record is built from the
    # attributes alone
    for stale in (0x1FFFFF, 0x180980, 0x80):
        attrs = {a: (7 + i if i % 2 else None) for i, a in enumerate(names)}
        attrs["__flags"] = stale
        r = check_encode(kind, attrs)
        if r["violated"]:
            r["detail"] += f" (cell decoded earlier from a record with flags {stale:#x})"
            return r
    epoch = datetime(2001, 1, 1)
    values = {"date": [datetime(2022, 5, 30, 8, 22, 11, 500000), datetime(2001, 1, 1, 0, 0, 0, 1), datetime(1999, 12, 31, 23, 59, 59, 999999),
                       datetime(2020, 2, 29, 12, 0, 0), datetime(1970, 1, 1), datetime(2024, 7, 1, 1, 2, 3, 250000, tzinfo=timezone(timedelta(hours=5, minutes=30)))],
              "duration": [timedelta(seconds=90.25), timedelta(microseconds=1), timedelta(days=3, seconds=7, microseconds=500000), timedelta(seconds=-1.5), timedelta(0)],
              "bool": [True, False],
              "number": [1.5, 0.1 + 0.2, 1 / 3, 123456789.12345679, 1234567890123456.0, 1.25e-7, -2.5e10, 0.0, 9007199254740993.0],
              "currency": [2.5, 0.30000000000000004, 19.99, -1234.5678901234567]}.get(kind, [])
    for v in values:
        if kind in ("number", "currency"):
            from fractions import Fraction
            cell = make_cell(kind, {})
            cell._value = v
            try:
                rec = cell._to_buffer()
            except Exception as e:  # noqa: BLE001
                return {"violated": True, "detail": f"_to_buffer of a {kind} cell holding {v!r} raised {type(e).__name__}: {e}"}
            b = rec[12:28]
            exp = (((b[15] & 0x7F) << 7) | (b[14] >> 1)) - 0x1820
            m = int.from_bytes(bytes(b[:14]), "little") + ((b[14] & 1) << 112)
            got = float(Fraction(m) * Fraction(10) ** exp * (-1 if b[15] & 0x80 else 1))
            if got != v:
                return {"violated": True, "detail": f"the record of a {kind} cell holding {v!r} carries the decimal {m}e{exp} = {got!r} in its value word"}
            continue
        cell = make_cell(kind, {})
        cell._value = v
        try:
            rec = cell._to_buffer()
        except Exception as e:  # noqa: BLE001
            return {"violated": True, "detail": f"_to_buffer of a {kind} cell holding {v!r} raised {type(e).__name__}: {e}"}
        got = struct.unpack("<d", rec[12:20])[0]
        if kind == "date":
            want = (v - (epoch if v.tzinfo is None else epoch.astimezone(v.tzinfo))).total_seconds()
        elif kind == "duration":
            want = v.total_seconds()
        else:
            want = 1.0 if v else 0.0
        if got != want:
            return {"violated": True, "detail": f"the record of a {kind} cell holding {v!r} carries {got!r} in its value word; the value is {want!r}"}
    return {"violated": False}


def replay_payloads(job):
    return check_payloads()


NATIVE = {}

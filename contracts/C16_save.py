"""C16 / C03 - Document.save under contract: every table of every sheet that is not a pivot table is handed to recalculate_table_data exactly
once, with its own id and its own grid, in order, before the model is saved once (with the caller's package flag); a pivot table is only warned
about.  (What recalculate_table_data then writes - sizes, tiles, merge map - is its own contracts' business.)"""
import z3

from pyvc.ctx import Contract, LoopSpec
from pyvc.sym import Custom, PObj, SBool, SInt, Unsupported, fresh_name, wrap, as_int_term, Int, Bool


def T(v):
    return as_int_term(v)


def add(plan, ctx, srch):
    NTAB = z3.Function("C16_tables_in_sheet", Int, Int)
    TID = z3.Function("C16_table_id", Int, Int, Int)
    PIVOT = z3.Function("C16_is_pivot", Int, Bool)

    class Tables(Custom):
        def __init__(self, s):
            self.s = s

        def length(self, ex):
            return NTAB(self.s)

        def getitem(self, ex, idx, line):
            return PObj("TableS", {"_table_id": wrap(TID(self.s, T(idx))), "_data": PObj("GridOf", {"s": wrap(self.s), "t": wrap(T(idx))})})

    class Sheets(Custom):
        def __init__(self, n):
            self.n = n

        def length(self, ex):
            return self.n

        def getitem(self, ex, idx, line):
            ex.assume(NTAB(T(idx)) >= 0)
            return PObj("SheetS", {"tables": Tables(T(idx))})

    def entry(ex):
        n = z3.Int(fresh_name("n_sheets"))
        ex.assume(n >= 0)
        model = PObj("ModelS", {"g_recalc": wrap(z3.IntVal(0)), "g_last": None, "g_saved": []})
        return {"self": PObj("DocumentS", {"sheets": Sheets(n), "_model": model}), "filename": ex.fresh("str", "filename"), "package": ex.fresh("bool", "package"),
                "g_model": model, "g_n": wrap(n)}
    mm = ctx.method_models = getattr(ctx, "method_models", {})
    mm[("ModelS", "is_a_pivot_table")] = lambda ex, o, a, k, l: SBool(PIVOT(T(a[0])))
    mm[("ModelS", "table_name")] = lambda ex, o, a, k, l: ex.fresh("str", "table_name")

    def recalc(ex, o, a, k, l):
        o.fields["g_last"] = (a[0], a[1])
        o.fields["g_recalc"] = wrap(T(o.fields["g_recalc"]) + 1)
    mm[("ModelS", "recalculate_table_data")] = recalc
    mm[("ModelS", "save")] = lambda ex, o, a, k, l: o.fields["g_saved"].append((a, T(o.fields["g_recalc"])))
    plan.callee(Contract("document:warn", model=lambda ex, a, k, l: None, assumed=True, note="warnings.warn: no effect on the document"))

    def havoc(tag):
        def hv(ex, env):
            m = ex.entry_env["g_model"].fields
            m["g_recalc"] = ex.fresh("int", "recalculated")
            m["g_last"] = None
            ex.entry_env[f"g_c_{tag}"] = m["g_recalc"]
        return hv

    def inner_step(ex, env):
        m = ex.entry_env["g_model"].fields
        s, t = T(env["_s"]), T(env["_t"])
        tid = TID(s, t)
        before = T(ex.entry_env["g_c_inner"])
        last = m["g_last"]
        if last is None:   # no table was recalculated in this iteration: only right for a pivot table
            return z3.And(PIVOT(tid), T(m["g_recalc"]) == before)
        own = isinstance(last[1], PObj) and last[1].cls == "GridOf"
        return z3.And(z3.Not(PIVOT(tid)), T(m["g_recalc"]) == before + 1, T(last[0]) == tid, z3.BoolVal(own),
                      *([T(last[1].fields["s"]) == s, T(last[1].fields["t"]) == t] if own else []))

    def outer_step(ex, env):
        # the inner loop ran over every table of the sheet (a `break` leaves its index short of the length)
        return T(env["_t"]) == NTAB(T(env["_s"])) if "_t" in env else NTAB(T(env["_s"])) == 0

    def post(ex, env):
        saved = env["g_model"].fields["g_saved"]
        if len(saved) != 1:
            return z3.BoolVal(False)
        (args, _), = saved
        ok = len(args) == 2 and args[1] is env["package"]
        return z3.BoolVal(bool(ok))
    post.__name__ = "the model is saved exactly once, after the loops, with the caller's package flag"
    c = Contract("document:Document.save", entry=entry, ensures=[post], safety="fork", search=srch,
                 opaque={"Path(filename)": lambda ex, env: env["filename"]},
                 loops={1: LoopSpec([lambda ex, env: z3.BoolVal(True)], index="_s", havoc=[havoc("outer")], steps=[outer_step]),
                        2: LoopSpec([lambda ex, env: z3.BoolVal(True)], index="_t", havoc=[havoc("inner")], steps=[inner_step])})
    plan.target(c)
    return c

"""C06 - What is read does not depend on meaning-preserving choices of file layout.

Deductive kernels:
  * DataLists (string/format/style/formula lookup lists): after add_table, for EVERY entry of the list - in any
    order - a lookup by its key finds an entry carrying that key (index invariant IDX); lookup_key/lookup_value
    keep it; table_string never degrades to "" for a key that is in the list.
  * get_storage_buffers_for_row: cell c's bytes are buffer[scale*off[c] : scale*next present offset or end],
    None for -1, for both offset encodings (scale 1 / 4) - so byte and 4-byte-unit offsets read the same cells.
Container forms (zip order/method, package folder, chunk boundaries) are C05's kernels + the bounded stand-in.
"""
import os

import z3

from pyvc.ctx import VerifCtx, Contract, LoopSpec
from pyvc.plan import Plan, Lemma, BoundedStandIn
from pyvc.sym import (Custom, Int, Str, Bool, PObj, PDict, PList, SList, SRef, SInt, SStr, SBool, SOpt, Unsupported, fresh_name,
                      lift, wrap, as_int_term, is_intlike)
from pyvc.bytemem import ByteMem, MemView


def T(v):
    return as_int_term(v) if is_intlike(v) else lift(v)


def build():
    ctx = VerifCtx()
    plan = Plan("C06", ctx)
    plan.native_module = os.path.join(os.path.dirname(__file__), "C06_native.py")
    ctx.class_fields["ListEntry"] = {"key": "int", "string": "str", "refcount": "int"}

    def K(ex):
        return ex.heap_array("ListEntry", "key")

    def S(ex):
        return ex.heap_array("ListEntry", "string")

    # ------------------------------------------------------------------ ghost view of one table's datalist
    def mk_datalists(ex, indexed):
        ln = z3.Int(fresh_name("n_entries"))
        ex.assume(ln >= 0)
        entries = SList(ln, z3.Const(fresh_name("entries_at"), z3.ArraySort(Int, Int)), "ref:ListEntry")
        datalist = PObj("TableDataList", {"entries": entries, "nextListID": ex.fresh("int", "nextListID")})
        table_id = ex.fresh("int", "table_id")
        dl = PObj("DataLists", {"_model": PObj("_NumbersModel", {}), "_datalists": PDict(), "_value_attr": "string",
                                "_datalist_name": "stringTable"})
        env = {"self": dl, "table_id": table_id, "g_datalist": datalist, "g_n": SInt(ln), "g_at": entries.at}
        if indexed:
            inner = PDict({"by_key": sym_dict(Int, Int, "ref:ListEntry"), "by_value": sym_dict(Str, Int, "int"),
                           "key_index": sym_dict(Int, Int, "int"), "datalist": datalist, "id": ex.fresh("int", "dlid"),
                           "next_key": ex.fresh("int", "next_key")})
            dl.fields["_datalists"].symtok = (table_id, inner)
            ex.assume(IDX(ex, inner, entries))
        return env

    def sym_dict(ksort, vsort, vkind):
        d = PDict()
        d.sym = {"dom": z3.Const(fresh_name("dom"), z3.ArraySort(ksort, Bool)),
                 "val": z3.Const(fresh_name("val"), z3.ArraySort(ksort, vsort)), "vkind": vkind}
        return d

    def inner_of(env):
        tok = env["self"].fields["_datalists"].symtok
        return tok[1]

    def IDX_upto(ex, inner, entries, upto):
        """index invariant for the entries [0, upto)"""
        bk, bv, ki = inner.d["by_key"].sym, inner.d["by_value"].sym, inner.d["key_index"].sym
        if bk is None or bv is None or ki is None:
            return z3.BoolVal(upto is None) if False else (upto <= 0)
        i, j = z3.Int(fresh_name("ix")), z3.Int(fresh_name("jx"))
        e = z3.Select(entries.at, i)
        k = z3.Select(K(ex), e)
        s = z3.Select(S(ex), e)
        idx = z3.Select(ki["val"], k)
        body = z3.And(
            z3.Select(bk["dom"], k), z3.Select(K(ex), z3.Select(bk["val"], k)) == k,  # by_key[k] carries k
            z3.Select(bk["val"], k) == z3.Select(entries.at, idx),  # ... and is the list entry key_index[k] points at
            z3.Select(ki["dom"], k), idx >= 0, idx < entries.ln, z3.Select(K(ex), z3.Select(entries.at, idx)) == k,
            z3.Select(bv["dom"], s),
            z3.Exists([j], z3.And(0 <= j, j < entries.ln, z3.Select(K(ex), z3.Select(entries.at, j)) == z3.Select(bv["val"], s),
                                  z3.Select(S(ex), z3.Select(entries.at, j)) == s)),
            T(inner.d["next_key"]) > k if "next_key" in inner.d else z3.BoolVal(True))
        sv = z3.String(fresh_name("sv"))
        kk = z3.Select(bv["val"], sv)
        ix = z3.Select(ki["val"], kk)
        # converse: by_value only knows strings of indexed entries
        conv = z3.ForAll([sv], z3.Implies(z3.Select(bv["dom"], sv), z3.And(
            z3.Select(ki["dom"], kk), ix >= 0, ix < upto, z3.Select(K(ex), z3.Select(entries.at, ix)) == kk,
            z3.Select(S(ex), z3.Select(entries.at, ix)) == sv)))
        return z3.And(z3.ForAll([i], z3.Implies(z3.And(0 <= i, i < upto), body)), conv)

    def IDX(ex, inner, entries):
        return IDX_upto(ex, inner, entries, entries.ln)

    # ------------------------------------------------------------------ add_table
    def add_entry(ex):
        env = mk_datalists(ex, indexed=False)
        entries = env["g_datalist"].fields["entries"]
        i, j = z3.Int(fresh_name("ua")), z3.Int(fresh_name("ub"))
        ex.assume(z3.ForAll([i, j], z3.Implies(z3.And(0 <= i, i < j, j < entries.ln),
                                               z3.Select(K(ex), z3.Select(entries.at, i)) != z3.Select(K(ex), z3.Select(entries.at, j)))))
        return env

    def add_post(ex, env):
        inner = inner_of(env)
        return z3.And(IDX(ex, inner, env["g_datalist"].fields["entries"]), T(inner.d["next_key"]) >= 1)
    add_post.__name__ = ("IDX: for every entry e of the list (any order): by_key[e.key] carries e.key, key_index[e.key] points at "
                         "an entry carrying e.key, by_value[e.string] is the key of an entry with that string, next_key > e.key")

    def add_inv(ex, env):
        inner = inner_of(env)
        entries = env["g_datalist"].fields["entries"]
        i = T(env["_i"])
        j = z3.Int(fresh_name("mj"))
        mk = T(env["max_key"])
        mx = z3.And(mk >= 0, z3.ForAll([j], z3.Implies(z3.And(0 <= j, j < i), z3.Select(K(ex), z3.Select(entries.at, j)) <= mk)))
        inner2 = PDict(dict(inner.d))
        inner2.d.pop("next_key", None)
        return z3.And(IDX_upto(ex, inner2, entries, i), mx)

    def havoc_maps(ex, env):
        inner = inner_of(env)
        inner.d["by_key"] = sym_dict(Int, Int, "ref:ListEntry")
        inner.d["by_value"] = sym_dict(Str, Int, "int")
        inner.d["key_index"] = sym_dict(Int, Int, "int")

    add_opaque = {
        "self._model.objects[table_id].base_data_store": "int",
        "getattr(base_data_store, self._datalist_name).identifier": "int",
        "self._model.objects[datalist_id]": lambda ex, env: ex.entry_env["g_datalist"],
    }
    plan.target(Contract(
        "model:DataLists.add_table", entry=add_entry, ensures=[add_post], opaque=add_opaque, safety="fork",
        inline={"model:DataLists.value_key"},
        loops={1: LoopSpec([add_inv], index="_i", havoc=[havoc_maps])},
        replay=lambda plan_, c, inputs, ob: {"custom": "replay_add_table", "native_module": plan_.native_module, "inputs": inputs},
        search=lambda plan_, c: {"custom": "search_add_table", "native_module": plan_.native_module}))

    # ------------------------------------------------------------------ lookup_value / lookup_key / table_string
    def uniq_keys(ex, entries):
        i, j = z3.Int(fresh_name("ua")), z3.Int(fresh_name("ub"))
        return z3.ForAll([i, j], z3.Implies(z3.And(0 <= i, i < j, j < entries.ln),
                                            z3.Select(K(ex), z3.Select(entries.at, i)) != z3.Select(K(ex), z3.Select(entries.at, j))))

    def key_in_list(ex, entries, k):
        i = z3.Int(fresh_name("ki"))
        return z3.Exists([i], z3.And(0 <= i, i < entries.ln, z3.Select(K(ex), z3.Select(entries.at, i)) == k))

    def add_table_effects(ex, cenv):
        # call-site view of the (memoised) add_table: afterwards the table's index satisfies IDX over the current list
        dl = cenv["self"]
        datalist = ex.entry_env["g_datalist"]
        inner = PDict({"by_key": sym_dict(Int, Int, "ref:ListEntry"), "by_value": sym_dict(Str, Int, "int"),
                       "key_index": sym_dict(Int, Int, "int"), "datalist": datalist, "id": ex.fresh("int", "dlid"),
                       "next_key": ex.fresh("int", "next_key")})
        tok = dl.fields["_datalists"].symtok
        if tok is not None and getattr(ex, "idx_established", False):
            return  # memoised: nothing changes
        dl.fields["_datalists"].symtok = (cenv["table_id"], inner)
        ex.assume(IDX(ex, inner, datalist.fields["entries"]))
        ex.idx_established = True

    def witness1(ex, env):
        """a one-entry list (key 5, string 'x') with its index: narrows the precondition to a concrete instance"""
        inner = inner_of(env) if "self" in env and env["self"].cls == "DataLists" else env["g_dl"].fields["_datalists"].symtok[1]
        at = env["g_at"]
        e0 = z3.Select(at, 0)
        bk, bv, ki = inner.d["by_key"].sym, inner.d["by_value"].sym, inner.d["key_index"].sym
        return z3.And(env["g_n"].t == 1, z3.Select(K(ex), e0) == 5, z3.Select(S(ex), e0) == z3.StringVal("x"),
                      bk["dom"] == z3.Store(z3.K(Int, z3.BoolVal(False)), 5, z3.BoolVal(True)), z3.Select(bk["val"], 5) == e0,
                      ki["dom"] == z3.Store(z3.K(Int, z3.BoolVal(False)), 5, z3.BoolVal(True)), z3.Select(ki["val"], 5) == 0,
                      bv["dom"] == z3.Store(z3.K(Str, z3.BoolVal(False)), z3.StringVal("x"), z3.BoolVal(True)),
                      z3.Select(bv["val"], z3.StringVal("x")) == 5, T(env["key"]) == 5)

    def lv_entry(ex):
        env = mk_datalists(ex, indexed=True)
        ex.idx_established = True
        env["key"] = ex.fresh("int", "key")
        ex.assume(uniq_keys(ex, env["g_datalist"].fields["entries"]))
        return env

    def lv_pre(ex, env):
        return key_in_list(ex, env["g_datalist"].fields["entries"], T(env["key"]))
    lv_pre.__name__ = "some entry of the list carries key"

    def lv_post(ex, env):
        r = lift(env["result"])
        entries = env["g_datalist"].fields["entries"]
        i = z3.Int(fresh_name("ri"))
        return z3.And(z3.Select(K(ex), r) == T(env["key"]),
                      z3.Exists([i], z3.And(0 <= i, i < entries.ln, z3.Select(entries.at, i) == r)))
    lv_post.__name__ = "returns the list entry that carries exactly that key"
    ctx.add(Contract("model:DataLists.add_table", label="call", effects=add_table_effects, when=lambda args: True))
    plan.target(Contract("model:DataLists.lookup_value", entry=lv_entry, requires=[lv_pre], ensures=[lv_post], safety="fork",
                         use_labels={"model:DataLists.add_table": "call"}, result="ref:ListEntry",
                         cover_hints=[lambda ex, env: witness1(ex, env)],
                         search=lambda plan_, c: {"custom": "search_add_table", "native_module": plan_.native_module}))

    def lk_entry(ex):
        env = mk_datalists(ex, indexed=True)
        ex.idx_established = True
        env["value"] = ex.fresh("str", "value")
        entries = env["g_datalist"].fields["entries"]
        ex.assume(uniq_keys(ex, entries))
        env["g_K0"], env["g_S0"] = K(ex), S(ex)
        env["g_n0"] = SInt(entries.ln)
        env["g_at0"] = entries.at
        return env

    def new_entry(ex, env):
        attrs = env["attrs"]
        r = z3.Int(fresh_name("new_entry"))
        entries = ex.entry_env["g_datalist"].fields["entries"]
        i = z3.Int(fresh_name("fi"))
        ex.assume(z3.ForAll([i], z3.Implies(z3.And(0 <= i, i < entries.ln), z3.Select(entries.at, i) != r)))
        ref = SRef(r, "ListEntry")
        for f in ("key", "string", "refcount"):
            if f not in attrs.d:
                raise Unsupported(f"ListEntry(**attrs) without {f}")
            ex.heap_store(ref, f, attrs.d[f])
        if set(attrs.d) != {"key", "string", "refcount"}:
            raise Unsupported(f"ListEntry(**attrs) with fields {sorted(attrs.d)}")
        return ref

    def lk_post(ex, env):
        inner = inner_of(env)
        entries = env["g_datalist"].fields["entries"]
        k = T(env["result"])
        j = z3.Int(fresh_name("lj"))
        carries = z3.Exists([j], z3.And(0 <= j, j < entries.ln, z3.Select(K(ex), z3.Select(entries.at, j)) == k,
                                        z3.Select(S(ex), z3.Select(entries.at, j)) == lift(env["value"])))
        bk = inner.d["by_key"].sym
        round_trip = z3.And(z3.Select(bk["dom"], k), z3.Select(S(ex), z3.Select(bk["val"], k)) == lift(env["value"]))
        i = z3.Int(fresh_name("li"))
        kept = z3.ForAll([i], z3.Implies(z3.And(0 <= i, i < env["g_n0"].t), z3.And(
            z3.Select(entries.at, i) == z3.Select(env["g_at0"], i),
            z3.Select(K(ex), z3.Select(entries.at, i)) == z3.Select(env["g_K0"], z3.Select(env["g_at0"], i)),
            z3.Select(S(ex), z3.Select(entries.at, i)) == z3.Select(env["g_S0"], z3.Select(env["g_at0"], i)))))
        return z3.And(carries, round_trip, IDX(ex, inner, entries), uniq_keys(ex, entries), kept,
                      entries.ln >= env["g_n0"].t, entries.ln <= env["g_n0"].t + 1)
    lk_post.__name__ = ("returns a key k such that an entry carries (k, value) and lookup_value(k).string == value; IDX and key "
                        "uniqueness preserved; existing entries keep key and string; at most one entry appended")
    plan.target(Contract("model:DataLists.lookup_key", entry=lk_entry, ensures=[lk_post], safety="fork",
                         use_labels={"model:DataLists.add_table": "call"}, inline={"model:DataLists.value_key"},
                         opaque={"TSTArchives.TableDataList.ListEntry(**attrs)": new_entry}, result="int",
                         cover_hints=[lambda ex, env: env["g_n"].t == 0],
                         search=lambda plan_, c: {"custom": "search_add_table", "native_module": plan_.native_module}))

    # ------------------------------------------------------------------ get_storage_buffers_for_row
    class ViewList(Custom):
        """the local `data` list: per column None or the slice (start, end) of the row buffer"""

        def __init__(self, ln, isnone, lo, hi):
            self.ln, self.isnone, self.lo, self.hi = ln, isnone, lo, hi

        @staticmethod
        def fresh(tag="data"):
            A = z3.ArraySort
            return ViewList(z3.Int(fresh_name(tag + "_len")), z3.Const(fresh_name(tag + "_none"), A(Int, Bool)),
                            z3.Const(fresh_name(tag + "_lo"), A(Int, Int)), z3.Const(fresh_name(tag + "_hi"), A(Int, Int)))

        def length(self, ex):
            return self.ln

        def method(self, ex, name, args, kwargs, line):
            if name != "append":
                raise Unsupported(f"data.{name}")
            v = args[0]
            if v is None:
                self.isnone = z3.Store(self.isnone, self.ln, z3.BoolVal(True))
            elif isinstance(v, MemView):
                self.isnone = z3.Store(self.isnone, self.ln, z3.BoolVal(False))
                self.lo = z3.Store(self.lo, self.ln, v.lo)
                self.hi = z3.Store(self.hi, self.ln, v.hi)
            else:
                raise Unsupported(f"data.append({type(v).__name__})")
            self.ln = z3.simplify(self.ln + 1)

    def gsb_entry(ex):
        buf = ByteMem(z3.Int(fresh_name("buflen")), tag="rowbuf")
        ex.assume(buf.ln >= 0)
        n = z3.Int(fresh_name("n_off"))
        ex.assume(n >= 0)
        offs = SList(n, z3.Const(fresh_name("off_at"), z3.ArraySort(Int, Int)), "int")
        i = z3.Int(fresh_name("oi"))
        ex.assume(z3.ForAll([i], z3.Implies(z3.And(0 <= i, i < n), z3.And(z3.Select(offs.at, i) >= -32768, z3.Select(offs.at, i) < 32768))))
        env = {"storage_buffer": buf, "offsets": offs, "num_cols": ex.fresh("nat", "num_cols"),
               "has_wide_offsets": ex.fresh("bool", "wide"), "g_off": offs.at, "g_n": SInt(n), "g_buflen": SInt(buf.ln)}
        ex.assume(nxt_axiom(env))  # definitional: such a function exists and is unique for every offsets array
        return env

    def off_s(env, k):
        o = z3.Select(env["g_off"], k)
        return z3.If(lift(env["has_wide_offsets"]), 4 * o, o)

    NXT = z3.Function("next_present", Int, Int)  # spec function: least j > k with a non-negative offset, else n

    def nxt_axiom(env):
        n = env["g_n"].t
        k, m = z3.Int(fresh_name("ak")), z3.Int(fresh_name("am"))
        return z3.ForAll([k], z3.Implies(z3.And(0 <= k, k < n), z3.And(
            k < NXT(k), NXT(k) <= n, z3.Implies(NXT(k) < n, off_s(env, NXT(k)) >= 0),
            z3.ForAll([m], z3.Implies(z3.And(k < m, m < NXT(k)), off_s(env, m) < 0)))))

    def cell_spec(env, data, k):
        n, bl = env["g_n"].t, env["g_buflen"].t
        return z3.If(off_s(env, k) < 0, z3.Select(data.isnone, k),
                     z3.And(z3.Not(z3.Select(data.isnone, k)), z3.Select(data.lo, k) == off_s(env, k),
                            z3.Select(data.hi, k) == z3.If(NXT(k) < n, off_s(env, NXT(k)), bl)))

    def gsb_post(ex, env):
        data = env["result"]
        n, nc = env["g_n"].t, T(env["num_cols"])
        k = z3.Int(fresh_name("pk"))
        return z3.And(data.ln == z3.If(nc < n, nc, n),
                      z3.ForAll([k], z3.Implies(z3.And(0 <= k, k < data.ln), cell_spec(env, data, k))))
    gsb_post.__name__ = ("one entry per column up to min(num_cols, len(offsets)); entry c is None iff offset[c] < 0, else the "
                         "slice [scale*offset[c] : scale*next non-negative offset, or end of buffer] with scale 4 iff wide")

    def gsb_outer0(ex, env):
        return z3.And(env["data"].ln == T(env["_i"]), T(env["_i"]) <= env["g_n"].t)

    def gsb_outer(ex, env):
        data = env["data"]
        i = T(env["_i"])
        k = z3.Int(fresh_name("ok"))
        return z3.ForAll([k], z3.Implies(z3.And(0 <= k, k < i), cell_spec(env, data, k)))

    def gsb_step_new(ex, env):
        return cell_spec(env, env["data"], T(env["_i"]))

    def gsb_inner(ex, env):
        m = z3.Int(fresh_name("im"))
        col = T(env["col"])
        jj = T(env["_j"])
        e = env["end"]
        isnone = e is None or (isinstance(e, SOpt) and e.isnone)
        return z3.And(z3.BoolVal(True) if e is None else (e.isnone if isinstance(e, SOpt) else z3.BoolVal(False)),
                      z3.ForAll([m], z3.Implies(z3.And(col < m, m < col + 1 + jj), off_s(env, m) < 0)))

    def havoc_data(ex, env):
        env["data"] = ViewList.fresh()
        ex.assume(env["data"].ln >= 0)

    plan.target(Contract(
        "model:get_storage_buffers_for_row", entry=gsb_entry, ensures=[gsb_post], safety="fork",
        opaque={"array('h', offsets).tolist()": lambda ex, env: env["offsets"]},
        local_views={"data": lambda ex, env: ViewList(z3.IntVal(0), z3.K(Int, z3.BoolVal(False)), z3.K(Int, z3.IntVal(0)), z3.K(Int, z3.IntVal(0)))},
        loops={1: LoopSpec([gsb_outer0, gsb_outer], index="_i", havoc=[havoc_data], steps=[gsb_step_new]),
               2: LoopSpec([gsb_inner], index="_j", kinds={"end": "optint"})},
        canaries=[lambda ex, env: env["result"].ln == T(env["num_cols"])]))
    # the two offset encodings read the same cells (corollary of the functional postcondition)
    o1, o4, W = z3.Int("o_bytes"), z3.Int("o_words"), z3.Bool("wide")
    plan.lemma(Lemma("ENCODINGS", "byte offsets o and 4-byte-unit offsets o/4 (o a multiple of 4, or -1) denote the same scaled offset",
                     [("scale", [z3.Or(z3.And(o1 >= 0, o1 % 4 == 0, o4 == o1 / 4), z3.And(o1 == -1, o4 == -1))],
                       z3.And(1 * o1 == 4 * o4 if False else (o1 < 0) == (4 * o4 < 0), z3.Implies(o1 >= 0, o1 == 4 * o4)))]))

    # table_string: a key that is in the list never degrades to ""
    def ts_entry(ex):
        env = lv_entry(ex)
        model = PObj("_NumbersModel", {"_table_strings": env.pop("self")})
        env["g_dl"] = model.fields["_table_strings"]
        env["self"] = model
        return env

    def ts_post(ex, env):
        entries = env["g_datalist"].fields["entries"]
        i = z3.Int(fresh_name("ti"))
        return z3.Exists([i], z3.And(0 <= i, i < entries.ln, z3.Select(K(ex), z3.Select(entries.at, i)) == T(env["key"]),
                                     z3.Select(S(ex), z3.Select(entries.at, i)) == lift(env["result"])))
    ts_post.__name__ = "returns the string of the entry carrying key (never the '' fallback)"

    def lv_call_effects(ex, cenv):
        cenv["g_datalist"] = ex.entry_env["g_datalist"]

    lvc = Contract("model:DataLists.lookup_value", label="call", requires=[lambda ex, env: lv_pre(ex, dict(env, g_datalist=ex.entry_env["g_datalist"]))],
                   ensures=[lambda ex, env: lv_post(ex, dict(env, g_datalist=ex.entry_env["g_datalist"]))],
                   result="ref:ListEntry", when=lambda args: True)
    ctx.add(lvc)
    plan.target(Contract("model:_NumbersModel.table_string", entry=ts_entry, requires=[lv_pre], ensures=[ts_post],
                         safety="fork", use_labels={"model:DataLists.lookup_value": "call"}, result="str",
                         cover_hints=[lambda ex, env: witness1(ex, env)]))

    plan.bounded.append(BoundedStandIn(
        "layout-rewrites", "c06_layout.py", ["--fixtures", "24"], thorough_args=["--fixtures", "0"],
        bound="24 fixtures (thorough: all 83 that open) x 10 meaning-preserving rewrites: lookup lists reversed / seeded-shuffled, "
              "zip member order reversed + stored, deflated, package folder, IWA re-chunked at 1 KiB and at random sizes, byte <-> "
              "4-byte-unit cell offsets per row where representable (all rows / every second row), an explicit header record for every empty row; contract: "
              "same sheets/tables/cell classes/values/formulas/formatted values as the original",
        functions=["Document(path) over rewritten containers", "_NumbersModel.row_storage_map/storage_buffer(s)",
                   "IWork._read_objects_from_zipfile/_from_package", "IWACompressedChunk._decompress_all"]))
    plan.assumptions += [
        "row mapping (storage_buffer/row_storage_map) and the container forms are decided only by the bounded stand-in",
        "ghost view of a TST.TableDataList: entries = (len, at) list of entry references with heap fields key/string/refcount; "
        "the three index dicts are (dom, val) maps; _datalists holds one symbolic table token",
        "the protobuf object store lookups in add_table are bound to the ghost datalist (model.objects[...] is not modelled)",
        "A-PB: a message constructed from keyword arguments has exactly those fields; repeated fields behave as lists",
        "@cache on add_table: the body runs once per table; IDX is a class invariant kept by lookup_key/init",
    ]
    plan.trusted += ["pyvc AST->SMT translation (cross-checked against CPython)", "z3 5.1.0 (quantified VCs)", "cvc5 1.0.3"]


    # ------------------------------------------------------------------ table_rich_text: the scan for a key cannot stop before the key is found
    def rich_text_scan_is_exhaustive():
        import ast as _ast
        from pyvc import extract as _ex
        fi = _ex.find_function("model:_NumbersModel.table_rich_text")
        loops = [n for n in fi.node.body if isinstance(n, _ast.For) and "entries" in _ast.unparse(n.iter)]
        if len(loops) != 1:
            return False, f"anchor lost: {len(loops)} top-level loops over the rich-text entries", 0
        loop = loops[0]
        bad = []
        for st in loop.body:
            is_match = isinstance(st, _ast.If) and isinstance(st.test, _ast.Compare) and len(st.test.ops) == 1 and isinstance(st.test.ops[0], _ast.Eq) \
                and {"string_key", "entry.key"} == {_ast.unparse(st.test.left), _ast.unparse(st.test.comparators[0])}
            if is_match:
                continue
            for n in _ast.walk(st):
                if isinstance(n, (_ast.Break, _ast.Return, _ast.Raise)):
                    bad.append(f"L{n.lineno}: the scan over the rich-text entries can end ({type(n).__name__.lower()}) before the wanted key is reached: an "
                               "entry stored later in the list is not found")
        return (not bad), bad[:3], 1
    plan.ground.append(("rich-text-lookup-scans-every-entry", rich_text_scan_is_exhaustive))

    # ------------------------------------------------------------------ storage_buffers / row_storage_map
    # Row records are stored tile by tile.  FLAT(t) = number of row records in the tiles before tile t (a recursively defined
    # ghost function: FLAT(0) = 0, FLAT(t+1) = FLAT(t) + NREC(t)); record r of tile t has flat position FLAT(t) + r.
    #   storage_buffers:  the k-th buffer of the result is decoded from the record at flat position k, with ITS OWN buffer, offsets
    #                     and offset width, for the table's width;
    #   row_storage_map:  the record at flat position k is mapped from its OWN row (tile id * tile size + its index in the tile) to k,
    #                     whatever the record holds (a record without cells still occupies a position), one store per record.
    # Together: storage_buffer(row) reads the bytes of the record that declares that row, in any tile layout.
    FLAT = z3.Function("C06_FLAT", Int, Int)
    NREC = z3.Function("C06_NREC", Int, Int)

    def flat_facts(ex, t):
        ex.assume(z3.And(FLAT(0) == 0, NREC(t) >= 0, FLAT(t) >= 0, FLAT(t + 1) == FLAT(t) + NREC(t)))

    class RowInfosV(Custom):
        def __init__(self, tile):
            self.tile = tile

        def length(self, ex):
            return NREC(self.tile)

        def getitem(self, ex, idx, line):
            owner = FLAT(self.tile) + T(idx)
            f = {k: PObj("FieldOf", {"owner": owner, "what": k}) for k in ("cell_storage_buffer", "cell_offsets", "has_wide_offsets")}
            f["tile_row_index"] = ex.fresh("int", "tile_row_index")
            f["cell_count"] = ex.fresh("int", "cell_count")
            ex.assume(z3.And(T(f["tile_row_index"]) >= 0, T(f["cell_count"]) >= 0))
            f["g_flat"] = SInt(owner)
            return PObj("RowInfoV", f)

    class TilesV(Custom):
        def __init__(self, n):
            self.n = n

        def length(self, ex):
            return self.n

        def getitem(self, ex, idx, line):
            flat_facts(ex, T(idx))
            return PObj("TileV", {"last_saved_in_BNC": ex.fresh("bool", "bnc"), "rowInfos": RowInfosV(T(idx))})

    class BufListV(Custom):
        def __init__(self):
            self.ln = z3.IntVal(0)

        def length(self, ex):
            return self.ln

        def method(self, ex, name, args, kwargs, line):
            if name != "append" or not (isinstance(args[0], PObj) and args[0].cls == "RowBuffersV"):
                raise Unsupported(f"buffers.{name}")
            ex.oblige(f"buffer-k-is-decoded-from-record-k@L{line}: the buffers are appended in flat record order, one per record",
                      args[0].fields["owner"] == self.ln, "ghost", line)
            self.ln = self.ln + 1

    def sb_callee(ex, args, kwargs, line):
        buf, offs, ncols, wide = args
        ok = all(isinstance(x, PObj) and x.cls == "FieldOf" for x in (buf, offs, wide))
        if not ok:
            ex.oblige(f"row-decoded-from-its-own-record@L{line}: buffer, offsets and offset width are fields of a row record", z3.BoolVal(False), "ghost", line)
            return PObj("RowBuffersV", {"owner": z3.Int(fresh_name("nobody"))})
        ex.oblige(f"row-decoded-from-its-own-record@L{line}: buffer, offsets and offset width come from the same row record",
                  z3.And(buf.fields["owner"] == offs.fields["owner"], offs.fields["owner"] == wide.fields["owner"],
                         z3.BoolVal((buf.fields["what"], offs.fields["what"], wide.fields["what"]) == ("cell_storage_buffer", "cell_offsets", "has_wide_offsets"))),
                  "ghost", line)
        ex.oblige(f"row-decoded-with-the-table-width@L{line}", T(ncols) == ex.entry_env["g_ncols"].t, "ghost", line)
        return PObj("RowBuffersV", {"owner": buf.fields["owner"]})
    plan.callee(Contract("model:get_storage_buffers_for_row", label="owner", model=sb_callee, when=lambda a: True,
                         note="ghost model used by the storage_buffers contract only: checks which row record each argument belongs to"))

    def sb_entry(ex):
        nt = z3.Int(fresh_name("n_tiles"))
        ex.assume(z3.And(nt >= 0, FLAT(0) == 0))
        return {"self": PObj("ModelSB", {"g_tiles": TilesV(nt)}), "table_id": ex.fresh("int", "table_id"), "g_ncols": ex.fresh("int", "ncols"),
                "g_nt": SInt(nt)}
    mmx = ctx.method_models = getattr(ctx, "method_models", {})
    mmx[("ModelSB", "table_tiles")] = lambda ex, o, a, k, l: o.fields["g_tiles"]
    mmx[("ModelSB", "number_of_columns")] = lambda ex, o, a, k, l: ex.entry_env["g_ncols"]

    def sb_havoc(ex, env):
        env["buffers"].ln = z3.Int(fresh_name("nbuf"))

    def sb_post(ex, env):
        r = env["result"]
        return z3.And(z3.BoolVal(isinstance(r, BufListV)), r.ln == FLAT(env["g_nt"].t)) if isinstance(r, BufListV) else z3.BoolVal(False)
    plan.target(Contract("model:_NumbersModel.storage_buffers", entry=sb_entry, ensures=[sb_post],
                         raises={"UnsupportedError": None}, safety="fork", use_labels={"model:get_storage_buffers_for_row": "owner"},
                         search=lambda plan_, c: {"custom": "search_layout", "native_module": plan_.native_module},
                         canaries=[lambda ex, env: env["result"].ln == 2],
                         local_views={"buffers": lambda ex, env: BufListV()},
                         loops={1: LoopSpec([lambda ex, env: env["buffers"].ln == FLAT(T(env["_t"]))], index="_t", havoc=[sb_havoc]),
                                2: LoopSpec([lambda ex, env: z3.And(env["buffers"].ln == FLAT(T(env["_t"])) + T(env["_r"]), T(env["_t"]) >= 0,
                                                                    T(env["_t"]) < env["g_nt"].t)], index="_r", havoc=[sb_havoc])}))

    # row_storage_map
    class RowMapV(Custom):
        """ghost view of the row -> buffer-position map: the initial domain and the log of stores"""
        def __init__(self, n_init):
            self.n_init, self.stores = n_init, z3.IntVal(0)
            self.last_key, self.last_val = z3.IntVal(-1), z3.IntVal(-1)

        def setitem(self, ex, key, v, line):
            if not (is_intlike(key) and is_intlike(v)):
                ex.oblige(f"row-map-store@L{line}: a row is mapped to an integer position", z3.BoolVal(False), "ghost", line)
                return
            self.last_key, self.last_val, self.stores = T(key), T(v), self.stores + 1

    class TileRefsV(Custom):
        def __init__(self, n, handed):
            self.n, self.handed = n, handed

        def length(self, ex):
            return self.n

        def getitem(self, ex, idx, line):
            flat_facts(ex, T(idx))
            ident, tileid = z3.Int(fresh_name("tile_identifier")), z3.Int(fresh_name("tileid"))
            ex.assume(tileid >= 0)
            self.handed.append((ident, T(idx)))
            return PObj("TileRefV", {"tileid": SInt(tileid), "tile": PObj("ReferenceV", {"identifier": SInt(ident)})})

    class ObjectsV(Custom):
        def __init__(self, table_id, table, handed):
            self.table_id, self.table, self.handed = table_id, table, handed

        def getitem(self, ex, idx, line):
            k = T(idx)
            if k.eq(T(self.table_id)):
                return self.table
            for ident, t in self.handed:
                if k.eq(ident):
                    return PObj("TileV", {"rowInfos": RowInfosV(t)})
            ex.oblige(f"objects-key@L{line}: the object store is read with the table's id or with a tile reference of this table", z3.BoolVal(False), "ghost", line)
            raise Unsupported("objects[...] with an unrelated key")

    def rsm_entry(ex):
        nt, nrows, ts = z3.Int(fresh_name("n_tiles")), z3.Int(fresh_name("n_rows")), z3.Int(fresh_name("tile_size"))
        ex.assume(z3.And(nt >= 0, nrows >= 0, ts >= 0, FLAT(0) == 0))
        handed = []
        table_id = ex.fresh("int", "table_id")
        table = PObj("TableModelV", {"number_of_rows": SInt(nrows), "base_data_store": PObj("BDSV", {"tiles": PObj("TileStorageV", {
            "tile_size": SInt(ts), "tiles": TileRefsV(nt, handed)})})})
        return {"self": PObj("ModelRSM", {"objects": ObjectsV(table_id, table, handed)}), "table_id": table_id,
                "g_nt": SInt(nt), "g_nrows": SInt(nrows), "g_ts": SInt(ts)}

    def rsm_init(ex, env):
        m = RowMapV(env["g_nrows"].t)
        env["g_map"] = m
        return m

    def rsm_havoc(ex, env):
        m = env["g_map"]
        m.stores, m.last_key, m.last_val = z3.Int(fresh_name("stores")), z3.Int(fresh_name("last_key")), z3.Int(fresh_name("last_val"))

    def ts_eff(env):
        return z3.If(env["g_ts"].t == 0, z3.IntVal(256), env["g_ts"].t)

    def rsm_step(ex, env):
        m, ri, tr = env["g_map"], env["row_info"], env["tile_ref"]
        k = ri.fields["g_flat"].t
        return z3.And(m.stores == k + 1, m.last_val == k, m.last_key == T(tr.fields["tileid"]) * ts_eff(env) + T(ri.fields["tile_row_index"]))

    def rsm_post(ex, env):
        r = env["result"]
        if not isinstance(r, RowMapV):
            return z3.BoolVal(False)
        return z3.And(r.stores == FLAT(env["g_nt"].t), r.n_init == env["g_nrows"].t)
    plan.target(Contract("model:_NumbersModel.row_storage_map", entry=rsm_entry, ensures=[rsm_post], safety="fork",
                         opaque={"{i: None for i in range(self.objects[table_id].number_of_rows)}": rsm_init},
                         search=lambda plan_, c: {"custom": "search_row_map", "native_module": plan_.native_module},
                         canaries=[lambda ex, env: env["result"].stores == 3],
                         loops={1: LoopSpec([lambda ex, env: z3.And(env["g_map"].stores == FLAT(T(env["_t"])), T(env["idx"]) == FLAT(T(env["_t"])))],
                                            index="_t", havoc=[rsm_havoc]),
                                2: LoopSpec([lambda ex, env: z3.And(env["g_map"].stores == FLAT(T(env["_t"])) + T(env["_r"]),
                                                                    T(env["idx"]) == FLAT(T(env["_t"])) + T(env["_r"]),
                                                                    T(env["_t"]) >= 0, T(env["_t"]) < env["g_nt"].t)],
                                            index="_r", havoc=[rsm_havoc], steps=[rsm_step])}))

    # chunk boundaries: what decides whether a member is read as an archive at all (C17's is_iwa_file: True iff the data is a sequence of
    # well-formed frames, 3-byte length) and how a framed member is decoded (C05's _decompress_all: one piece per frame, in order)
    from contracts import C05, C17
    p17 = C17.build()
    plan.import_targets(p17, lambda c: c.qual == "iwafile:is_iwa_file")
    p5 = C05.build()
    plan.import_targets(p5, lambda c: c.qual == "iwafile:IWACompressedChunk._decompress_all")
    for c_ in plan.targets:
        if getattr(c_, "search", None) is None and getattr(c_, "home", plan) is plan and (True):
            c_.search = lambda plan_, c: {"custom": "search_layout", "native_module": plan_.native_module}
    return plan

"""C12 - Merged regions are reported consistently, immediately and after reload.

Deductive kernels: Cell._set_merge (the three cases), the pack/unpack expressions of the stored merge map taken
from the source (with the side condition the packing needs derived from the documented table limits).
The picture on whole documents (all cells of the rectangle, outside untouched, merge_ranges, reload, insert/delete
after a merge) is decided by the bounded stand-in.
"""
import ast
import os

import z3

from pyvc import extract
from pyvc.ctx import VerifCtx, Contract, LoopSpec
from pyvc.plan import Plan, Lemma, BoundedStandIn
from pyvc.sym import (Executor, Obligation, Int, PObj, SInt, SStr, SBool, fresh_name, lift, as_int_term, is_intlike, Unsupported, wrap)

MAX_ROW = extract.module_const("constants", "MAX_ROW_COUNT")
MAX_COL = extract.module_const("constants", "MAX_COL_COUNT")


def T(v):
    return as_int_term(v) if is_intlike(v) else lift(v)


def build():
    from contracts import C10
    p10 = C10.build()
    ctx = p10.ctx
    plan = Plan("C12", ctx)
    for lem in p10.lemmas:
        ctx.lemmas[lem.name] = lem
    plan.native_module = os.path.join(os.path.dirname(__file__), "C12_native.py")

    # ------------------------------------------------------------------ Cell._set_merge
    ctx.constructors["CellBorder"] = lambda ex, args, kwargs, line: PObj("CellBorder", {"merged": tuple(args)})

    def sm_entry(kind):
        def entry(ex):
            cell = PObj("Cell", {"row": ex.fresh("int", "row"), "col": ex.fresh("int", "col")})
            env = {"self": cell}
            if kind == "anchor":
                env["merge_ref"] = PObj("MergeAnchor", {"size": (ex.fresh("int", "h"), ex.fresh("int", "w"))})
            elif kind == "reference":
                rect = tuple(ex.fresh("nat", f"rect{i}") for i in range(4))
                ex.assume(z3.And(rect[1].t <= 18277, rect[3].t <= 18277))
                env["merge_ref"] = PObj("MergeReference", {"rect": rect})
            else:
                env["merge_ref"] = False
            return env
        return entry

    def sm_post(kind):
        def post(ex, env):
            f = env["self"].fields
            m = env["merge_ref"]
            if kind == "anchor":
                return z3.And(z3.BoolVal(f["is_merged"] is True), T(f["size"][0]) == T(m.fields["size"][0]),
                              T(f["size"][1]) == T(m.fields["size"][1]), z3.BoolVal(f["rect"] is None and f["merge_range"] is None),
                              z3.BoolVal(f["_border"].fields["merged"] == ()))
            if kind == "reference":
                r = m.fields["rect"]
                b = f["_border"].fields["merged"]
                row, col = T(f["row"]), T(f["col"])
                tb = lambda v: v.t if isinstance(v, SBool) else z3.BoolVal(bool(v))
                return z3.And(z3.BoolVal(f["is_merged"] is False and f["size"] is None),
                              *[T(f["rect"][i]) == T(r[i]) for i in range(4)],
                              tb(b[0]) == (row > T(r[0])), tb(b[1]) == (col < T(r[3])), tb(b[2]) == (row < T(r[2])), tb(b[3]) == (col > T(r[1])))
            return z3.And(z3.BoolVal(f["is_merged"] is False and f["size"] == (1, 1) and f["rect"] is None and f["merge_range"] is None),
                          z3.BoolVal(f["_border"].fields["merged"] == ()))
        post.__name__ = {"anchor": "anchor: is_merged, size == the rectangle's size, no rect, plain border",
                         "reference": "placeholder: not is_merged, size None, rect == the rectangle, merge_range == xl_range(rect), "
                                      "inner edges flagged merged (top iff row > row_start, ...)",
                         "none": "unmerged: is_merged False, size (1,1), no rect"}[kind]
        return post

    def sm_range_post(ex, env):
        f = env["self"].fields
        r = env["merge_ref"].fields["rect"]
        e = lambda rr, cc: z3.Concat(ctx.specfns["colname"].f(T(cc)), __import__("pyvc.sym", fromlist=["py_str"]).py_str(T(rr) + 1))
        same = z3.And(T(r[0]) == T(r[2]), T(r[1]) == T(r[3]))
        return lift(f["merge_range"]) == z3.If(same, e(r[0], r[1]), z3.Concat(e(r[0], r[1]), z3.StringVal(":"), e(r[2], r[3])))
    sm_range_post.__name__ = "merge_range == A1 range text of the rectangle (by xl_range's contract)"

    for kind in ("anchor", "reference", "none"):
        plan.target(Contract("cell:Cell._set_merge", label=kind, entry=sm_entry(kind),
                             ensures=[sm_post(kind)] + ([sm_range_post] if kind == "reference" else []),
                             canaries=[lambda ex, env: z3.BoolVal(env["self"].fields["is_merged"] is None)]))

    # ------------------------------------------------------------------ the stored merge map: pack / unpack expressions
    def packing_obligations(plan_):
        fw = extract.find_function("model:_NumbersModel.recalculate_merged_cells")
        fr = extract.find_function("model:_NumbersModel.calculate_merge_cell_ranges")
        packs = {}
        for n in ast.walk(fw.node):
            if isinstance(n, ast.Call) and ast.unparse(n.func) in ("TSTArchives.CellID", "TSTArchives.TableSize"):
                for k in n.keywords:
                    if k.arg == "packedData":
                        packs[ast.unparse(n.func).split(".")[-1]] = k.value
        unpacks = {}
        for n in ast.walk(fr.node):
            if isinstance(n, ast.Assign) and isinstance(n.targets[0], ast.Tuple) and isinstance(n.value, ast.Tuple):
                names = tuple(ast.unparse(x) for x in n.targets[0].elts)
                if names in (("col_start", "row_start"), ("num_columns", "num_rows")):
                    unpacks[names] = n.value
        if set(packs) != {"CellID", "TableSize"} or len(unpacks) != 2:
            raise Unsupported("pack/unpack expressions of the merge map not found")
        c = Contract("model:_NumbersModel.recalculate_merged_cells", label="packing", safety="assert",
                     replay=lambda p_, c_, inputs, ob: {"custom": "replay_packing", "native_module": plan.native_module, "inputs": inputs},
                     search=lambda p_, c_: {"custom": "search_packing", "native_module": plan.native_module})
        c.finfo = fw
        ctx.contracts[c.key] = c
        ex = Executor(ctx, fw, c)
        ex.reset_path([])
        ex.pending, ex.extra_roots, ex.in_spec, ex.inlined, ex.used_contracts = [[]], {"heap": {}}, False, set(), set()
        out = []
        for (what, packname, names, lims) in (("origin", "CellID", ("col_start", "row_start"), (MAX_ROW, MAX_COL)),
                                               ("size", "TableSize", ("num_columns", "num_rows"), (MAX_ROW, MAX_COL))):
            a, b = z3.Int(fresh_name("row_or_h")), z3.Int(fresh_name("col_or_w"))
            lo = 0 if what == "origin" else 1
            packed = ex.eval(packs[packname], {"row_col": (SInt(a), SInt(b)), "size": (SInt(a), SInt(b)), "__closure__": None})
            obj = PObj("CellRange", {"origin": PObj("CellID", {"packedData": packed}), "size": PObj("TableSize", {"packedData": packed})})
            vals = ex.eval(unpacks[names], {"cell_range": obj, "__closure__": None})
            goal = z3.And(T(vals[0]) == b, T(vals[1]) == a)
            ob = Obligation(f"merge-map/{what}-unpack(pack(x)) == x within the table limits",
                            [a >= lo, a <= lims[0] - (1 - lo), b >= lo, b <= lims[1] - (1 - lo)], goal, "codec", fw.lineno,
                            {"inputs": {"first": SInt(a), "second": SInt(b), "what": what}})
            ob.fn, ob.contract = c.key, c
            out.append(ob)
        return out
    plan.extra_obligations.append(packing_obligations)

    plan.bounded.append(BoundedStandIn(
        "merges", "c12_merges.py", ["--size", "4", "--pairs", "60", "--edits", "40"],
        thorough_args=["--size", "6", "--pairs", "400", "--edits", "300"],
        bound="every rectangle in a 4x4 table (thorough 6x6: all 441) singly, 60 (400) seeded disjoint pairs given one by one or as a "
              "list, each followed by save/reopen; every single rectangle again with a write into its top-left cell; 40 (300) single rectangles followed by one row/column insertion/deletion that does "
              "not cut the rectangle, then save/reopen",
        functions=["Table.merge_cells", "Table.merge_ranges", "Cell._set_merge", "model.calculate_merge_cell_ranges",
                   "model.recalculate_merged_cells", "Document.save", "Document(path)"]))
    plan.assumptions += [
        "Table.merge_cells' loops, merge_ranges and the reload path are decided by the bounded stand-in only (the deductive "
        "kernels are _set_merge and the packing expressions)",
        "xl_range enters _set_merge through its C10 contract; CellBorder(...) is an opaque constructor recording its arguments",
        "ints mathematical; << and | on non-negative ints as arithmetic",
    ]
    plan.trusted += ["pyvc AST->SMT translation (cross-checked against CPython)", "z3 5.1.0", "cvc5 1.0.3"]
    plan.level = "other"
    plan.explanation = ("Mixed: Cell._set_merge is proved for its three cases and the merge-map packing expressions are checked "
                        "against the table limits (refuted for rows >= 65536: open known finding F-C12-3, so discharged < obligations); "
                        "the whole-document picture (all cells of the rectangle, outside untouched, merge_ranges, reload, writes and "
                        "insert/delete after a merge) is a bounded run-time-contract stand-in (open known finding F-C12-2).")
    return plan
